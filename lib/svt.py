"""Python side of the workers: write case files, run svtdrv / svtdec / refdec, collect results."""
import hashlib, json, os, shutil, struct, subprocess, sys, tempfile, time

sys.path.insert(0, os.path.dirname(os.path.abspath(__file__)))
import build, workers

WORK_ROOT = os.environ.get("VERIF_WORK") or ("/dev/shm" if os.path.isdir("/dev/shm") else "/tmp")

_bins = {}


def bins(variant):
    if variant not in _bins:
        _bins[variant] = workers.ensure(variant)
    return _bins[variant]


def refbins():
    if "ref" not in _bins:
        _bins["ref"] = workers.ensure_ref()
        _selftest_refs(_bins["ref"])
    return _bins["ref"]


class RefDecoderBroken(build.BuildFailed):
    pass


def _selftest_refs(b):
    """The reference decoders are driven through dlopen with hand-declared ABI: before any verdict depends on them, decode a committed
    stream and compare with the committed hash (which also equals the SVT encoder's recon of that stream).  A mismatch means the
    oracle itself is broken on this machine: the check stops as BUILD-FAILED / inconclusive (exit 2), never as a VIOLATION."""
    st = os.path.join(build.VERIF, "corpus", "selftest.tu")
    js = os.path.join(build.VERIF, "corpus", "selftest.json")
    if not (os.path.exists(st) and os.path.exists(js)):
        return
    want = json.load(open(js))
    wd = mkwork("selftest")
    try:
        for dec in ("aom", "dav1d"):
            p = subprocess.run([b["refdec"], dec, st, os.path.join(wd, "s"), "0"], stdout=subprocess.PIPE, stderr=subprocess.PIPE, timeout=120)
            yp = os.path.join(wd, "s.%s.yuv16" % dec)
            got = hashlib.sha256(open(yp, "rb").read()).hexdigest() if os.path.exists(yp) else None
            if got != want["sha256"]:
                raise RefDecoderBroken("reference decoder self-test failed for %s (exit %s): the dlopen ABI assumptions do not hold here" % (dec, p.returncode))
    finally:
        shutil.rmtree(wd, ignore_errors=True)


def mkwork(prefix="vf"):
    return tempfile.mkdtemp(prefix=prefix + "-", dir=WORK_ROOT)


def case_hash(obj):
    return hashlib.sha256(json.dumps(obj, sort_keys=True).encode()).hexdigest()[:16]


CASE_KEYS = ("frames", "twopass", "pad_fill", "scribble", "realloc", "dump_input", "dump_cfg",
             "start_delay_us", "repeat")


def write_case(case, path, out):
    """case: dict(cfg={field:int | field:[ints]}, frames, content=[kind,seed,amp,motion,cut], ...)"""
    L = []
    for k, v in case.get("cfg", {}).items():
        if k.startswith("__"):
            continue        # generator bookkeeping (e.g. __excluded__), not a configuration field
        if isinstance(v, (list, tuple)):
            for i, x in enumerate(v):
                L.append("cfga %s %d %d" % (k, i, x))
        else:
            L.append("cfg %s %d" % (k, int(v)))
    for k in CASE_KEYS:
        if k in case:
            L.append("%s %d" % (k, int(case[k])))
    if "content" in case:
        L.append("content " + " ".join(str(int(x)) for x in case["content"]))
    if "pts" in case:
        L.append("pts %d %d" % tuple(case["pts"]))
    if "ptslist" in case:
        L.append("ptslist " + " ".join(str(int(x)) for x in case["ptslist"]))
    if "qplist" in case:
        L.append("qplist " + " ".join(str(int(x)) for x in case["qplist"]))
    if "pat" in case:
        L.append("pat " + ",".join(case["pat"]))
    if "stride_pad" in case:
        L.append("stride_pad %d %d %d" % tuple(case["stride_pad"]))
    if "prefill" in case:
        L.append("prefill %d %d" % tuple(case["prefill"]))
    if "stop_after" in case:
        L.append("stop_after %d %d" % tuple(case["stop_after"]))
    if "dec" in case:
        L.append("dec %s %d %d" % tuple(case["dec"]))
    L.append("out " + out)
    open(path, "w").write("\n".join(L) + "\n")


class EncResult:
    """Result of one svtdrv run of one case."""

    def __init__(self):
        self.exit = None
        self.hang = None          # dict or None
        self.crash = None         # str or None (signal / sanitizer abort)
        self.sessions = []
        self.json_ok = False
        self.san = []             # sanitizer reports (parsed)
        self.stderr = ""
        self.wall = 0.0
        self.lsan_leak = None
        self.workdir = None
        self.prefix = None

    # -- convenience over the last session (the real encode; pass 2 in two-pass mode)
    @property
    def s(self):
        return self.sessions[-1] if self.sessions else {}

    def events(self, t):
        return [e for e in self.s.get("events", []) if e.get("t") == t]

    def packets(self):
        """list of (meta, bytes)"""
        data = open(self.prefix + ".pkt", "rb").read() if os.path.exists(self.prefix + ".pkt") else b""
        return [(e, data[e["off"]:e["off"] + e["size"]]) for e in self.events("pkt") if "size" in e]

    def recons(self):
        data = open(self.prefix + ".rec", "rb").read() if os.path.exists(self.prefix + ".rec") else b""
        return [(e, data[e["off"]:e["off"] + e["size"]]) for e in self.events("rec") if "size" in e]

    def accepted(self):
        s = self.s
        return s.get("rc_init_handle") == 0 and s.get("rc_set_parameter") == 0 and s.get("rc_init") == 0

    def completed(self):
        return self.exit == 0 and self.json_ok and self.hang is None and self.crash is None

    def out_digest(self):
        """digest of everything the application observes: packet bytes+metadata, recon bytes+metadata"""
        h = hashlib.sha256()
        for e, b in self.packets():
            h.update(json.dumps([e["pts"], e["dts"], e["pic_type"], e["flags"], e["qp"], e["size"]]).encode())
            h.update(b)
        h.update(b"|recon|")
        for e, b in sorted(self.recons(), key=lambda x: x[0]["pts"]):
            h.update(json.dumps([e["pts"], e["size"]]).encode())
            h.update(b)
        return h.hexdigest()

    def cleanup(self):
        if self.workdir and os.path.isdir(self.workdir):
            shutil.rmtree(self.workdir, ignore_errors=True)


def parse_sanitizer(text):
    """returns list of dict(kind, frame, line) — key = (kind, innermost frame inside Source/)"""
    import re
    reps = []
    lines = text.splitlines()
    i = 0
    while i < len(lines):
        ln = lines[i]
        m = re.search(r"ERROR: (AddressSanitizer|LeakSanitizer|ThreadSanitizer): ([\w-]+)", ln)
        m2 = re.search(r"(\S+?):(\d+):\d+: runtime error: (.*)$", ln)
        m3 = re.search(r"WARNING: ThreadSanitizer: (.*?) \(pid", ln)
        if m or m3:
            kind = (m.group(1) + ":" + m.group(2)) if m else ("TSan:" + m3.group(1))
            frame = None
            stack = []
            j = i + 1
            while j < len(lines) and j < i + 60:
                fm = re.search(r"#\d+ 0x[0-9a-f]+ in (\S+) (\S+)", lines[j])
                if fm:
                    stack.append((fm.group(1), fm.group(2)))
                    if frame is None and "/Source/" in fm.group(2):
                        frame = fm.group(1)
                elif stack and not lines[j].strip():
                    break
                j += 1
            reps.append(dict(kind=kind, frame=frame or (stack[0][0] if stack else "?"),
                             stack=[s[0] for s in stack[:8]], line=ln.strip()[:300]))
            i = j
            continue
        if m2:
            msg = m2.group(3)
            cls = "ubsan:" + re.sub(r"-?\d+(\.\d+)?(e[+-]?\d+)?", "N", msg)[:80]
            f = os.path.basename(m2.group(1))
            reps.append(dict(kind=cls, frame=f, stack=[], line=ln.strip()[:300], srcline=int(m2.group(2))))
        i += 1
    return reps


def san_env(variant, extra=None):
    env = dict(os.environ)
    env.setdefault("SVT_LOG", "-1")
    if variant in ("asan", "st", "fz"):
        env["ASAN_OPTIONS"] = "detect_leaks=1:halt_on_error=1:abort_on_error=0:exitcode=66:allocator_may_return_null=1:detect_stack_use_after_return=0:malloc_context_size=12"
        env["UBSAN_OPTIONS"] = "print_stacktrace=0:halt_on_error=0"
        env["LSAN_OPTIONS"] = "exitcode=67"
    if variant == "tsan":
        env["TSAN_OPTIONS"] = "halt_on_error=0:exitcode=0:second_deadlock_stack=1:history_size=4"
    if extra:
        env.update(extra)
    return env


def run_encode(case, variant="rel", timeout=200, env=None, keep=True, work=None, extra_cases=None):
    """Run one svtdrv process on `case` (plus optional concurrent extra cases). Returns EncResult
    (list of EncResult when extra_cases is given)."""
    b = bins(variant)
    wd = work or mkwork("enc")
    allc = [case] + list(extra_cases or [])
    res = []
    paths = []
    for i, c in enumerate(allc):
        r = EncResult()
        r.workdir = wd
        r.prefix = os.path.join(wd, "o%d" % i)
        cp = os.path.join(wd, "c%d.txt" % i)
        write_case(c, cp, r.prefix)
        paths.append(cp)
        res.append(r)
    e = san_env(variant, env)
    e.setdefault("SVTDRV_MAXIDLE_S", str(max(30, int(timeout * 0.6))))
    t0 = time.time()
    try:
        cmd = [b["svtdrv"]] + paths
        if e.get("SVTDRV_TASKSET"):
            cmd = ["taskset", "-c", e["SVTDRV_TASKSET"]] + cmd
        p = subprocess.run(cmd, env=e, stdout=subprocess.PIPE, stderr=subprocess.PIPE,
                           timeout=timeout)
        code, err = p.returncode, p.stderr.decode("latin1", "replace")
    except subprocess.TimeoutExpired as ex:
        code, err = -999, (ex.stderr or b"").decode("latin1", "replace")
    wall = time.time() - t0
    for r in res:
        r.exit = code
        r.wall = wall
        r.stderr = err[-20000:]
        r.san = parse_sanitizer(err)
        hp = r.prefix + ".hang"
        if os.path.exists(hp):
            try:
                r.hang = json.load(open(hp))
            except Exception:
                r.hang = {"hang": "unknown"}
        if code == -999:
            r.hang = r.hang or {"hang": "timeout", "where": "?"}
        jp = r.prefix + ".json"
        if os.path.exists(jp):
            try:
                j = json.load(open(jp))
                r.sessions = j.get("sessions", [])
                r.lsan_leak = j.get("lsan_leak")
                r.dec = j.get("dec")
                r.json_ok = bool(j.get("done")) or ("dec" in j)
            except Exception:
                # truncated json (crash mid-way): salvage nothing
                r.json_ok = False
        if code not in (0, 3, 4, 5, -999) or (code == 0 and not r.json_ok):
            r.crash = "exit=%s %s" % (code, (r.san[0]["kind"] + "@" + str(r.san[0]["frame"])) if r.san else err[-300:].replace("\n", " | "))
    return res if extra_cases is not None else res[0]


def write_tu(packets, path, start=0):
    with open(path, "wb") as f:
        for b in packets[start:]:
            f.write(struct.pack("<I", len(b)))
            f.write(b)


class DecResult:
    def __init__(self):
        self.frames = []   # list of dict(w,h,bd,tu)
        self.planes = []   # list of bytes (yuv16 per frame)
        self.nerr = 0
        self.ok = False
        self.err = ""
        self.exit = None
        self.san = []
        self.info = {}


def _split_yuv16(data, frames):
    out, off = [], 0
    for f in frames:
        if "w" not in f:
            out.append(None)
            continue
        w, h = f["w"], f["h"]
        n = (w * h + 2 * ((w + 1) // 2) * ((h + 1) // 2)) * 2
        if f.get("mono") or f.get("layout") == 0:
            n = w * h * 2
        out.append(data[off:off + n])
        off += n
    return out


def decode(tu_path, dec, out_prefix, variant="rel", threads=1, is16=0, annexb=0, start=0, slack=0, timeout=300,
           env=None, skip_deinit=0):
    """dec in aom|dav1d|svt"""
    r = DecResult()
    if dec == "svt":
        cmd = [bins(variant)["svtdec"], tu_path, out_prefix, str(threads), str(is16), str(annexb), str(start), str(slack), str(skip_deinit)]
        e = san_env(variant, env)
    else:
        cmd = [refbins()["refdec"], dec, tu_path, out_prefix, str(start)]
        e = dict(os.environ)
    try:
        p = subprocess.run(cmd, env=e, stdout=subprocess.PIPE, stderr=subprocess.PIPE, timeout=timeout)
        r.exit = p.returncode
        err = p.stderr.decode("latin1", "replace")
    except subprocess.TimeoutExpired:
        r.exit = -999
        err = ""
    r.err = err[-5000:]
    r.san = parse_sanitizer(err)
    jp = "%s.%s.json" % (out_prefix, dec)
    try:
        j = json.load(open(jp))
    except Exception:
        return r
    r.info = j
    r.frames = j.get("frames", [])
    r.nerr = j.get("nerr", -1)
    yp = "%s.%s.yuv16" % (out_prefix, dec)
    data = open(yp, "rb").read() if os.path.exists(yp) else b""
    r.planes = _split_yuv16(data, r.frames)
    r.ok = bool(j.get("done")) and r.exit == 0
    return r


def recon_to16(b, bd):
    """recon buffer bytes -> 16-bit LE sample bytes (same layout as the decoders' yuv16)"""
    if bd > 8:
        return b
    import numpy as np
    return np.frombuffer(b, dtype=np.uint8).astype("<u2").tobytes()
