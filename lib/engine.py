"""Sharded Hypothesis engine + evidence writer + known-finding protocol.

A property module provides:
  ID, LEVEL ("exploration"|...), RULE (str), ASSUMPTIONS (list)
  variants(tier) -> list of build variants to ensure up front
  strategy(tier) -> hypothesis strategy producing JSON-serialisable case dicts
  run_case(case, tier) -> dict(
        violations=[dict(key=str, what=str)],     # empty = property held on this case
        nontrivial=bool, dkey=str,                # distinctness key (hash of observed behaviour / inputs)
        classes=[str,...],                        # labels for the class histogram
        sample=<small json>,                      # what the case looked like
        inconclusive=str|None)                    # e.g. parser self-check failed -> not a verdict
  budget(tier) -> dict(shards=int, examples=int per shard, seconds=float wall budget for generation,
                       min_nontrivial=int)
  optional: regression_cases() -> list of case dicts always replayed first
  optional: finalize(agg, tier) -> extra coverage dict
"""
import fnmatch, hashlib, json, multiprocessing, os, sys, time, traceback

sys.path.insert(0, os.path.dirname(os.path.abspath(__file__)))
import build

VERIF = build.VERIF
# VERIF_OUT redirects evidence and NEW replay files (used when the checks are pointed at a seeded scratch tree, so that
# such runs never overwrite the evidence of /repo itself); committed regression replays are always read from /verif/replays.
_OUT = os.environ.get("VERIF_OUT") or VERIF
EVID = os.path.join(_OUT, "evidence")
REPLAYS = os.path.join(VERIF, "replays")
NEW_REPLAYS = os.path.join(_OUT, "replays")
KNOWN_FILE = os.path.join(VERIF, "known_findings.json")


def load_known(pid):
    try:
        k = json.load(open(KNOWN_FILE))
    except Exception:
        return []
    return [e for e in k.get("findings", []) if e.get("property") == pid and e.get("status") == "known"]


def wild(pattern, key):
    """'*' is the only wildcard (fnmatch would treat the '[N]' in sanitizer messages as a character class)"""
    import re
    return re.fullmatch(".*".join(re.escape(x) for x in pattern.split("*")), key, re.S) is not None


def key_matches(known, key):
    for e in known:
        k = e["key"]
        if key == k or ("*" in k and wild(k, key)):
            return e
    return None


def feature_tag(case):
    """Names the non-default, defect-prone features a case's encoder configuration uses.  Appended to violation keys (modules with TAG_KEYS)
    so that a known finding is identified by the region of the configuration space in which it fails and a violation elsewhere keeps a different key."""
    c = (case.get("cfg") or (case.get("enc") or {}).get("cfg") or {}) if isinstance(case, dict) else {}
    t = []
    if c.get("enable_overlays"):
        t.append("OVL")
    if c.get("enable_adaptive_quantization", 2) == 1:
        t.append("AQ1")
    if c.get("rate_control_mode", 0):
        t.append("RC%d" % c["rate_control_mode"])
    if c.get("rate_control_mode", 0) and c.get("min_qp_allowed", 1) == 0:
        t.append("MINQ0")
    if isinstance(case, dict) and case.get("twopass"):
        t.append("2PASS")
    if c.get("film_grain_denoise_strength", 0):
        t.append("GRAIN")
    if c.get("superres_mode", 0):
        t.append("SRES")
    if c.get("screen_content_mode", 2) == 1:
        t.append("SCM1")
    if c.get("is_16bit_pipeline") and c.get("encoder_bit_depth", 8) == 8:
        t.append("16BP")
    if c.get("tile_rows", 0) or c.get("tile_columns", 0):
        t.append("TILES")
    if c.get("enable_tpl_la", 1) == 0:
        t.append("TPL0")
    if c.get("enc_mode", 8) <= 4:
        t.append("SB128")
    if c.get("over_bndry_blk", 1) == 0:
        t.append("OBB0")
    if c.get("hierarchical_levels", 4) == 5:
        t.append("HL5")
    if c.get("encoder_bit_depth", 8) == 10:
        t.append("10B")
    if c.get("source_width", 0) % 8 or c.get("source_height", 0) % 8:
        t.append("NM8")      # a picture dimension that is not a multiple of 8 (the library pads internally)
    hl = c.get("hierarchical_levels", 4)
    if 1 <= hl <= 3 and c.get("intra_period_length", -2) + 1 == (1 << hl) and c.get("logical_processors", 0) in (1, 2) and c.get("enable_tpl_la", 1) != 0 \
            and isinstance(case, dict) and case.get("frames", 0) >= 8:
        t.append("IPMG")     # intra period == mini-GOP size: listed stall; generators exclude it by construction (gens.case_from)
    return "+".join(t) or "plain"


def run_tagged(mod, case, tier):
    res = mod.run_case(case, tier)
    if getattr(mod, "TAG_KEYS", False):
        tag = feature_tag(case)
        for v in res.get("violations", []):
            if not v.get("tagged"):
                v["key"] = v["key"] + "|" + tag
                v["tagged"] = 1
    return res


def known_replays(pid, tier, seed, quick_n=3):
    """stored reproductions of the listed known findings (replays/<id>/known/*.json): all of them in the thorough tier, a rotating
    sample in the quick tier; each prints KNOWN-FINDING while it still fails"""
    d = os.path.join(REPLAYS, pid, "known")
    out = []
    if os.path.isdir(d):
        files = sorted(f for f in os.listdir(d) if f.endswith(".json"))
        if tier != "thorough" and len(files) > quick_n:
            files = [files[(seed * quick_n + i) % len(files)] for i in range(quick_n)]
        for f in files:
            try:
                out.append(json.load(open(os.path.join(d, f)))["case"])
            except Exception:
                pass
    return out


def derive_seed(seed, shard):
    h = hashlib.sha256(("%d:%d" % (seed, shard)).encode()).digest()
    return int.from_bytes(h[:6], "big")


def _shard_main(mod, tier, seed, shard, outdir, budget, known, nt_counter=None):
    from hypothesis import given, settings, seed as hseed, HealthCheck, Phase
    import hypothesis
    log = open(os.path.join(outdir, "shard%d.jsonl" % shard), "w")
    t0 = time.time()
    gen_budget = budget["seconds"]
    shrink_budget = budget.get("shrink_seconds", 90)
    cache = {}
    state = dict(fail_t=None, last_fail=None, n=0)

    def record(rec):
        log.write(json.dumps(rec) + "\n")
        log.flush()

    @hseed(derive_seed(seed, shard))
    @settings(max_examples=budget["examples"], database=None, deadline=None, derandomize=False,
              suppress_health_check=list(HealthCheck), phases=[Phase.generate, Phase.shrink],
              report_multiple_bugs=False, print_blob=False)
    @given(mod.strategy(tier))
    def prop(case):
        ck = hashlib.sha256(json.dumps(case, sort_keys=True).encode()).hexdigest()
        now = time.time() - t0
        if shard > 0 and not state.get("first_seen"):
            state["first_seen"] = ck      # Hypothesis' first example is the all-minimal one, identical in every shard: only shard 0 runs it
            return
        state["first_seen"] = state.get("first_seen") or ck
        if ck in cache:
            res = cache[ck]
        else:
            # the generation budget is extended (up to 3x) while the run as a whole has not yet reached its minimum number of
            # non-trivial cases (slow machine / heavy cases): an under-explored run is worth less than a slightly longer one
            short = nt_counter is not None and nt_counter.value < budget.get("min_nontrivial", 2) + 2
            over = (state["fail_t"] is None and now > (gen_budget * 3 if short else gen_budget)) or \
                   (state["fail_t"] is not None and now > state["fail_t"] + shrink_budget)
            if over:
                return  # budget exhausted: explored less, never a failure
            try:
                res = run_tagged(mod, case, tier)
            except build.BuildFailed:
                raise
            except Exception as e:  # harness error: inconclusive, reported, not a violation
                res = dict(violations=[], nontrivial=False, dkey="harness-error", classes=["harness_error"],
                           sample=None, inconclusive="harness exception: %r\n%s" % (e, traceback.format_exc()[-1500:]))
            cache[ck] = res
            state["n"] += 1
            if nt_counter is not None and res.get("nontrivial") and not res.get("inconclusive"):
                with nt_counter.get_lock():
                    nt_counter.value += 1
            viol = [v for v in res.get("violations", []) if not key_matches(known, v["key"])]
            kn = [v for v in res.get("violations", []) if key_matches(known, v["key"])]
            exc = []
            if isinstance(case, dict):
                cc = case.get("cfg") or (case.get("enc") or {}).get("cfg") or {}
                exc = ["excluded_by_construction:" + x for x in (cc.get("__excluded__") or [])]
            record(dict(case=case, ck=ck, nontrivial=bool(res.get("nontrivial")), dkey=res.get("dkey"),
                        classes=list(res.get("classes", [])) + exc, sample=res.get("sample"),
                        inconclusive=res.get("inconclusive"), violations=viol, known=kn, t=round(now, 2),
                        shrink=state["fail_t"] is not None))
        viol = [v for v in res.get("violations", []) if not key_matches(known, v["key"])]
        if viol and not budget.get("collect"):
            if state["fail_t"] is None:
                state["fail_t"] = time.time() - t0
            state["last_fail"] = dict(case=case, violations=viol)
            raise AssertionError(viol[0]["key"])

    try:
        prop()
    except AssertionError:
        pass
    except build.BuildFailed as e:
        record(dict(build_failed=str(e)))
    except Exception as e:
        # hypothesis Flaky etc: keep whatever failing case we have
        record(dict(engine_error=repr(e)[:500]))
    if state["last_fail"]:
        json.dump(state["last_fail"], open(os.path.join(outdir, "fail%d.json" % shard), "w"))
    log.close()


def confirm(mod, tier, case, known, times=3, need=3):
    """re-execute outside the generator; returns list of unknown violations seen in >= need of `times` runs"""
    counts, what = {}, {}
    for _ in range(times):
        try:
            res = run_tagged(mod, case, tier)
        except Exception as e:
            continue
        for v in res.get("violations", []):
            if key_matches(known, v["key"]):
                continue
            counts[v["key"]] = counts.get(v["key"], 0) + 1
            what[v["key"]] = v
    need = getattr(mod, "CONFIRM_NEED", need)
    return [what[k] for k, c in counts.items() if c >= need]


def write_replay(pid, case, viol):
    d = os.path.join(NEW_REPLAYS, pid)
    os.makedirs(d, exist_ok=True)
    h = hashlib.sha256(json.dumps(case, sort_keys=True).encode()).hexdigest()[:12]
    safe = "".join(c if c.isalnum() else "_" for c in viol[0]["key"])[:60]
    p = os.path.join(d, "%s-%s.json" % (safe, h))
    json.dump(dict(property=pid, case=case, violations=viol), open(p, "w"), indent=1, sort_keys=True)
    return p


def write_evidence(pid, tier, seed, level, coverage, wall, violations, assumptions):
    os.makedirs(EVID, exist_ok=True)
    ev = dict(property_id=pid, tier=tier, seed=int(seed), level=level, coverage=coverage,
              assumptions=assumptions, wall_s=round(wall, 2), violations=int(violations))
    tmp = os.path.join(EVID, pid + ".json.tmp")
    json.dump(ev, open(tmp, "w"), indent=1, sort_keys=True, default=str)
    os.replace(tmp, os.path.join(EVID, pid + ".json"))


def main(mod, argv=None):
    import argparse
    ap = argparse.ArgumentParser()
    ap.add_argument("--tier", default=os.environ.get("VERIF_TIER", "quick"))
    ap.add_argument("--replay", default=None)
    ap.add_argument("--seed", type=int, default=int(os.environ.get("VERIF_SEED", "1") or 1))
    ap.add_argument("--shards", type=int, default=None)
    ap.add_argument("--seconds", type=float, default=None)
    ap.add_argument("--examples", type=int, default=None)
    ap.add_argument("--collect", action="store_true", help="triage mode: do not stop/shrink at violations, list all distinct keys")
    a = ap.parse_args(argv)
    tier = a.tier if a.tier in ("quick", "thorough") else "quick"
    pid = mod.ID
    t0 = time.time()
    known = load_known(pid)
    try:
        for v in mod.variants(tier):
            import svt
            svt.bins(v)
        import svt
        svt.refbins()
        if hasattr(mod, "prepare"):
            mod.prepare(tier)
    except build.BuildFailed as e:
        print("BUILD-FAILED", e)
        return 2

    if a.replay:
        rp = json.load(open(a.replay))
        res = run_tagged(mod, rp["case"], tier)
        viol = [v for v in res.get("violations", []) if not key_matches(known, v["key"])]
        for v in res.get("violations", []):
            if key_matches(known, v["key"]):
                print("KNOWN-FINDING: property=%s %s" % (pid, v["key"]))
        print(json.dumps(dict(violations=res.get("violations"), inconclusive=res.get("inconclusive"), sample=res.get("sample")), default=str)[:3000])
        if viol:
            print("VIOLATION property=%s replay=%s" % (pid, a.replay))
            return 1
        return 0

    budget = mod.budget(tier)
    if a.shards:
        budget["shards"] = a.shards
    if a.seconds:
        budget["seconds"] = a.seconds
    if a.examples:
        budget["examples"] = a.examples
    if a.collect:
        budget["collect"] = True
    import svt
    outdir = svt.mkwork("eng-" + pid)
    violations = []     # (case, [viol])
    known_seen = {}
    # 1) regression / replay tier: committed replays for this property + module regression cases
    reg_cases = []
    if hasattr(mod, "regression_cases"):
        reg_cases += list(mod.regression_cases())
    rdir = os.path.join(REPLAYS, pid)
    if os.path.isdir(rdir):
        for f in sorted(os.listdir(rdir)):
            if f.endswith(".json"):
                try:
                    reg_cases.append(json.load(open(os.path.join(rdir, f)))["case"])
                except Exception:
                    pass
    reg_cases += known_replays(pid, tier, a.seed)
    reg_log = open(os.path.join(outdir, "shard_reg.jsonl"), "w")
    for case in reg_cases:
        try:
            res = run_tagged(mod, case, tier)
        except Exception as e:
            res = dict(violations=[], nontrivial=False, dkey="harness-error", classes=["harness_error"], sample=None,
                       inconclusive="harness exception %r" % (e,))
        viol = [v for v in res.get("violations", []) if not key_matches(known, v["key"])]
        kn = [v for v in res.get("violations", []) if key_matches(known, v["key"])]
        reg_log.write(json.dumps(dict(case=case, nontrivial=bool(res.get("nontrivial")), dkey=res.get("dkey"),
                                      classes=(res.get("classes", []) + ["regression"]), sample=res.get("sample"),
                                      inconclusive=res.get("inconclusive"), violations=viol, known=kn, t=0)) + "\n")
        if viol:
            cv = confirm(mod, tier, case, known)
            if cv:
                violations.append((case, cv))
    reg_log.close()
    # 2) generation
    procs = []
    nt_counter = multiprocessing.Value("i", 0)
    for s in range(budget["shards"]):
        p = multiprocessing.Process(target=_shard_main, args=(mod, tier, a.seed, s, outdir, budget, known, nt_counter))
        p.start()
        procs.append(p)
    for p in procs:
        p.join()
    # 3) aggregate
    evals = 0
    nontrivial = set()
    classes = {}
    samples = []
    inconcl = []
    build_failed = None
    engine_errors = []
    collected = {}
    for f in sorted(os.listdir(outdir)):
        if not f.endswith(".jsonl"):
            continue
        for ln in open(os.path.join(outdir, f)):
            try:
                r = json.loads(ln)
            except Exception:
                continue
            if "build_failed" in r:
                build_failed = r["build_failed"]
                continue
            if "engine_error" in r:
                engine_errors.append(r["engine_error"])
                continue
            evals += 1
            if r.get("shrink"):
                classes["shrink_phase_runs"] = classes.get("shrink_phase_runs", 0) + 1
                continue
            if r.get("inconclusive"):
                inconcl.append(r["inconclusive"][:300])
                classes["inconclusive"] = classes.get("inconclusive", 0) + 1
                continue
            if r.get("nontrivial") and r.get("dkey"):
                nontrivial.add(r["dkey"])
                if len(samples) < 8 and r.get("sample") is not None:
                    samples.append(r["sample"])
            for c in r.get("classes", []):
                classes[c] = classes.get(c, 0) + 1
            for v in r.get("known", []):
                known_seen.setdefault(v["key"], v)
            if budget.get("collect"):
                for v in r.get("violations", []):
                    ent = collected.setdefault(v["key"], dict(n=0, what=v.get("what"), case=r.get("case"), cases=[]))
                    ent["n"] += 1
                    if len(ent["cases"]) < 12:
                        ent["cases"].append(r.get("case"))
    if build_failed:
        print("BUILD-FAILED", build_failed)
        return 2
    for s in range(budget["shards"]):
        fp = os.path.join(outdir, "fail%d.json" % s)
        if os.path.exists(fp):
            fl = json.load(open(fp))
            cv = confirm(mod, tier, fl["case"], known)
            if cv:
                violations.append((fl["case"], cv))
            else:
                classes["unconfirmed_failure"] = classes.get("unconfirmed_failure", 0) + 1
    if not samples:
        # fall back to any sample
        for f in sorted(os.listdir(outdir)):
            if f.endswith(".jsonl"):
                for ln in open(os.path.join(outdir, f)):
                    try:
                        r = json.loads(ln)
                    except Exception:
                        continue
                    if r.get("sample") is not None and len(samples) < 4:
                        samples.append(r["sample"])
    coverage = dict(evaluations=evals, distinct_nontrivial=len(nontrivial), rule=mod.RULE, samples=samples,
                    classes=classes, inconclusive_cases=len(inconcl), inconclusive_examples=inconcl[:3],
                    known_findings_seen=sorted(known_seen.keys()), regression_cases=len(reg_cases),
                    shards=budget["shards"], budget_seconds=budget["seconds"], engine_errors=engine_errors[:3],
                    exhaustive=False)
    if hasattr(mod, "finalize"):
        try:
            coverage.update(mod.finalize(outdir, tier) or {})
        except Exception as e:
            coverage["finalize_error"] = repr(e)
    # de-duplicate violations by key
    seen = set()
    out_viol = []
    for case, cv in violations:
        k = cv[0]["key"]
        if k in seen:
            continue
        seen.add(k)
        out_viol.append((case, cv))
    wall = time.time() - t0
    write_evidence(pid, tier, a.seed, mod.LEVEL, coverage, wall, len(out_viol), getattr(mod, "ASSUMPTIONS", []))
    for k, v in sorted(known_seen.items()):
        print("KNOWN-FINDING: property=%s %s :: %s" % (pid, k, v.get("what", "")[:200]))
    import shutil
    shutil.rmtree(outdir, ignore_errors=True)
    print("%s tier=%s seed=%d evaluations=%d distinct_nontrivial=%d inconclusive=%d wall=%.0fs classes=%s" %
          (pid, tier, a.seed, evals, len(nontrivial), len(inconcl), wall, json.dumps(classes, sort_keys=True)[:1500]))
    if budget.get("collect"):
        for k, ent in sorted(collected.items()):
            print("COLLECTED %s n=%d :: %s\n   case=%s" % (k, ent["n"], (ent["what"] or "")[:300], json.dumps(ent["case"])))
        for x in inconcl[:40]:
            print("INCONCLUSIVE ::", x[:200])
        if os.environ.get("VERIF_COLLECT_OUT"):
            json.dump(collected, open(os.environ["VERIF_COLLECT_OUT"], "w"), indent=1)
        return 0
    if out_viol:
        for case, cv in out_viol:
            p = write_replay(pid, case, cv)
            print("  what: %s" % cv[0].get("what", "")[:500])
            print("VIOLATION property=%s replay=%s" % (pid, p))
        return 1
    minnt = budget.get("min_nontrivial", 2)
    if len(nontrivial) < minnt:
        print("INCONCLUSIVE: only %d distinct non-trivial cases (< %d); %s" % (len(nontrivial), minnt, inconcl[:2]))
        return 2
    return 0
