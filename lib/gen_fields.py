#!/usr/bin/env python3
"""Generate cfg_fields.inc (X-macro list of EbSvtAv1EncConfiguration fields) from the CURRENT header.
F(name)            scalar integer-like field
FA(name, n)        integer array field
Special-cased (not emitted): rc_twopass_stats_in (struct), pred_struct (struct array)
"""
import re, sys
src = open(sys.argv[1]).read()
# strip comments
src = re.sub(r'/\*.*?\*/', '', src, flags=re.S)
src = re.sub(r'//[^\n]*', '', src)
m = re.search(r'typedef struct EbSvtAv1EncConfiguration\s*\{(.*?)\}\s*EbSvtAv1EncConfiguration\s*;', src, re.S)
body = m.group(1)
body = re.sub(r'^\s*#.*$', '', body, flags=re.M)
out = []
for stmt in body.split(';'):
    stmt = ' '.join(stmt.split())
    if not stmt:
        continue
    mm = re.match(r'^([A-Za-z_][\w ]*?)\s+(.+)$', stmt)
    typ, rest = mm.group(1), mm.group(2)
    if typ in ('SvtAv1FixedBuf', 'PredictionStructureConfigEntry'):
        continue
    for decl in rest.split(','):
        decl = decl.strip()
        am = re.match(r'^(\w+)\s*\[(.+)\]$', decl)
        if am:
            out.append('FA(%s, %s)' % (am.group(1), am.group(2)))
        else:
            out.append('F(%s)' % decl)
open(sys.argv[2], 'w').write('\n'.join(out) + '\n')
