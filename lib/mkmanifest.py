#!/usr/bin/env python3
"""Regenerates /verif/MANIFEST.json from the table below (one place to keep it valid).
A property is claimed iff it appears in CLAIMED; everything else must be in NOT_APPLICABLE with a reason."""
import json, os, subprocess, sys

VERIF = os.path.dirname(os.path.dirname(os.path.abspath(__file__)))

H = "Hypothesis (python3-vt) sharded over 16 processes -> one short-lived worker process per case"
CLAIMED = {
 "C01": dict(tech="property-based testing (Hypothesis): round-trip oracle, encoder recon vs libaom AND dav1d decode",
             text="Generated (configuration, content, length) cases; every stream is decoded by two independent AV1 decoders and compared sample-for-sample with the encoder's recon by display index. Exploration: sampled configurations/sizes/presets, not all.",
             note="Trusts libaom 3.6.0 / dav1d 1.0.0 as conforming decoders (their mutual agreement is checked per stream); sizes sampled densely <=352 px, sparsely above.", ref="4 C01"),
 "C02": dict(tech="property-based testing (Hypothesis): validity predicate from an independent AV1 spec parser over every packet",
             text="Every packet of every generated stream is parsed by a parser written from the AV1 specification; TD/OBU framing, one displayed frame, sequence-header placement and identity, pic_type agreement are asserted.",
             note="Trusts lib/av1parse.py (cross-checked on libaom-produced streams and by its own tile-size consistency gate).", ref="4 C02"),
 "C03": dict(tech="property-based testing (Hypothesis): history ledger oracle over generated N / GOP shape / pts sequences",
             text="Generated histories (N around mini-GOP and intra-period multiples, int64 pts sequences, tokens); the ledger of packets/recons/decoded pictures must match the submissions exactly.",
             note="pts strictly increasing (caller precondition); application drains after every send.", ref="4 C03"),
 "C04": dict(tech="property-based testing (Hypothesis) with injected schedule perturbation (H1 hook) and CPU squeeze; metamorphic oracle (schedule is not an input)",
             text="Each case is encoded unperturbed and under 2-3 generated schedules (seeded yields/sleeps at every sync wrapper, affinity squeeze); outputs must be byte-identical and runs must terminate (deadlock signature).",
             note="Sampled schedules, not enumeration; a race needing a preemption inside a non-instrumented region can be missed.", ref="4 C04"),
 "C05": dict(tech="property-based testing (Hypothesis): differential oracle vs logical_processors=1 run",
             text="Same case encoded under generated (lp, unpin, socket) settings; packets + recon must equal the lp=1 run.",
             note="pic_based_rate_est=1 excluded (documented lp-1-only).", ref="4 C05"),
 "C06": dict(tech="property-based testing (Hypothesis): differential oracle vs C-only run across use_cpu_flags levels",
             text="Same case encoded at each cumulative ISA level (C, SSE2.., SSSE3.., SSE4.1.., AVX2.., all incl. AVX-512) in separate processes; outputs must equal the C-only run.",
             note="Host CPU has AVX-512 so all compiled kernels are reachable.", ref="4 C06"),
 "C11": dict(tech="property-based testing (Hypothesis) on an ASan+UBSan build; oracle = sanitizer reports, API return codes, error-packet flags, deadlock signature",
             text="Generated configurations weighted to risk axes (QP 0-8 noise, odd sizes, tiles, superres, grain, 10-bit, 2-pass) are encoded under ASan and a restricted UBSan set; any report outside the known-findings list is a violation.",
             note="UBSan classes limited as in DESIGN 3.9; large sizes only in the thorough tier.", ref="4 C11"),
 "C12": dict(tech="property-based testing (Hypothesis): oracle table built from the documentation only (header comments + user guide)",
             text="Boundary/one-past/extreme/random values per documented field and coupled pairs; documented-invalid must be rejected, documented-valid accepted; contested values counted, not asserted.",
             note="Documentation is the oracle; values on which the two documents disagree are not asserted.", ref="4 C12"),
 "C13": dict(tech="property-based testing (Hypothesis): metamorphic oracle (prior contents of caller memory are not an input)",
             text="Configuration memory pre-filled with generated patterns before init_handle; accepted and byte-identical output to the zero-filled reference required; returned structs diffed field by field.",
             note="Each pattern runs in its own process.", ref="4 C13"),
 "C14": dict(tech="stateful property-based testing (Hypothesis-generated API call programs executed by apidrv); oracle = alive + error codes + per-call deadlock signature",
             text="Generated call programs with NULL-argument variants of every public call spliced in, and reject->accept histories.",
             note="Non-NULL calls follow the documented step order.", ref="4 C14"),
 "C15": dict(tech="stateful property-based testing (Hypothesis-generated session histories with teardown points) on an ASan/LSan build",
             text="Teardown at every protocol point, encoder and decoder, 1-4 sessions per process; oracle: teardown returns, thread count restored, LSan recoverable leak check clean, no ASan error.",
             note="Leak freedom decided by LSan reachability, not heap size.", ref="4 C15"),
 "C18": dict(tech="property-based testing (Hypothesis): base_q_idx parsed from every frame header by the independent parser vs spec quantizer table bounds",
             text="Generated RC mode / min-max QP / fixed offsets / qp-file / content; every coded frame's base_q_idx must lie within the configured bounds and equal the fixed-QP prediction where the property fixes it.",
             note="CQP bound is Q[1]..Q[63] as the API documents min/max QP only for RC mode 1.", ref="4 C18"),
 "C19": dict(tech="property-based testing (Hypothesis): placement predicate from parsed headers + suffix-decode differential (libaom, dav1d)",
             text="Generated intra period / refresh type / hierarchy / length; intra frames must sit exactly at multiples of P+1; decoding from every shown key frame must reproduce the full decode.",
             note="Type-1 (CRA) cut points get placement only (AV1 decoders cannot start at intra-only frames).", ref="4 C19"),
 "C21": dict(tech="property-based testing (Hypothesis): metamorphic oracle over stride / padding bytes / scribble / free-after-send (ASan)",
             text="Same visible samples supplied with generated strides, padding contents, post-send scribbling and reallocation; output must equal the tightly-packed run.",
             note="10-bit inputs keep the unused high bits zero (documented format).", ref="4 C21"),
 "C22": dict(tech="exhaustive enumeration of the order-hint helpers against a reference model + property-based long-stream generation with the C01/C03 oracles",
             text="All (bits,a,b) triples for the five distance helpers (exhaustive) plus generated streams longer than the order-hint period / reorder queues, checked with the round-trip and ledger oracles.",
             note="Long streams use 64x64 preset 8.", ref="4 C22"),
 "C26": dict(tech="property-based testing (Hypothesis): reference-model oracle, SSE(input, libaom decode) mod 2^32 per plane",
             text="Generated 8-bit content/sizes/presets/tf levels with stat_report=1; packet SSE fields must equal the SSE recomputed from the submitted picture and the decoded picture.",
             note="Film grain and superres excluded (outside the quantifier).", ref="4 C26"),
 "C27": dict(tech="stateful property-based testing (Hypothesis-generated call-pacing scripts); metamorphic oracle across pacing patterns + deadlock signature",
             text="Generated send/poll/sleep scripts; the drain-after-every-send pattern must complete and all completing patterns must yield identical bytes.",
             note="speed_control_flag=1 excluded (documented as timing-adaptive).", ref="4 C27"),
 "C07": dict(tech="property-based testing (rapidcheck, in-process): differential oracle SIMD variant vs C reference over generated kernel arguments, table generated from the tree's RTCD files", engine="rapidcheck-harness",
             text="743 of 767 dispatch entries with a SIMD variant are bound to family drivers; per entry and ISA variant rapidcheck generates edge-biased arguments and compares outputs, return values and guard bands with the C reference under ASan.",
             note="Family descriptors (oracles/c07_families.json) encode the callers' domain; 24 entries undecided (listed in evidence).", ref="4 C07"),
 "C08": dict(tech="property-based testing (Hypothesis): differential oracle SVT decoder vs libaom AND dav1d on streams from two independent encoders (SVT, libaom via dlopen)",
             text="Generated encoder settings for both encoders produce streams; SVT decoder output (either pipeline bit depth, low-overhead or Annex-B framing) must equal both reference decoders picture for picture.",
             note="Streams on which the two references disagree/fail are inconclusive; tool usage measured from headers + H4 block counters.", ref="4 C08"),
 "C09": dict(tech="property-based testing (Hypothesis) with schedule stress (affinity squeeze, H1 perturbation): differential oracle vs single-thread decode, ASan/LSan, termination",
             text="Generated streams x thread counts 2..16 x stressors; pictures must equal the 1-thread decode, no sanitizer report, teardown returns.",
             note="Data-race clause not decided (spin-wait synchronisation is opaque to TSan); see assumptions in evidence.", ref="4 C09"),
 "C10": dict(tech="coverage-guided fuzzing (libFuzzer + ASan + UBSan) with a structure-aware target and an OBU-aware custom mutator", engine="libfuzzer",
             text="A structured family first (every seed stream with the last 1-4 bytes of one temporal unit missing, each unit in an exact-size heap buffer), then two campaigns (seeded corpus of 50 tiny valid streams, empty corpus) in fork mode; every artifact is re-run standalone and keyed by sanitizer kind + innermost library frame; known keys are listed findings.",
             note="The decoder marks corrupt syntax with assert(0)-and-continue in release builds: the listed known findings are the crash sites reachable through that design.", ref="4 C10"),
 "C23": dict(tech="stateful property-based testing (rapidcheck) of the real SRM under a harness-owned thread schedule + validation of H2 traces from real encodes against a reference model", engine="rapidcheck-harness",
             text="Generated SRM shapes, per-thread programs and schedules run on the real code with real pthreads serialised by a token; model checked after every step; real-encode traces validated with the same invariants.",
             note="Bounded shapes; programs follow caller discipline.", ref="4 C23"),
 "C24": dict(tech="exhaustive geometry enumeration + property-based protocol schedules (rapidcheck) on the real segment code + validation of H3 traces from real encodes", engine="rapidcheck-harness",
             text="All picture/segment grids in the bounded space through the real ctor/init/assign code, protocol simulated under generated worker schedules, plus real-encode traces; oracle from SB coordinates only.",
             note="Quick subsamples the segment-count dimension (exhaustive=false); thorough enumerates everything.", ref="4 C24"),
 "C25": dict(tech="property-based testing (rapidcheck, in-process): round-trip oracle writer -> reader on the real range coder, plus exhaustive short sequences", engine="rapidcheck-harness",
             text="Generated symbol/bool/literal sequences with valid CDFs (incl. extreme) are written with the encoder's coder and read back with the decoder's reader; values, adapted CDFs and the tell law are compared.",
             note="Reader gets 16 zero bytes of look-ahead after the announced size.", ref="4 C25"),
 "C16": dict(tech="fault injection by enumeration: fail exactly the k-th allocation / thread / mutex / semaphore creation (linker --wrap shims) in each API phase; oracle = error code, ASan, LSan, watchdog", engine="fault-injection", level="fault_enumeration",
             text="Clean run counts creations per phase; each trial fails one of them in a fresh process. Thorough enumerates every k (exhaustive), quick takes phase boundaries, a grid and a seeded sample.",
             note="Only creations on the API-calling thread are failed; smallest accepted configuration (plus variants in thorough).", ref="4 C16"),
 "C17": dict(tech="property-based testing (Hypothesis): differential oracle, each concurrent instance vs its solo run in a fresh process",
             text="Generated sets of 2-3 encoder/decoder instances with differing global-affecting settings and start offsets run in one process; each instance's output must equal its solo output; crash/hang detection.",
             note="Race freedom is observed only through outputs/ASan; instances nondeterministic on their own are not generated.", ref="4 C17"),
 "C20": dict(tech="property-based testing (Hypothesis): header predicates from the independent parser + block-level usage counters (hook H4), with an ON run of the same case for non-vacuity",
             text="Generated tool switches forced off (and on) x content chosen to attract the tool x tile requests; no frame or block may use a disabled tool, and the signalled tile layout must equal the request clamped by the spec limits.",
             note="Block-level usage is read from the instrumented SVT decoder parse (tied to the references by C08).", ref="4 C20"),
}

NOT_APPLICABLE = {
}

PENDING_REASON = "check not built yet in this round (planned in DESIGN.md section 4); not claimed rather than claimed with a vacuous check"


def main():
    props = [json.loads(l) for l in open(os.path.join(VERIF, "properties.jsonl"))]
    extra = {}
    ep = os.path.join(VERIF, "lib", "manifest_extra.json")
    if os.path.exists(ep):
        extra = json.load(open(ep))
    checks = []
    na = []
    for p in props:
        pid = p["id"]
        mod = os.path.join(VERIF, "props", pid.lower() + ".py")
        if pid in CLAIMED and os.path.exists(mod):
            c = CLAIMED[pid]
            checks.append(dict(
                property_id=pid,
                quick_cmd="./check %s --tier quick" % pid,
                thorough_cmd="./check %s --tier thorough" % pid,
                evidence_file="evidence/%s.json" % pid,
                replay_cmd_template="./check %s --replay {path}" % pid,
                engine=c.get("engine", "hypothesis-sharded"),
                level_claimed=dict(category=c.get("level", "exploration"), text=c["text"], design_ref="DESIGN.md section " + c["ref"]),
                level_note=c["note"],
                technique=c["tech"]))
        else:
            na.append(dict(property_id=pid, reason=NOT_APPLICABLE.get(pid, PENDING_REASON)))
    hooks = subprocess.run(["git", "-C", "/repo", "log", "--format=%h", "--grep=^verif hook"], stdout=subprocess.PIPE).stdout.decode().split()
    man = dict(
        version=1,
        setup_cmd="./setup.sh",
        hooks=dict(guard="SVT_AV1_VERIF",
                   enable="every variant under /verif/.build is configured by lib/build.py with -DSVT_AV1_VERIF=1 added to CMAKE_C_FLAGS/CMAKE_CXX_FLAGS (out-of-tree, nothing written to /repo)",
                   baseline_off_cmd="cmake --build /repo/_build --target SvtAv1Enc SvtAv1Dec SvtAv1EncApp SvtAv1DecApp SvtAv1ApiTests SvtAv1UnitTests; ctest --test-dir /repo/_build -j8 --timeout 900",
                   source_commits=hooks, add_only=True),
        engines=[dict(name="hypothesis-sharded", path="lib/engine.py", serves_properties=[c["property_id"] for c in checks if c["engine"] == "hypothesis-sharded"],
                      kind_free_text=H + "; failing case re-executed 3x outside the generator, shrunk, written to replays/<id>/"),
                 dict(name="rapidcheck-harness", path="workers/", serves_properties=[c["property_id"] for c in checks if c["engine"] == "rapidcheck-harness"],
                      kind_free_text="in-process rapidcheck / exhaustive harnesses linked against static archives of the real objects (ASan)"),
                 dict(name="fault-injection", path="workers/faultinj", serves_properties=[c["property_id"] for c in checks if c["engine"] == "fault-injection"],
                      kind_free_text="k-th creation failure through linker --wrap shims, one fresh process per trial"),
                 dict(name="libfuzzer", path="workers/fuzz", serves_properties=[c["property_id"] for c in checks if c["engine"] == "libfuzzer"],
                      kind_free_text="coverage-guided libFuzzer targets (ASan + restricted UBSan) with OBU-aware structure decode")],
        checks=checks,
        not_applicable=na,
        notes="See DESIGN.md. known_findings.json lists genuine defects recorded (status known) or repaired by 'fix:' commits in /repo (status fixed). "
              "VERIF_SEED / --seed perturbs every generator; VERIF_TIER or --tier selects the tier.")
    man["engines"] = [e for e in man["engines"] if e["serves_properties"]]
    json.dump(man, open(os.path.join(VERIF, "MANIFEST.json"), "w"), indent=1)
    try:
        import jsonschema
        jsonschema.validate(man, json.load(open("/root/.vp/MANIFEST.schema.json")))
        print("MANIFEST.json valid: %d checks, %d not_applicable" % (len(checks), len(na)))
    except ImportError:
        print("written (jsonschema not importable here)")


if __name__ == "__main__":
    main()
