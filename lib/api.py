"""Run an API-call script through apidrv."""
import json, os, subprocess, shutil
import svt


def run_script(lines, variant="rel", timeout=120, env=None, stream=None):
    wd = svt.mkwork("api")
    try:
        sp = os.path.join(wd, "s.txt")
        op = os.path.join(wd, "o.jsonl")
        open(sp, "w").write("\n".join(lines) + "\n")
        e = svt.san_env(variant, env)
        try:
            p = subprocess.run([svt.bins(variant)["apidrv"], sp, op], env=e, stdout=subprocess.PIPE, stderr=subprocess.PIPE, timeout=timeout)
            code, err = p.returncode, p.stderr.decode("latin1", "replace")
        except subprocess.TimeoutExpired as ex:
            code, err = -999, (ex.stderr or b"").decode("latin1", "replace")
        recs = []
        if os.path.exists(op):
            for ln in open(op):
                try:
                    recs.append(json.loads(ln))
                except Exception:
                    pass
        return dict(exit=code, recs=recs, san=svt.parse_sanitizer(err), stderr=err[-3000:])
    finally:
        shutil.rmtree(wd, ignore_errors=True)
