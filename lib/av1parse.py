"""AV1 OBU / sequence-header / frame-header parser, written from the AV1 bitstream specification (sections 5.3-5.12, 7.20/7.21)
— deliberately NOT from SVT-AV1 source — so that it is an independent oracle for the encoder's syntax.

Usage:  p = Parser();  tu = p.parse_tu(packet_bytes)  -> TU(obus=[OBU...])
Each OBU has .type, .header (dict for sequence/frame headers), .raw (whole OBU bytes), .payload.
Parser keeps the cross-frame state the spec requires (reference slots).
Self-checks (tile sizes must tile the tile-group payload exactly; trailing bits) raise ParseError; the callers
treat ParseError in a place where the *stream* is in doubt as a finding only after libaom/dav1d have also been consulted.
"""

OBU_SEQUENCE_HEADER = 1
OBU_TEMPORAL_DELIMITER = 2
OBU_FRAME_HEADER = 3
OBU_TILE_GROUP = 4
OBU_METADATA = 5
OBU_FRAME = 6
OBU_REDUNDANT_FRAME_HEADER = 7
OBU_TILE_LIST = 8
OBU_PADDING = 15
OBU_NAMES = {1: "SEQ", 2: "TD", 3: "FH", 4: "TG", 5: "META", 6: "FRAME", 7: "RFH", 8: "TL", 15: "PAD"}

KEY_FRAME, INTER_FRAME, INTRA_ONLY_FRAME, SWITCH_FRAME = 0, 1, 2, 3
SELECT = 2
NUM_REF_FRAMES = 8
REFS_PER_FRAME = 7
PRIMARY_REF_NONE = 7
IDENTITY, TRANSLATION, ROTZOOM, AFFINE = 0, 1, 2, 3
WARPEDMODEL_PREC_BITS = 16


class ParseError(Exception):
    pass


class Unsupported(Exception):
    pass


class BitReader:
    def __init__(self, data, pos=0, end=None):
        self.d = data
        self.pos = pos * 8
        self.end = (len(data) if end is None else end) * 8

    def f(self, n):
        if n == 0:
            return 0
        if self.pos + n > self.end:
            raise ParseError("read past end of OBU (bit %d + %d > %d)" % (self.pos, n, self.end))
        v = 0
        p = self.pos
        for _ in range(n):
            v = (v << 1) | ((self.d[p >> 3] >> (7 - (p & 7))) & 1)
            p += 1
        self.pos = p
        return v

    def su(self, n):
        v = self.f(n)
        sign = 1 << (n - 1)
        return v - 2 * sign if v & sign else v

    def ns(self, n):
        w = 0
        x = n
        while x:
            x >>= 1
            w += 1
        m = (1 << w) - n
        v = self.f(w - 1)
        if v < m:
            return v
        return (v << 1) - m + self.f(1)

    def le(self, nbytes):
        t = 0
        for i in range(nbytes):
            t += self.f(8) << (i * 8)
        return t

    def uvlc(self):
        lz = 0
        while True:
            if self.f(1):
                break
            lz += 1
            if lz > 64:
                raise ParseError("uvlc too long")
        if lz >= 32:
            return (1 << 32) - 1
        return self.f(lz) + (1 << lz) - 1

    def byte_align(self):
        while self.pos & 7:
            if self.f(1):
                raise ParseError("non-zero alignment bit")

    def bytepos(self):
        return self.pos >> 3


def leb128(data, pos):
    v = 0
    for i in range(8):
        if pos + i >= len(data):
            raise ParseError("leb128 runs past end")
        b = data[pos + i]
        v |= (b & 0x7F) << (i * 7)
        if not b & 0x80:
            return v, i + 1
    raise ParseError("leb128 longer than 8 bytes")


def tile_log2(blk, target):
    k = 0
    while (blk << k) < target:
        k += 1
    return k


class OBU:
    pass


class TU:
    def __init__(self):
        self.obus = []

    def types(self):
        return [o.type for o in self.obus]


def default_gm():
    return [[0, 0, 1 << WARPEDMODEL_PREC_BITS, 0, 0, 1 << WARPEDMODEL_PREC_BITS] for _ in range(8)]


class Parser:
    def __init__(self, annexb=False):
        self.seq = None
        self.seq_raw = None
        self.ref = [dict(valid=0, frame_type=0, order_hint=0, upscaled_width=0, frame_width=0, frame_height=0,
                         render_width=0, render_height=0, gm=default_gm(), seg=None, lf=None, fg=None,
                         showable=0, frame_id=0, order_hints=[0] * 8, hdr=None) for _ in range(8)]
        self.seen_frame_header = None
        self.tile_num = 0
        self.annexb = annexb

    # ---------------------------------------------------------------- OBU level
    def parse_tu(self, data, strict=True):
        tu = TU()
        pos = 0
        n = len(data)
        self.seen_frame_header = None
        while pos < n:
            o = OBU()
            start = pos
            b0 = data[pos]
            o.forbidden = b0 >> 7
            o.type = (b0 >> 3) & 15
            o.ext_flag = (b0 >> 2) & 1
            o.has_size = (b0 >> 1) & 1
            o.reserved = b0 & 1
            pos += 1
            o.temporal_id = o.spatial_id = 0
            o.ext_reserved = 0
            if o.ext_flag:
                if pos >= n:
                    raise ParseError("OBU extension byte missing")
                e = data[pos]
                o.temporal_id, o.spatial_id, o.ext_reserved = e >> 5, (e >> 3) & 3, e & 7
                pos += 1
            if o.has_size:
                o.size, l = leb128(data, pos)
                o.size_len = l
                pos += l
            else:
                o.size = n - pos  # allowed only for the last OBU
                o.size_len = 0
            if pos + o.size > n:
                raise ParseError("obu_size %d of OBU type %d at offset %d exceeds the packet (%d bytes left)" % (o.size, o.type, start, n - pos))
            o.payload = data[pos:pos + o.size]
            o.raw = data[start:pos + o.size]
            o.offset = start
            o.header = None
            if o.forbidden:
                raise ParseError("forbidden bit set at offset %d" % start)
            self._parse_obu(o)
            tu.obus.append(o)
            pos += o.size
        return tu

    def _parse_obu(self, o):
        t = o.type
        if t == OBU_SEQUENCE_HEADER:
            o.header = self.parse_sequence_header(o.payload)
            self.seq = o.header
            self.seq_raw = bytes(o.payload)
        elif t == OBU_TEMPORAL_DELIMITER:
            self.seen_frame_header = None
        elif t in (OBU_FRAME_HEADER, OBU_REDUNDANT_FRAME_HEADER, OBU_FRAME):
            if self.seq is None:
                raise ParseError("frame header before any sequence header")
            br = BitReader(o.payload)
            if self.seen_frame_header is not None:
                # frame_header_copy
                o.header = self.seen_frame_header
                o.is_copy = True
                return
            fh = self.parse_uncompressed_header(br, o)
            o.header = fh
            self.seen_frame_header = fh
            if fh["show_existing_frame"]:
                self._trailing(br, o)
                self.seen_frame_header = None
                self._finish_frame(fh)
            else:
                self.tile_num = 0
                if t == OBU_FRAME:
                    br.byte_align()
                    fh["header_bytes"] = br.bytepos()
                    self.parse_tile_group(br, o, fh)
                else:
                    self._trailing(br, o)
        elif t == OBU_TILE_GROUP:
            fh = self.seen_frame_header
            if fh is None:
                raise ParseError("tile group without frame header")
            br = BitReader(o.payload)
            self.parse_tile_group(br, o, fh)
        elif t in (OBU_METADATA, OBU_PADDING, OBU_TILE_LIST):
            pass
        else:
            o.reserved_type = True

    def _trailing(self, br, o):
        # trailing_bits: one 1 then zeros to the end of the OBU
        if br.pos >= br.end:
            raise ParseError("missing trailing bits in OBU type %d" % o.type)
        if br.f(1) != 1:
            raise ParseError("trailing_one_bit is 0 in OBU type %d" % o.type)
        while br.pos < br.end:
            if br.f(1):
                raise ParseError("non-zero trailing bit in OBU type %d" % o.type)

    # ---------------------------------------------------------------- sequence header
    def parse_sequence_header(self, payload):
        br = BitReader(payload)
        s = {}
        s["seq_profile"] = br.f(3)
        s["still_picture"] = br.f(1)
        s["reduced_still_picture_header"] = br.f(1)
        s["timing_info_present_flag"] = 0
        s["decoder_model_info_present_flag"] = 0
        s["equal_picture_interval"] = 0
        s["initial_display_delay_present_flag"] = 0
        s["ops"] = []
        if s["reduced_still_picture_header"]:
            s["ops"].append(dict(idc=0, seq_level_idx=br.f(5), seq_tier=0, decoder_model_present=0))
        else:
            s["timing_info_present_flag"] = br.f(1)
            if s["timing_info_present_flag"]:
                s["num_units_in_display_tick"] = br.f(32)
                s["time_scale"] = br.f(32)
                s["equal_picture_interval"] = br.f(1)
                if s["equal_picture_interval"]:
                    s["num_ticks_per_picture_minus_1"] = br.uvlc()
                s["decoder_model_info_present_flag"] = br.f(1)
                if s["decoder_model_info_present_flag"]:
                    s["buffer_delay_length_minus_1"] = br.f(5)
                    s["num_units_in_decoding_tick"] = br.f(32)
                    s["buffer_removal_time_length_minus_1"] = br.f(5)
                    s["frame_presentation_time_length_minus_1"] = br.f(5)
            s["initial_display_delay_present_flag"] = br.f(1)
            cnt = br.f(5) + 1
            for i in range(cnt):
                op = dict(idc=br.f(12), seq_level_idx=br.f(5), seq_tier=0, decoder_model_present=0)
                if op["seq_level_idx"] > 7:
                    op["seq_tier"] = br.f(1)
                if s["decoder_model_info_present_flag"]:
                    op["decoder_model_present"] = br.f(1)
                    if op["decoder_model_present"]:
                        n = s["buffer_delay_length_minus_1"] + 1
                        op["decoder_buffer_delay"] = br.f(n)
                        op["encoder_buffer_delay"] = br.f(n)
                        op["low_delay_mode_flag"] = br.f(1)
                if s["initial_display_delay_present_flag"]:
                    if br.f(1):
                        op["initial_display_delay_minus_1"] = br.f(4)
                s["ops"].append(op)
        s["frame_width_bits_minus_1"] = br.f(4)
        s["frame_height_bits_minus_1"] = br.f(4)
        s["max_frame_width_minus_1"] = br.f(s["frame_width_bits_minus_1"] + 1)
        s["max_frame_height_minus_1"] = br.f(s["frame_height_bits_minus_1"] + 1)
        s["frame_id_numbers_present_flag"] = 0
        if not s["reduced_still_picture_header"]:
            s["frame_id_numbers_present_flag"] = br.f(1)
        if s["frame_id_numbers_present_flag"]:
            s["delta_frame_id_length_minus_2"] = br.f(4)
            s["additional_frame_id_length_minus_1"] = br.f(3)
        s["use_128x128_superblock"] = br.f(1)
        s["enable_filter_intra"] = br.f(1)
        s["enable_intra_edge_filter"] = br.f(1)
        for k in ("enable_interintra_compound", "enable_masked_compound", "enable_warped_motion", "enable_dual_filter",
                  "enable_order_hint", "enable_jnt_comp", "enable_ref_frame_mvs"):
            s[k] = 0
        s["seq_force_screen_content_tools"] = SELECT
        s["seq_force_integer_mv"] = SELECT
        s["OrderHintBits"] = 0
        if not s["reduced_still_picture_header"]:
            s["enable_interintra_compound"] = br.f(1)
            s["enable_masked_compound"] = br.f(1)
            s["enable_warped_motion"] = br.f(1)
            s["enable_dual_filter"] = br.f(1)
            s["enable_order_hint"] = br.f(1)
            if s["enable_order_hint"]:
                s["enable_jnt_comp"] = br.f(1)
                s["enable_ref_frame_mvs"] = br.f(1)
            if br.f(1):  # seq_choose_screen_content_tools
                s["seq_force_screen_content_tools"] = SELECT
            else:
                s["seq_force_screen_content_tools"] = br.f(1)
            if s["seq_force_screen_content_tools"] > 0:
                if br.f(1):  # seq_choose_integer_mv
                    s["seq_force_integer_mv"] = SELECT
                else:
                    s["seq_force_integer_mv"] = br.f(1)
            else:
                s["seq_force_integer_mv"] = SELECT
            if s["enable_order_hint"]:
                s["OrderHintBits"] = br.f(3) + 1
        s["enable_superres"] = br.f(1)
        s["enable_cdef"] = br.f(1)
        s["enable_restoration"] = br.f(1)
        # color_config
        hb = br.f(1)
        bd = 8
        if s["seq_profile"] == 2 and hb:
            bd = 12 if br.f(1) else 10
        elif s["seq_profile"] <= 2:
            bd = 10 if hb else 8
        s["BitDepth"] = bd
        s["mono_chrome"] = 0 if s["seq_profile"] == 1 else br.f(1)
        s["NumPlanes"] = 1 if s["mono_chrome"] else 3
        s["color_description_present_flag"] = br.f(1)
        cp, tc, mc = 2, 2, 2
        if s["color_description_present_flag"]:
            cp, tc, mc = br.f(8), br.f(8), br.f(8)
        s["color_primaries"], s["transfer_characteristics"], s["matrix_coefficients"] = cp, tc, mc
        s["separate_uv_delta_q"] = 0
        if s["mono_chrome"]:
            s["color_range"] = br.f(1)
            s["subsampling_x"] = s["subsampling_y"] = 1
            s["chroma_sample_position"] = 0
        elif cp == 1 and tc == 13 and mc == 0:
            s["color_range"] = 1
            s["subsampling_x"] = s["subsampling_y"] = 0
            s["separate_uv_delta_q"] = br.f(1)
        else:
            s["color_range"] = br.f(1)
            if s["seq_profile"] == 0:
                s["subsampling_x"] = s["subsampling_y"] = 1
            elif s["seq_profile"] == 1:
                s["subsampling_x"] = s["subsampling_y"] = 0
            else:
                if bd == 12:
                    s["subsampling_x"] = br.f(1)
                    s["subsampling_y"] = br.f(1) if s["subsampling_x"] else 0
                else:
                    s["subsampling_x"], s["subsampling_y"] = 1, 0
            s["chroma_sample_position"] = br.f(2) if (s["subsampling_x"] and s["subsampling_y"]) else 0
            s["separate_uv_delta_q"] = br.f(1)
        s["film_grain_params_present"] = br.f(1)
        # trailing bits
        if br.f(1) != 1:
            raise ParseError("sequence header: trailing_one_bit missing")
        while br.pos < br.end:
            if br.f(1):
                raise ParseError("sequence header: non-zero trailing bits")
        return s

    # ---------------------------------------------------------------- frame header
    def get_relative_dist(self, a, b):
        s = self.seq
        if not s["enable_order_hint"]:
            return 0
        diff = a - b
        m = 1 << (s["OrderHintBits"] - 1)
        diff = (diff & (m - 1)) - (diff & m)
        return diff

    def parse_uncompressed_header(self, br, o):
        s = self.seq
        h = {}
        idLen = 0
        if s["frame_id_numbers_present_flag"]:
            idLen = s["additional_frame_id_length_minus_1"] + s["delta_frame_id_length_minus_2"] + 3
        allFrames = (1 << NUM_REF_FRAMES) - 1
        h["show_existing_frame"] = 0
        if s["reduced_still_picture_header"]:
            h.update(frame_type=KEY_FRAME, FrameIsIntra=1, show_frame=1, showable_frame=0, error_resilient_mode=1)
        else:
            h["show_existing_frame"] = br.f(1)
            if h["show_existing_frame"]:
                h["frame_to_show_map_idx"] = br.f(3)
                if s["decoder_model_info_present_flag"] and not s["equal_picture_interval"]:
                    br.f(s["frame_presentation_time_length_minus_1"] + 1)
                h["refresh_frame_flags"] = 0
                if s["frame_id_numbers_present_flag"]:
                    h["display_frame_id"] = br.f(idLen)
                r = self.ref[h["frame_to_show_map_idx"]]
                if not r["valid"]:
                    raise ParseError("show_existing_frame refers to an empty slot %d" % h["frame_to_show_map_idx"])
                h["frame_type"] = r["frame_type"]
                h["shown_hdr"] = r["hdr"]
                if not r["showable"]:
                    raise ParseError("show_existing_frame of a frame that is not showable (slot %d)" % h["frame_to_show_map_idx"])
                if h["frame_type"] == KEY_FRAME:
                    h["refresh_frame_flags"] = allFrames
                h["show_frame"] = 1
                h["order_hint"] = r["order_hint"]
                return h
            h["frame_type"] = br.f(2)
            h["FrameIsIntra"] = 1 if h["frame_type"] in (INTRA_ONLY_FRAME, KEY_FRAME) else 0
            h["show_frame"] = br.f(1)
            if h["show_frame"] and s["decoder_model_info_present_flag"] and not s["equal_picture_interval"]:
                br.f(s["frame_presentation_time_length_minus_1"] + 1)
            if h["show_frame"]:
                h["showable_frame"] = 1 if h["frame_type"] != KEY_FRAME else 0
            else:
                h["showable_frame"] = br.f(1)
            if h["frame_type"] == SWITCH_FRAME or (h["frame_type"] == KEY_FRAME and h["show_frame"]):
                h["error_resilient_mode"] = 1
            else:
                h["error_resilient_mode"] = br.f(1)
        if h["frame_type"] == KEY_FRAME and h["show_frame"]:
            for r in self.ref:
                r["valid"] = 0
                r["order_hint"] = 0
        h["disable_cdf_update"] = br.f(1)
        if s["seq_force_screen_content_tools"] == SELECT:
            h["allow_screen_content_tools"] = br.f(1)
        else:
            h["allow_screen_content_tools"] = s["seq_force_screen_content_tools"]
        if h["allow_screen_content_tools"]:
            if s["seq_force_integer_mv"] == SELECT:
                h["force_integer_mv"] = br.f(1)
            else:
                h["force_integer_mv"] = s["seq_force_integer_mv"]
        else:
            h["force_integer_mv"] = 0
        if h["FrameIsIntra"]:
            h["force_integer_mv"] = 1
        if s["frame_id_numbers_present_flag"]:
            h["current_frame_id"] = br.f(idLen)
        if h["frame_type"] == SWITCH_FRAME:
            h["frame_size_override_flag"] = 1
        elif s["reduced_still_picture_header"]:
            h["frame_size_override_flag"] = 0
        else:
            h["frame_size_override_flag"] = br.f(1)
        h["order_hint"] = br.f(s["OrderHintBits"])
        if h["FrameIsIntra"] or h["error_resilient_mode"]:
            h["primary_ref_frame"] = PRIMARY_REF_NONE
        else:
            h["primary_ref_frame"] = br.f(3)
        if s["decoder_model_info_present_flag"]:
            if br.f(1):  # buffer_removal_time_present_flag
                for op in s["ops"]:
                    if op["decoder_model_present"]:
                        idc = op["idc"]
                        inT = (idc >> o.temporal_id) & 1
                        inS = (idc >> (o.spatial_id + 8)) & 1
                        if idc == 0 or (inT and inS):
                            br.f(s["buffer_removal_time_length_minus_1"] + 1)
        h["allow_high_precision_mv"] = 0
        h["use_ref_frame_mvs"] = 0
        h["allow_intrabc"] = 0
        if h["frame_type"] == SWITCH_FRAME or (h["frame_type"] == KEY_FRAME and h["show_frame"]):
            h["refresh_frame_flags"] = allFrames
        else:
            h["refresh_frame_flags"] = br.f(8)
        if not h["FrameIsIntra"] or h["refresh_frame_flags"] != allFrames:
            if h["error_resilient_mode"] and s["enable_order_hint"]:
                for i in range(NUM_REF_FRAMES):
                    roh = br.f(s["OrderHintBits"])
                    if roh != self.ref[i]["order_hint"] or not self.ref[i]["valid"]:
                        self.ref[i]["valid"] = 0   # spec: set up an invalid ref frame; we only track the hint
                        self.ref[i]["order_hint"] = roh
        if h["FrameIsIntra"]:
            self.frame_size(br, h)
            self.render_size(br, h)
            if h["allow_screen_content_tools"] and h["UpscaledWidth"] == h["FrameWidth"]:
                h["allow_intrabc"] = br.f(1)
            h["ref_frame_idx"] = None
        else:
            if not s["enable_order_hint"]:
                frss = 0
            else:
                frss = br.f(1)
            h["frame_refs_short_signaling"] = frss
            if frss:
                raise Unsupported("frame_refs_short_signaling")
            h["ref_frame_idx"] = []
            for i in range(REFS_PER_FRAME):
                h["ref_frame_idx"].append(br.f(3))
                if s["frame_id_numbers_present_flag"]:
                    br.f(s["delta_frame_id_length_minus_2"] + 2)
            for i, idx in enumerate(h["ref_frame_idx"]):
                if not self.ref[idx]["valid"]:
                    h.setdefault("invalid_refs", []).append((i, idx))
            if h["frame_size_override_flag"] and not h["error_resilient_mode"]:
                self.frame_size_with_refs(br, h)
            else:
                self.frame_size(br, h)
                self.render_size(br, h)
            if h["force_integer_mv"]:
                h["allow_high_precision_mv"] = 0
            else:
                h["allow_high_precision_mv"] = br.f(1)
            if br.f(1):
                h["interpolation_filter"] = 4  # SWITCHABLE
            else:
                h["interpolation_filter"] = br.f(2)
            h["is_motion_mode_switchable"] = br.f(1)
            if h["error_resilient_mode"] or not s["enable_ref_frame_mvs"]:
                h["use_ref_frame_mvs"] = 0
            else:
                h["use_ref_frame_mvs"] = br.f(1)
            h["OrderHints"] = [self.ref[idx]["order_hint"] for idx in h["ref_frame_idx"]]
        if s["reduced_still_picture_header"] or h["disable_cdf_update"]:
            h["disable_frame_end_update_cdf"] = 1
        else:
            h["disable_frame_end_update_cdf"] = br.f(1)
        # previous-frame state
        if h["primary_ref_frame"] == PRIMARY_REF_NONE:
            prev_gm = default_gm()
            prev_seg = None
            prev_lf = None
        else:
            pr = self.ref[h["ref_frame_idx"][h["primary_ref_frame"]]]
            prev_gm = pr["gm"]
            prev_seg = pr["seg"]
            prev_lf = pr["lf"]
        self.tile_info(br, h)
        self.quantization_params(br, h)
        self.segmentation_params(br, h, prev_seg)
        # delta q / lf
        h["delta_q_res"] = 0
        h["delta_q_present"] = 0
        if h["base_q_idx"] > 0:
            h["delta_q_present"] = br.f(1)
        if h["delta_q_present"]:
            h["delta_q_res"] = br.f(2)
        h["delta_lf_present"] = 0
        h["delta_lf_res"] = 0
        h["delta_lf_multi"] = 0
        if h["delta_q_present"]:
            if not h["allow_intrabc"]:
                h["delta_lf_present"] = br.f(1)
            if h["delta_lf_present"]:
                h["delta_lf_res"] = br.f(2)
                h["delta_lf_multi"] = br.f(1)
        # lossless
        coded_lossless = 1
        for seg_id in range(8):
            q = self.get_qidx(h, seg_id)
            ll = (q == 0 and h["DeltaQYDc"] == 0 and h["DeltaQUAc"] == 0 and h["DeltaQUDc"] == 0 and
                  h["DeltaQVAc"] == 0 and h["DeltaQVDc"] == 0)
            if not ll:
                coded_lossless = 0
        h["CodedLossless"] = coded_lossless
        h["AllLossless"] = 1 if (coded_lossless and h["FrameWidth"] == h["UpscaledWidth"]) else 0
        self.loop_filter_params(br, h, prev_lf)
        self.cdef_params(br, h)
        self.lr_params(br, h)
        if coded_lossless:
            h["TxMode"] = 0
        else:
            h["TxMode"] = 2 if br.f(1) else 1  # TX_MODE_SELECT / TX_MODE_LARGEST
        h["reference_select"] = 0 if h["FrameIsIntra"] else br.f(1)
        self.skip_mode_params(br, h)
        if h["FrameIsIntra"] or h["error_resilient_mode"] or not s["enable_warped_motion"]:
            h["allow_warped_motion"] = 0
        else:
            h["allow_warped_motion"] = br.f(1)
        h["reduced_tx_set"] = br.f(1)
        self.global_motion_params(br, h, prev_gm)
        self.film_grain_params(br, h)
        return h

    def superres_params(self, br, h):
        s = self.seq
        h["use_superres"] = br.f(1) if s["enable_superres"] else 0
        if h["use_superres"]:
            h["SuperresDenom"] = br.f(3) + 9
        else:
            h["SuperresDenom"] = 8
        h["UpscaledWidth"] = h["FrameWidth"]
        h["FrameWidth"] = (h["UpscaledWidth"] * 8 + (h["SuperresDenom"] // 2)) // h["SuperresDenom"]

    def compute_image_size(self, h):
        h["MiCols"] = 2 * ((h["FrameWidth"] + 7) >> 3)
        h["MiRows"] = 2 * ((h["FrameHeight"] + 7) >> 3)

    def frame_size(self, br, h):
        s = self.seq
        if h["frame_size_override_flag"]:
            h["FrameWidth"] = br.f(s["frame_width_bits_minus_1"] + 1) + 1
            h["FrameHeight"] = br.f(s["frame_height_bits_minus_1"] + 1) + 1
        else:
            h["FrameWidth"] = s["max_frame_width_minus_1"] + 1
            h["FrameHeight"] = s["max_frame_height_minus_1"] + 1
        self.superres_params(br, h)
        self.compute_image_size(h)

    def render_size(self, br, h):
        if br.f(1):
            h["RenderWidth"] = br.f(16) + 1
            h["RenderHeight"] = br.f(16) + 1
        else:
            h["RenderWidth"] = h["UpscaledWidth"]
            h["RenderHeight"] = h["FrameHeight"]

    def frame_size_with_refs(self, br, h):
        found = 0
        for i in range(REFS_PER_FRAME):
            found = br.f(1)
            if found:
                r = self.ref[h["ref_frame_idx"][i]]
                h["UpscaledWidth"] = r["upscaled_width"]
                h["FrameWidth"] = h["UpscaledWidth"]
                h["FrameHeight"] = r["frame_height"]
                h["RenderWidth"] = r["render_width"]
                h["RenderHeight"] = r["render_height"]
                break
        if not found:
            self.frame_size(br, h)
            self.render_size(br, h)
        else:
            self.superres_params(br, h)
            self.compute_image_size(h)

    def tile_info(self, br, h):
        s = self.seq
        use128 = s["use_128x128_superblock"]
        sbCols = (h["MiCols"] + 31) >> 5 if use128 else (h["MiCols"] + 15) >> 4
        sbRows = (h["MiRows"] + 31) >> 5 if use128 else (h["MiRows"] + 15) >> 4
        sbShift = 5 if use128 else 4
        sbSize = sbShift + 2
        maxTileWidthSb = 4096 >> sbSize
        maxTileAreaSb = (4096 * 2304) >> (2 * sbSize)
        minLog2TileCols = tile_log2(maxTileWidthSb, sbCols)
        maxLog2TileCols = tile_log2(1, min(sbCols, 64))
        maxLog2TileRows = tile_log2(1, min(sbRows, 64))
        minLog2Tiles = max(minLog2TileCols, tile_log2(maxTileAreaSb, sbRows * sbCols))
        h.update(sbCols=sbCols, sbRows=sbRows, minLog2TileCols=minLog2TileCols, maxLog2TileCols=maxLog2TileCols,
                 maxLog2TileRows=maxLog2TileRows)
        h["uniform_tile_spacing_flag"] = br.f(1)
        if h["uniform_tile_spacing_flag"]:
            tcl = minLog2TileCols
            while tcl < maxLog2TileCols:
                if br.f(1):
                    tcl += 1
                else:
                    break
            tileWidthSb = (sbCols + (1 << tcl) - 1) >> tcl
            cols = 0
            startSb = 0
            while startSb < sbCols:
                startSb += tileWidthSb
                cols += 1
            minLog2TileRows = max(minLog2Tiles - tcl, 0)
            trl = minLog2TileRows
            while trl < maxLog2TileRows:
                if br.f(1):
                    trl += 1
                else:
                    break
            tileHeightSb = (sbRows + (1 << trl) - 1) >> trl
            rows = 0
            startSb = 0
            while startSb < sbRows:
                startSb += tileHeightSb
                rows += 1
            h.update(TileColsLog2=tcl, TileRowsLog2=trl, TileCols=cols, TileRows=rows, minLog2TileRows=minLog2TileRows)
        else:
            widest = 0
            startSb = 0
            cols = 0
            while startSb < sbCols:
                maxW = min(sbCols - startSb, maxTileWidthSb)
                sz = br.ns(maxW) + 1
                widest = max(widest, sz)
                startSb += sz
                cols += 1
            tcl = tile_log2(1, cols)
            if minLog2Tiles > 0:
                maxTileAreaSb = (sbRows * sbCols) >> (minLog2Tiles + 1)
            else:
                maxTileAreaSb = sbRows * sbCols
            maxTileHeightSb = max(maxTileAreaSb // widest, 1)
            startSb = 0
            rows = 0
            while startSb < sbRows:
                maxH = min(sbRows - startSb, maxTileHeightSb)
                sz = br.ns(maxH) + 1
                startSb += sz
                rows += 1
            trl = tile_log2(1, rows)
            h.update(TileColsLog2=tcl, TileRowsLog2=trl, TileCols=cols, TileRows=rows, minLog2TileRows=0)
        if h["TileColsLog2"] > 0 or h["TileRowsLog2"] > 0:
            h["context_update_tile_id"] = br.f(h["TileRowsLog2"] + h["TileColsLog2"])
            h["TileSizeBytes"] = br.f(2) + 1
        else:
            h["context_update_tile_id"] = 0
            h["TileSizeBytes"] = 4

    def read_delta_q(self, br):
        if br.f(1):
            return br.su(7)
        return 0

    def quantization_params(self, br, h):
        s = self.seq
        h["base_q_idx"] = br.f(8)
        h["DeltaQYDc"] = self.read_delta_q(br)
        if s["NumPlanes"] > 1:
            diff = br.f(1) if s["separate_uv_delta_q"] else 0
            h["DeltaQUDc"] = self.read_delta_q(br)
            h["DeltaQUAc"] = self.read_delta_q(br)
            if diff:
                h["DeltaQVDc"] = self.read_delta_q(br)
                h["DeltaQVAc"] = self.read_delta_q(br)
            else:
                h["DeltaQVDc"] = h["DeltaQUDc"]
                h["DeltaQVAc"] = h["DeltaQUAc"]
        else:
            h["DeltaQUDc"] = h["DeltaQUAc"] = h["DeltaQVDc"] = h["DeltaQVAc"] = 0
        h["using_qmatrix"] = br.f(1)
        if h["using_qmatrix"]:
            h["qm_y"] = br.f(4)
            h["qm_u"] = br.f(4)
            h["qm_v"] = h["qm_u"] if not s["separate_uv_delta_q"] else br.f(4)

    SEG_BITS = [8, 6, 6, 6, 6, 3, 0, 0]
    SEG_SIGNED = [1, 1, 1, 1, 1, 0, 0, 0]
    SEG_MAX = [255, 63, 63, 63, 63, 7, 0, 0]

    def segmentation_params(self, br, h, prev_seg):
        h["segmentation_enabled"] = br.f(1)
        fe = [[0] * 8 for _ in range(8)]
        fd = [[0] * 8 for _ in range(8)]
        if h["segmentation_enabled"]:
            if h["primary_ref_frame"] == PRIMARY_REF_NONE:
                um, tu_, ud = 1, 0, 1
            else:
                um = br.f(1)
                tu_ = br.f(1) if um else 0
                ud = br.f(1)
            h["segmentation_update_map"], h["segmentation_temporal_update"], h["segmentation_update_data"] = um, tu_, ud
            if ud:
                for i in range(8):
                    for j in range(8):
                        en = br.f(1)
                        fe[i][j] = en
                        v = 0
                        if en:
                            bits = self.SEG_BITS[j]
                            lim = self.SEG_MAX[j]
                            if self.SEG_SIGNED[j]:
                                v = max(-lim, min(lim, br.su(1 + bits)))
                            else:
                                v = max(0, min(lim, br.f(bits)))
                        fd[i][j] = v
            elif prev_seg is not None:
                fe, fd = prev_seg
        h["FeatureEnabled"], h["FeatureData"] = fe, fd

    def get_qidx(self, h, seg_id):
        if h["segmentation_enabled"] and h["FeatureEnabled"][seg_id][0]:
            q = h["base_q_idx"] + h["FeatureData"][seg_id][0]
            return max(0, min(255, q))
        return h["base_q_idx"]

    def loop_filter_params(self, br, h, prev_lf):
        s = self.seq
        ref_deltas = [1, 0, 0, 0, -1, 0, -1, -1]
        mode_deltas = [0, 0]
        if prev_lf is not None:
            ref_deltas, mode_deltas = list(prev_lf[0]), list(prev_lf[1])
        h["loop_filter_level"] = [0, 0, 0, 0]
        if h["CodedLossless"] or h["allow_intrabc"]:
            h["loop_filter_ref_deltas"], h["loop_filter_mode_deltas"] = [1, 0, 0, 0, -1, 0, -1, -1], [0, 0]
            h["lf_skipped"] = 1
            return
        l0, l1 = br.f(6), br.f(6)
        h["loop_filter_level"][0], h["loop_filter_level"][1] = l0, l1
        if s["NumPlanes"] > 1 and (l0 or l1):
            h["loop_filter_level"][2] = br.f(6)
            h["loop_filter_level"][3] = br.f(6)
        h["loop_filter_sharpness"] = br.f(3)
        h["loop_filter_delta_enabled"] = br.f(1)
        if h["loop_filter_delta_enabled"]:
            if br.f(1):
                for i in range(8):
                    if br.f(1):
                        ref_deltas[i] = br.su(7)
                for i in range(2):
                    if br.f(1):
                        mode_deltas[i] = br.su(7)
        h["loop_filter_ref_deltas"], h["loop_filter_mode_deltas"] = ref_deltas, mode_deltas

    def cdef_params(self, br, h):
        s = self.seq
        h["cdef_bits"] = 0
        h["cdef_y_strengths"] = [(0, 0)]
        h["cdef_uv_strengths"] = [(0, 0)]
        h["cdef_coded"] = 0
        if h["CodedLossless"] or h["allow_intrabc"] or not s["enable_cdef"]:
            return
        h["cdef_coded"] = 1
        h["cdef_damping"] = br.f(2) + 3
        h["cdef_bits"] = br.f(2)
        ys, uvs = [], []
        for i in range(1 << h["cdef_bits"]):
            ys.append((br.f(4), br.f(2)))
            if s["NumPlanes"] > 1:
                uvs.append((br.f(4), br.f(2)))
        h["cdef_y_strengths"], h["cdef_uv_strengths"] = ys, uvs

    def lr_params(self, br, h):
        s = self.seq
        h["FrameRestorationType"] = [0, 0, 0]
        h["UsesLr"] = 0
        if h["AllLossless"] or h["allow_intrabc"] or not s["enable_restoration"]:
            return
        remap = [0, 3, 1, 2]  # NONE, SWITCHABLE, WIENER, SGRPROJ (values only need to be non-zero when used)
        usesLr = usesChromaLr = 0
        for i in range(s["NumPlanes"]):
            t = br.f(2)
            h["FrameRestorationType"][i] = remap[t]
            if t != 0:
                usesLr = 1
                if i > 0:
                    usesChromaLr = 1
        h["UsesLr"] = usesLr
        if usesLr:
            if s["use_128x128_superblock"]:
                sh = br.f(1) + 1
            else:
                sh = br.f(1)
                if sh:
                    sh += br.f(1)
            h["lr_unit_shift"] = sh
            if s["subsampling_x"] and s["subsampling_y"] and usesChromaLr:
                h["lr_uv_shift"] = br.f(1)

    def skip_mode_params(self, br, h):
        s = self.seq
        allowed = 0
        if not (h["FrameIsIntra"] or not h["reference_select"] or not s["enable_order_hint"]):
            fwd = bwd = -1
            fh = bh = 0
            for i in range(REFS_PER_FRAME):
                rh = self.ref[h["ref_frame_idx"][i]]["order_hint"]
                if self.get_relative_dist(rh, h["order_hint"]) < 0:
                    if fwd < 0 or self.get_relative_dist(rh, fh) > 0:
                        fwd, fh = i, rh
                elif self.get_relative_dist(rh, h["order_hint"]) > 0:
                    if bwd < 0 or self.get_relative_dist(rh, bh) < 0:
                        bwd, bh = i, rh
            if fwd < 0:
                allowed = 0
            elif bwd >= 0:
                allowed = 1
            else:
                sf = -1
                sh_ = 0
                for i in range(REFS_PER_FRAME):
                    rh = self.ref[h["ref_frame_idx"][i]]["order_hint"]
                    if self.get_relative_dist(rh, fh) < 0:
                        if sf < 0 or self.get_relative_dist(rh, sh_) > 0:
                            sf, sh_ = i, rh
                allowed = 1 if sf >= 0 else 0
        h["skipModeAllowed"] = allowed
        h["skip_mode_present"] = br.f(1) if allowed else 0

    # global motion
    def decode_subexp(self, br, numSyms):
        i = 0
        mk = 0
        k = 3
        while True:
            b2 = (k + i - 1) if i else k
            a = 1 << b2
            if numSyms <= mk + 3 * a:
                return br.ns(numSyms - mk) + mk
            if br.f(1):
                i += 1
                mk += a
            else:
                return br.f(b2) + mk

    @staticmethod
    def inverse_recenter(r, v):
        if v > 2 * r:
            return v
        if v & 1:
            return r - ((v + 1) >> 1)
        return r + (v >> 1)

    def decode_unsigned_subexp_with_ref(self, br, mx, r):
        v = self.decode_subexp(br, mx)
        if (r << 1) <= mx:
            return self.inverse_recenter(r, v)
        return mx - 1 - self.inverse_recenter(mx - 1 - r, v)

    def decode_signed_subexp_with_ref(self, br, low, high, r):
        return self.decode_unsigned_subexp_with_ref(br, high - low, r - low) + low

    def read_global_param(self, br, h, gm, prev, typ, ref, idx):
        absBits, precBits = 12, 15
        if idx < 2:
            if typ == TRANSLATION:
                absBits = 9 - (0 if h["allow_high_precision_mv"] else 1)
                precBits = 3 - (0 if h["allow_high_precision_mv"] else 1)
            else:
                absBits, precBits = 12, 6
        precDiff = WARPEDMODEL_PREC_BITS - precBits
        rnd = (1 << WARPEDMODEL_PREC_BITS) if (idx % 3) == 2 else 0
        sub = (1 << precBits) if (idx % 3) == 2 else 0
        mx = 1 << absBits
        r = (prev[ref][idx] >> precDiff) - sub
        gm[ref][idx] = (self.decode_signed_subexp_with_ref(br, -mx, mx + 1, r) << precDiff) + rnd

    def global_motion_params(self, br, h, prev_gm):
        gm = default_gm()
        types = [IDENTITY] * 8
        h["gm_type"] = types
        h["gm_params"] = gm
        if h["FrameIsIntra"]:
            return
        if h["error_resilient_mode"] or h["primary_ref_frame"] == PRIMARY_REF_NONE:
            prev_gm = default_gm()
        for ref in range(1, 8):
            if br.f(1):
                if br.f(1):
                    t = ROTZOOM
                else:
                    t = TRANSLATION if br.f(1) else AFFINE
            else:
                t = IDENTITY
            types[ref] = t
            if t >= ROTZOOM:
                self.read_global_param(br, h, gm, prev_gm, t, ref, 2)
                self.read_global_param(br, h, gm, prev_gm, t, ref, 3)
                if t == AFFINE:
                    self.read_global_param(br, h, gm, prev_gm, t, ref, 4)
                    self.read_global_param(br, h, gm, prev_gm, t, ref, 5)
                else:
                    gm[ref][4] = -gm[ref][3]
                    gm[ref][5] = gm[ref][2]
            if t >= TRANSLATION:
                self.read_global_param(br, h, gm, prev_gm, t, ref, 0)
                self.read_global_param(br, h, gm, prev_gm, t, ref, 1)

    def film_grain_params(self, br, h):
        s = self.seq
        h["apply_grain"] = 0
        h["film_grain"] = None
        if not s["film_grain_params_present"] or (not h["show_frame"] and not h["showable_frame"]):
            return
        h["apply_grain"] = br.f(1)
        if not h["apply_grain"]:
            return
        fg = {}
        fg["grain_seed"] = br.f(16)
        update = br.f(1) if h["frame_type"] == INTER_FRAME else 1
        fg["update_grain"] = update
        if not update:
            idx = br.f(3)
            fg["film_grain_params_ref_idx"] = idx
            if h["ref_frame_idx"] is None or idx not in h["ref_frame_idx"]:
                raise ParseError("film_grain_params_ref_idx %d is not one of ref_frame_idx" % idx)
            rfg = self.ref[idx]["fg"]
            if rfg:
                seed = fg["grain_seed"]
                fg = dict(rfg)
                fg["grain_seed"] = seed
                fg["update_grain"] = 0
            h["film_grain"] = fg
            return
        ny = br.f(4)
        if ny > 14:
            raise ParseError("num_y_points %d > 14" % ny)
        fg["y_points"] = [(br.f(8), br.f(8)) for _ in range(ny)]
        if s["mono_chrome"]:
            csl = 0
        else:
            csl = br.f(1)
        fg["chroma_scaling_from_luma"] = csl
        if s["mono_chrome"] or csl or (s["subsampling_x"] == 1 and s["subsampling_y"] == 1 and ny == 0):
            ncb = ncr = 0
            fg["cb_points"], fg["cr_points"] = [], []
        else:
            ncb = br.f(4)
            if ncb > 10:
                raise ParseError("num_cb_points %d > 10" % ncb)
            fg["cb_points"] = [(br.f(8), br.f(8)) for _ in range(ncb)]
            ncr = br.f(4)
            if ncr > 10:
                raise ParseError("num_cr_points %d > 10" % ncr)
            fg["cr_points"] = [(br.f(8), br.f(8)) for _ in range(ncr)]
        fg["grain_scaling_minus_8"] = br.f(2)
        lag = br.f(2)
        fg["ar_coeff_lag"] = lag
        numPosLuma = 2 * lag * (lag + 1)
        if ny:
            numPosChroma = numPosLuma + 1
            fg["ar_y"] = [br.f(8) for _ in range(numPosLuma)]
        else:
            numPosChroma = numPosLuma
        if csl or ncb:
            fg["ar_cb"] = [br.f(8) for _ in range(numPosChroma)]
        if csl or ncr:
            fg["ar_cr"] = [br.f(8) for _ in range(numPosChroma)]
        fg["ar_coeff_shift_minus_6"] = br.f(2)
        fg["grain_scale_shift"] = br.f(2)
        if ncb:
            fg["cb_mult"], fg["cb_luma_mult"], fg["cb_offset"] = br.f(8), br.f(8), br.f(9)
        if ncr:
            fg["cr_mult"], fg["cr_luma_mult"], fg["cr_offset"] = br.f(8), br.f(8), br.f(9)
        fg["overlap_flag"] = br.f(1)
        fg["clip_to_restricted_range"] = br.f(1)
        h["film_grain"] = fg

    # ---------------------------------------------------------------- tile group
    def parse_tile_group(self, br, o, h):
        numTiles = h["TileCols"] * h["TileRows"]
        start_pos = br.bytepos()
        flag = 0
        if numTiles > 1:
            flag = br.f(1)
        if not flag:
            tg_start, tg_end = 0, numTiles - 1
        else:
            bits = h["TileColsLog2"] + h["TileRowsLog2"]
            tg_start, tg_end = br.f(bits), br.f(bits)
        br.byte_align()
        if tg_start != self.tile_num:
            raise ParseError("tg_start %d != expected tile %d" % (tg_start, self.tile_num))
        if tg_end < tg_start or tg_end >= numTiles:
            raise ParseError("bad tg_end %d" % tg_end)
        sz = (br.end >> 3) - br.bytepos()
        sizes = []
        for t in range(tg_start, tg_end + 1):
            last = t == tg_end
            if last:
                tile_size = sz
            else:
                if sz < h["TileSizeBytes"]:
                    raise ParseError("tile %d: no room for tile_size_minus_1" % t)
                tile_size = br.le(h["TileSizeBytes"]) + 1
                sz -= tile_size + h["TileSizeBytes"]
                if sz < 0:
                    raise ParseError("tile %d size %d exceeds the tile group payload" % (t, tile_size))
                br.pos += tile_size * 8
            if tile_size <= 0:
                raise ParseError("tile %d has size %d" % (t, tile_size))
            sizes.append(tile_size)
        h.setdefault("tile_sizes", []).extend(sizes)
        self.tile_num = tg_end + 1
        o.tg = (tg_start, tg_end)
        if tg_end == numTiles - 1:
            self.seen_frame_header = None
            self._finish_frame(h)

    # ---------------------------------------------------------------- reference update (7.20 / 7.21)
    def _finish_frame(self, h):
        if h["show_existing_frame"]:
            if h["frame_type"] == KEY_FRAME:
                src = self.ref[h["frame_to_show_map_idx"]]
                # frame loading process + refresh of all slots
                saved = dict(src)
                for i in range(8):
                    self.ref[i] = dict(saved)
                    self.ref[i]["order_hints"] = list(saved["order_hints"])
                    # a shown key frame is never showable again through this slot
                    self.ref[i]["showable"] = 0
            return
        for i in range(8):
            if (h["refresh_frame_flags"] >> i) & 1:
                self.ref[i] = dict(valid=1, frame_type=h["frame_type"], order_hint=h["order_hint"],
                                   upscaled_width=h["UpscaledWidth"], frame_width=h["FrameWidth"],
                                   frame_height=h["FrameHeight"], render_width=h["RenderWidth"],
                                   render_height=h["RenderHeight"], gm=h["gm_params"],
                                   seg=(h["FeatureEnabled"], h["FeatureData"]),
                                   lf=(h["loop_filter_ref_deltas"], h["loop_filter_mode_deltas"]),
                                   fg=h["film_grain"], showable=h["showable_frame"], frame_id=h.get("current_frame_id", 0),
                                   order_hints=list(h.get("OrderHints") or [0] * 7), hdr=h)


# ------------------------------------------------------------------------------------------------
# Spec tables
DC_QLOOKUP_NOTE = "quantizer_to_qindex below is the AV1 'quantizer_to_qindex' mapping used by the reference encoders"
QUANTIZER_TO_QINDEX = [
    0, 4, 8, 12, 16, 20, 24, 28, 32, 36, 40, 44, 48, 52, 56, 60, 64, 68, 72, 76, 80, 84, 88, 92, 96, 100, 104, 108, 112, 116, 120, 124, 128, 132, 136, 140, 144, 148, 152, 156, 160, 164, 168, 172, 176, 180, 184, 188, 192, 196, 200, 204, 208, 212, 216, 220, 224, 228, 232, 236, 240, 244, 249, 255]


def frames_in_tu(tu):
    """list of frame headers (dict) carried by the TU in order (frame / frame-header OBUs, copies skipped)"""
    out = []
    for o in tu.obus:
        if o.type in (OBU_FRAME, OBU_FRAME_HEADER) and o.header is not None and not getattr(o, "is_copy", False):
            out.append(o.header)
    return out


def to_annexb(tus):
    """Re-frame a list of low-overhead temporal units (bytes) as Annex-B: returns list of bytes (one per TU)."""
    def leb(v):
        out = bytearray()
        while True:
            b = v & 0x7F
            v >>= 7
            if v:
                out.append(b | 0x80)
            else:
                out.append(b)
                return bytes(out)
    res = []
    for data in tus:
        p = Parser()
        # framing only: do not need header state
        pos = 0
        obus = []
        n = len(data)
        while pos < n:
            b0 = data[pos]
            ext = (b0 >> 2) & 1
            has = (b0 >> 1) & 1
            hl = 1 + ext
            if has:
                sz, l = leb128(data, pos + hl)
            else:
                sz, l = n - pos - hl, 0
            hdr = bytes([b0 & ~2]) + (data[pos + 1:pos + 2] if ext else b"")
            payload = data[pos + hl + l:pos + hl + l + sz]
            obus.append(hdr + payload)
            pos += hl + l + sz
        # one frame unit per TU is legal only if it holds one frame; SVT packets can hold several frames:
        # split frame units at each frame / frame-header OBU boundary.
        units = []
        cur = []
        for ob in obus:
            t = (ob[0] >> 3) & 15
            cur.append(ob)
            if t in (OBU_FRAME,):
                units.append(cur)
                cur = []
        if cur:
            # trailing OBUs (e.g. show-existing frame header, tile groups) form their own frame unit
            units.append(cur)
        fu_bytes = b""
        for u in units:
            body = b"".join(leb(len(ob)) + ob for ob in u)
            fu_bytes += leb(len(body)) + body
        res.append(leb(len(fu_bytes)) + fu_bytes)
    return res
