"""Runner for properties decided by in-process harnesses (rapidcheck / exhaustive / libFuzzer executables linked against the
real objects).  Shares the evidence writer, replay files and the known-finding protocol with engine.py.

A module provides:
  ID, LEVEL, RULE, ASSUMPTIONS
  prepare(tier) -> ctx                     build harnesses from /repo's current tree (raises build.BuildFailed)
  jobs(ctx, tier, seed) -> [job]           job = dict(name, cmd=[...], env={}, timeout=s, fail=<path or None>, ...)
  interpret(ctx, job, res) -> dict(evaluations=int, nontrivial=int | keys=[...], samples=[...], classes={}, extra={},
                                   violations=[dict(key, what, payload=<json-able replay payload>)], inconclusive=str|None)
      res = dict(exit, out, err, wall, fail=<content of fail file or None>)
  replay(ctx, payload, tier) -> [dict(key, what)]    re-execute one saved case through the same oracle, no generator
  optional: regression_payloads() -> list of payloads replayed first on every run
  optional: MIN_NONTRIVIAL
"""
import argparse, hashlib, json, os, subprocess, sys, time, concurrent.futures as cf

sys.path.insert(0, os.path.dirname(os.path.abspath(__file__)))
import build, engine


def run_job(job):
    env = dict(os.environ)
    env.update(job.get("env") or {})
    t0 = time.time()
    try:
        p = subprocess.run(job["cmd"], env=env, stdout=subprocess.PIPE, stderr=subprocess.PIPE, timeout=job.get("timeout", 600),
                           cwd=job.get("cwd"))
        code, out, err = p.returncode, p.stdout.decode("latin1", "replace"), p.stderr.decode("latin1", "replace")
    except subprocess.TimeoutExpired as ex:
        code, out, err = -999, (ex.stdout or b"").decode("latin1", "replace"), (ex.stderr or b"").decode("latin1", "replace")
    fail = None
    if job.get("fail") and os.path.exists(job["fail"]):
        try:
            fail = open(job["fail"]).read()
        except Exception:
            fail = None
    return dict(exit=code, out=out, err=err[-30000:], wall=time.time() - t0, fail=fail)


def last_json(text):
    for ln in reversed(text.strip().splitlines()):
        ln = ln.strip()
        if ln.startswith("{") and ln.endswith("}"):
            try:
                return json.loads(ln)
            except Exception:
                continue
    return None


def rc_env(seed, n, size=100, extra=None):
    e = {"RC_PARAMS": "seed=%d max_success=%d max_size=%d" % (seed, n, size)}
    if extra:
        e.update(extra)
    return e


def main(mod, argv=None):
    ap = argparse.ArgumentParser()
    ap.add_argument("--tier", default=os.environ.get("VERIF_TIER", "quick"))
    ap.add_argument("--replay", default=None)
    ap.add_argument("--seed", type=int, default=int(os.environ.get("VERIF_SEED", "1") or 1))
    ap.add_argument("--jobs", type=int, default=16)
    a = ap.parse_args(argv)
    tier = a.tier if a.tier in ("quick", "thorough") else "quick"
    pid = mod.ID
    t0 = time.time()
    known = engine.load_known(pid)
    try:
        ctx = mod.prepare(tier)
    except build.BuildFailed as e:
        print("BUILD-FAILED", e)
        return 2

    def split(vs):
        return [v for v in vs if not engine.key_matches(known, v["key"])], [v for v in vs if engine.key_matches(known, v["key"])]

    if a.replay:
        rp = json.load(open(a.replay))
        vs = mod.replay(ctx, rp["case"], tier)
        bad, kn = split(vs)
        for v in kn:
            print("KNOWN-FINDING: property=%s %s" % (pid, v["key"]))
        print(json.dumps(dict(violations=vs), default=str)[:3000])
        if bad:
            print("VIOLATION property=%s replay=%s" % (pid, a.replay))
            return 1
        return 0

    violations, known_seen = [], {}
    # 1) regression tier: committed replays + module regression payloads
    reg = list(mod.regression_payloads()) if hasattr(mod, "regression_payloads") else []
    rdir = os.path.join(engine.REPLAYS, pid)
    if os.path.isdir(rdir):
        for f in sorted(os.listdir(rdir)):
            if f.endswith(".json"):
                try:
                    reg.append(json.load(open(os.path.join(rdir, f)))["case"])
                except Exception:
                    pass
    reg += engine.known_replays(pid, tier, a.seed)
    nreg = 0
    for payload in reg:
        try:
            vs = mod.replay(ctx, payload, tier)
        except Exception as e:
            vs = []
        nreg += 1
        bad, kn = split(vs)
        for v in kn:
            known_seen.setdefault(v["key"], v)
        if bad:
            violations.append((payload, bad))
    # 2) generation / enumeration
    jobs = mod.jobs(ctx, tier, a.seed)
    evals, nontriv, samples, classes, extra, inconcl = 0, 0, [], {}, {}, []
    keys = set()
    with cf.ThreadPoolExecutor(max_workers=a.jobs) as ex:
        results = list(ex.map(run_job, jobs))
    for job, res in zip(jobs, results):
        try:
            r = mod.interpret(ctx, job, res)
        except Exception as e:
            import traceback
            r = dict(evaluations=0, nontrivial=0, inconclusive="interpret failed for %s: %r %s | out=%s | err=%s" %
                     (job.get("name"), e, traceback.format_exc()[-400:], res["out"][-300:], res["err"][-600:]))
        evals += int(r.get("evaluations", 0))
        if "keys" in r:
            keys.update(r["keys"])
        else:
            nontriv += int(r.get("nontrivial", 0))
        for s in r.get("samples", []):
            if len(samples) < 10:
                samples.append(s)
        for k, v in (r.get("classes") or {}).items():
            classes[k] = classes.get(k, 0) + v
        for k, v in (r.get("extra") or {}).items():
            if isinstance(v, (int, float)) and not isinstance(v, bool) and isinstance(extra.get(k, 0), (int, float)):
                extra[k] = extra.get(k, 0) + v
            else:
                extra[k] = v
        if r.get("inconclusive"):
            inconcl.append(r["inconclusive"][:600])
        bad, kn = split(r.get("violations", []))
        for v in kn:
            known_seen.setdefault(v["key"], v)
        if bad:
            # confirm outside the generator (3x) when a payload is available
            payload = bad[0].get("payload")
            if payload is not None:
                need = getattr(mod, "CONFIRM_NEED", 3)
                cnt = 0
                last = bad
                for _ in range(3):
                    try:
                        vs = [v for v in mod.replay(ctx, payload, tier) if not engine.key_matches(known, v["key"])]
                    except Exception:
                        vs = []
                    if vs:
                        cnt += 1
                        last = vs
                if cnt >= need:
                    violations.append((payload, last))
                else:
                    classes["unconfirmed_failure"] = classes.get("unconfirmed_failure", 0) + 1
            else:
                violations.append((dict(job=job.get("name"), note="no replay payload (sanitizer abort?)", stderr=res["err"][-2000:]), bad))
    dn = len(keys) if keys else nontriv
    coverage = dict(evaluations=evals, distinct_nontrivial=dn, rule=mod.RULE, samples=samples, classes=classes,
                    inconclusive_cases=len(inconcl), inconclusive_examples=inconcl[:3], known_findings_seen=sorted(known_seen),
                    regression_cases=nreg, jobs=len(jobs), exhaustive=bool(getattr(mod, "EXHAUSTIVE", False)))
    coverage.update(extra)
    seen, out_viol = set(), []
    for payload, vs in violations:
        if vs[0]["key"] in seen:
            continue
        seen.add(vs[0]["key"])
        out_viol.append((payload, vs))
    wall = time.time() - t0
    engine.write_evidence(pid, tier, a.seed, mod.LEVEL, coverage, wall, len(out_viol), getattr(mod, "ASSUMPTIONS", []))
    for k, v in sorted(known_seen.items()):
        print("KNOWN-FINDING: property=%s %s :: %s" % (pid, k, v.get("what", "")[:200]))
    print("%s tier=%s seed=%d evaluations=%d distinct_nontrivial=%d inconclusive=%d wall=%.0fs classes=%s" %
          (pid, tier, a.seed, evals, dn, len(inconcl), wall, json.dumps(classes, sort_keys=True)[:1500]))
    if out_viol:
        for payload, vs in out_viol:
            p = engine.write_replay(pid, payload, [dict(key=v["key"], what=v.get("what", "")) for v in vs])
            print("  what: %s" % vs[0].get("what", "")[:500])
            print("VIOLATION property=%s replay=%s" % (pid, p))
        return 1
    if inconcl and evals == 0:
        print("INCONCLUSIVE:", inconcl[:2])
        return 2
    if dn < getattr(mod, "MIN_NONTRIVIAL", 2):
        print("INCONCLUSIVE: only %d non-trivial cases; %s" % (dn, inconcl[:2]))
        return 2
    return 0
