"""Parse a whole packet list with the independent AV1 parser and summarise it."""
import av1parse as ap


class StreamInfo:
    def __init__(self):
        self.tus = []          # per packet: dict(obus=[OBU], frames=[hdr], displayed=hdr|None, n_displayed=int)
        self.error = None      # (packet index, message) for ParseError
        self.unsupported = None
        self.seq = None
        self.seq_raws = []     # raw bytes of every sequence header OBU (whole OBU)
        self.frames = []       # all coded frame headers (no show-existing) in decode order, each with 'pkt' index


def analyze(packets, annexb=False):
    si = StreamInfo()
    p = ap.Parser()
    for k, data in enumerate(packets):
        try:
            tu = p.parse_tu(data)
        except ap.ParseError as e:
            si.error = (k, str(e))
            break
        except ap.Unsupported as e:
            si.unsupported = (k, str(e))
            break
        frames = ap.frames_in_tu(tu)
        ndisp = 0
        disp = None
        for h in frames:
            if h["show_existing_frame"] or h["show_frame"]:
                ndisp += 1
                disp = h
            if not h["show_existing_frame"]:
                h["pkt"] = k
                si.frames.append(h)
        for o in tu.obus:
            if o.type == ap.OBU_SEQUENCE_HEADER:
                si.seq_raws.append((k, bytes(o.raw)))
        si.tus.append(dict(obus=tu.obus, frames=frames, displayed=disp, n_displayed=ndisp))
    si.seq = p.seq
    return si


def displayed_type(h):
    """frame_type of the picture a TU displays (for show-existing: the type of the shown frame)"""
    if h is None:
        return None
    return h["frame_type"]
