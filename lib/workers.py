#!/usr/bin/env python3
"""Compile the C workers against a given library variant (always against the current /repo headers)."""
import os, subprocess, sys
sys.path.insert(0, os.path.dirname(os.path.abspath(__file__)))
import build

W = os.path.join(build.VERIF, "workers")
API = os.path.join(build.REPO, "Source", "API")


def _newer(target, deps):
    if not os.path.exists(target):
        return True
    t = os.path.getmtime(target)
    return any(os.path.getmtime(d) > t for d in deps if os.path.exists(d))


def _run(cmd, log):
    r = subprocess.run(cmd, stdout=log, stderr=subprocess.STDOUT)
    if r.returncode != 0:
        raise build.BuildFailed("worker build failed: " + " ".join(cmd))


def ensure(variant):
    """returns dict of worker binary paths for this variant"""
    info = build.ensure(variant)
    v = build.VARIANTS[variant]
    wdir = os.path.join(build.BUILD_ROOT, variant, "workers")
    os.makedirs(wdir, exist_ok=True)
    log = open(os.path.join(wdir, "build.log"), "a")
    inc = os.path.join(wdir, "cfg_fields.inc")
    hdr = os.path.join(API, "EbSvtAv1Enc.h")
    if _newer(inc, [hdr, os.path.join(build.VERIF, "lib", "gen_fields.py")]):
        _run([sys.executable, os.path.join(build.VERIF, "lib", "gen_fields.py"), hdr, inc], log)
    out = {}
    san = []
    for f in v["cflags"].split():
        if f.startswith("-fsanitize") or f.startswith("-fno-sanitize") or f == "-fno-omit-frame-pointer":
            if "fuzzer" in f:
                continue
            san.append(f)
    libs = [os.path.join(info["bin"], "libSvtAv1Enc.so"), os.path.join(info["bin"], "libSvtAv1Dec.so")]
    common = [v["cc"], "-O1", "-g", "-D%s=1" % build.GUARD, "-I" + API, "-I" + W, "-I" + wdir] + san
    link = ["-L" + info["bin"], "-Wl,-rpath," + info["bin"], "-lpthread", "-lm"]
    if v["shared"]:
        tgt = os.path.join(wdir, "svtdrv")
        deps = [os.path.join(W, x) for x in ("svtdrv.c", "content.h", "svtdec_inc.h")] + [inc] + libs + \
               [os.path.join(API, x) for x in os.listdir(API)]
        if _newer(tgt, deps):
            _run(common + [os.path.join(W, "svtdrv.c"), "-o", tgt, "-lSvtAv1Enc", "-lSvtAv1Dec"] + link, log)
        out["svtdrv"] = tgt
        tgt = os.path.join(wdir, "svtdec")
        if _newer(tgt, [os.path.join(W, "svtdec.c"), os.path.join(W, "svtdec_inc.h")] + libs):
            _run(common + [os.path.join(W, "svtdec.c"), "-o", tgt, "-lSvtAv1Dec"] + link, log)
        out["svtdec"] = tgt
        for name in ("apidrv",):
            src = os.path.join(W, name + ".c")
            if os.path.exists(src):
                tgt = os.path.join(wdir, name)
                if _newer(tgt, [src, inc] + libs):
                    _run(common + [src, "-o", tgt, "-lSvtAv1Enc", "-lSvtAv1Dec"] + link, log)
                out[name] = tgt
    return out


def ensure_ref():
    """reference-decoder / reference-encoder workers: independent of the repo"""
    wdir = os.path.join(build.BUILD_ROOT, "ref")
    os.makedirs(wdir, exist_ok=True)
    log = open(os.path.join(wdir, "build.log"), "a")
    out = {}
    for name in ("refdec", "aomenc_gen"):
        src = os.path.join(W, name + ".c")
        if not os.path.exists(src):
            continue
        tgt = os.path.join(wdir, name)
        if _newer(tgt, [src]):
            _run(["gcc", "-O2", "-g", src, "-o", tgt, "-ldl", "-lm"], log)
        out[name] = tgt
    return out


if __name__ == "__main__":
    try:
        print(ensure_ref())
        for name in sys.argv[1:] or ["rel"]:
            print(name, ensure(name))
    except build.BuildFailed as e:
        print("BUILD-FAILED", e)
        sys.exit(2)
