"""Build in-process harnesses that link the real library objects (static archives with internal symbols)."""
import os, subprocess, sys
sys.path.insert(0, os.path.dirname(os.path.abspath(__file__)))
import build as _b

W = os.path.join(_b.VERIF, "workers")


def inc_flags():
    S = os.path.join(_b.REPO, "Source")
    dirs = ["API", "Lib/Common/Codec", "Lib/Common/C_DEFAULT", "Lib/Common/ASM_SSE2", "Lib/Common/ASM_SSSE3", "Lib/Common/ASM_SSE4_1",
            "Lib/Common/ASM_AVX2", "Lib/Common/ASM_AVX512", "Lib/Encoder/Codec", "Lib/Encoder/C_DEFAULT", "Lib/Encoder/Globals",
            "Lib/Encoder/ASM_SSE2", "Lib/Encoder/ASM_SSSE3", "Lib/Encoder/ASM_SSE4_1", "Lib/Encoder/ASM_AVX2", "Lib/Encoder/ASM_AVX512",
            "Lib/Decoder/Codec"]
    out = ["-I" + os.path.join(S, d) for d in dirs]
    tp = os.path.join(_b.REPO, "third_party")
    for d in ("fastfeat", "cpuinfo/include"):
        if os.path.isdir(os.path.join(tp, d)):
            out.append("-I" + os.path.join(tp, d))
    return out


def build_harness(name, variant, sources, libs=("Enc",), cxx=False, extra=(), defines=()):
    info = _b.ensure(variant)
    v = _b.VARIANTS[variant]
    hdir = os.path.join(_b.BUILD_ROOT, variant, "harness")
    os.makedirs(hdir, exist_ok=True)
    exe = os.path.join(hdir, name)
    srcs = [s if os.path.isabs(s) else os.path.join(W, s) for s in sources]
    archives = [os.path.join(info["bin"], "libSvtAv1%s.a" % l) for l in libs]
    deps = srcs + archives
    if os.path.exists(exe) and all(os.path.getmtime(d) <= os.path.getmtime(exe) for d in deps if os.path.exists(d)) and \
            not any(os.path.getmtime(os.path.join(W, f)) > os.path.getmtime(exe) for f in os.listdir(W) if f.endswith(".h")):
        return exe
    san = [f for f in v["cflags"].split() if f.startswith("-fsanitize") and "fuzzer" not in f] + \
          (["-fno-omit-frame-pointer"] if "-fno-omit-frame-pointer" in v["cflags"] else [])
    base = ["-O1", "-g", "-D%s=1" % _b.GUARD, "-UNDEBUG", "-mavx2", "-msse4.1"] + list(defines) + san + inc_flags() + ["-I" + W]
    log = open(os.path.join(hdir, name + ".log"), "w")
    objs = []
    for s_ in srcs:
        is_c = s_.endswith(".c")
        comp = [v["cc"]] if is_c else [v["cxx"], "-std=gnu++17"]
        o = os.path.join(hdir, name + "-" + os.path.basename(s_) + ".o")
        r = subprocess.run(comp + base + ["-c", s_, "-o", o], stdout=log, stderr=subprocess.STDOUT)
        if r.returncode != 0:
            raise _b.BuildFailed("harness %s: %s failed to compile (see %s)" % (name, os.path.basename(s_), os.path.join(hdir, name + ".log")))
        objs.append(o)
    cmd = [v["cxx"] if cxx else v["cc"]] + san + objs + ["-Wl,--start-group"] + archives + ["-Wl,--end-group"] + list(extra) + ["-lpthread", "-lm", "-o", exe]
    r = subprocess.run(cmd, stdout=log, stderr=subprocess.STDOUT)
    if r.returncode != 0:
        raise _b.BuildFailed("harness %s failed to link (see %s)" % (name, os.path.join(hdir, name + ".log")))
    return exe


build_ = build_harness


def build(name, variant, sources, **kw):  # noqa: shadowing is intentional for callers: harness.build(...)
    return build_harness(name, variant, sources, **kw)


def build_fuzz(name, sources, variant="fz", libs=("Dec",)):
    """libFuzzer target linked against the static, fuzzer-instrumented archives of `variant`."""
    info = _b.ensure(variant)
    v = _b.VARIANTS[variant]
    hdir = os.path.join(_b.BUILD_ROOT, variant, "harness")
    os.makedirs(hdir, exist_ok=True)
    exe = os.path.join(hdir, name)
    srcs = [s if os.path.isabs(s) else os.path.join(W, s) for s in sources]
    archives = [os.path.join(info["bin"], "libSvtAv1%s.a" % l) for l in libs]
    if os.path.exists(exe) and all(os.path.getmtime(d) <= os.path.getmtime(exe) for d in srcs + archives if os.path.exists(d)):
        return exe
    san = ["-fsanitize=fuzzer,address", "-fsanitize=" + _b.UBSAN, "-fno-sanitize-recover=all", "-fno-omit-frame-pointer"]
    cmd = [v["cxx"], "-std=gnu++17", "-O1", "-g", "-D%s=1" % _b.GUARD] + san + ["-I" + os.path.join(_b.REPO, "Source", "API"), "-I" + W] + srcs + \
          ["-Wl,--start-group"] + archives + ["-Wl,--end-group", "-lpthread", "-lm", "-o", exe]
    log = open(os.path.join(hdir, name + ".log"), "w")
    r = subprocess.run(cmd, stdout=log, stderr=subprocess.STDOUT)
    if r.returncode != 0:
        raise _b.BuildFailed("fuzz target %s failed to build (see %s)" % (name, os.path.join(hdir, name + ".log")))
    return exe
