"""Hypothesis strategies shared by the API-level properties: CFG (sparse override map within the accepted domain,
built by construction), CNT (content descriptor), sizes, frame counts."""
from hypothesis import strategies as st

TOOL_TRI = ["enable_warped_motion", "intra_angle_delta", "inter_intra_compound", "enable_paeth", "enable_smooth",
            "enable_mfmv", "enable_redundant_blk", "spatial_sse_full_loop_level", "over_bndry_blk",
            "new_nearest_comb_inject", "nsq_table", "frame_end_cdf_update", "disable_cfl_flag", "rdoq_level",
            "enable_intra_edge_filter", "enable_restoration_filtering"]
TOOL_RANGED = {"cdef_level": (-1, 4), "sg_filter_mode": (-1, 4), "wn_filter_mode": (-1, 3), "pred_me": (-1, 5),
               "bipred_3x3_inject": (-1, 2), "compound_level": (-1, 2), "set_chroma_mode": (-1, 3),
               "obmc_level": (-1, 3), "filter_intra_level": (-1, 1), "enable_hbd_mode_decision": (-1, 2),
               "palette_level": (-1, 6), "tf_level": (-1, 3)}


def sizes(max_dim=256, min_dim=64, odd8=True):
    """even width/height >= 64, biased to non-multiples of 8 / of the SB size"""
    def dim():
        base = st.integers(min_dim // 2, max_dim // 2).map(lambda v: v * 2)
        nice = st.sampled_from([d for d in (64, 72, 80, 96, 112, 128, 136, 144, 160, 176, 192, 200, 208, 240, 256, 288, 320, 352)
                                if min_dim <= d <= max_dim] or [min_dim])
        off = st.sampled_from([d for d in (66, 70, 74, 90, 100, 118, 126, 130, 134, 150, 186, 194, 202, 250, 258, 262)
                               if min_dim <= d <= max_dim] or [min_dim])
        # every residue of the dimension modulo the 64-pixel superblock in steps of 8 (the width of the last SB column / row selects
        # different kernel paths: 8, 16, 24, ... 56) and +2 / +4 / +6 offsets inside an 8-pixel unit
        resid = st.builds(lambda k, r, o: 64 * k + r + o, st.integers(1, max(1, max_dim // 64)), st.sampled_from([8, 16, 24, 32, 40, 48, 56]), st.sampled_from([0, 0, 0, 2, 4, 6])) \
            .filter(lambda v: min_dim <= v <= max_dim)
        return st.one_of(base, nice, off, resid, resid) if odd8 else nice
    return st.tuples(dim(), dim())


@st.composite
def content(draw, kinds=(0, 1, 2, 3, 4, 5, 6, 7), weights=None):
    kind = draw(st.sampled_from(list(kinds)))
    seed = draw(st.integers(0, 2**31 - 1))
    amp = draw(st.sampled_from([0, 10, 30, 50, 80, 100]))
    motion = draw(st.integers(0, 6))
    cut = draw(st.sampled_from([0, 0, 0, 3, 7]))
    return [kind, seed, amp, motion, cut]


@st.composite
def cfg(draw, max_dim=208, presets=(8, 8, 8, 7, 7, 6, 6, 5, 4), frames=(2, 16), allow_rc=True, allow_twopass=False,
        allow_superres=True, allow_grain=True, allow_10bit=True, lps=(1, 2, 4), tools_p=3, allow_tiles=True,
        allow_sc=True, recon=1, allow_overlay=True, slow_presets=(3, 2, 1, 0), slow_p=0, min_dim=64, defective=False, exclude=None):
    """returns (cfg dict, frames, twopass flag).
    defective=False (the default for every check): features for which the pinned tree has LISTED known findings (known_findings.json) are drawn as
    before and then removed again - exclusion by construction, so that the search continues behind those findings instead of rediscovering them in
    ever new combinations; what was removed is recorded under cfg['__excluded__'] (never sent to the library) and counted in the evidence classes."""
    c = {}
    if slow_p and draw(st.integers(0, 99)) < slow_p:
        preset = draw(st.sampled_from(list(slow_presets)))
        w, h = draw(sizes(min(max_dim, 136), min_dim))
        n = draw(st.integers(frames[0], min(frames[1], 8)))
    else:
        preset = draw(st.sampled_from(list(presets)))
        w, h = draw(sizes(max_dim, min_dim))
        n = draw(st.integers(frames[0], frames[1]))
    c["source_width"], c["source_height"], c["enc_mode"] = w, h, preset
    c["recon_enabled"] = recon
    c["logical_processors"] = draw(st.sampled_from(list(lps)))
    if allow_10bit and draw(st.integers(0, 3)) == 0:
        c["encoder_bit_depth"] = 10
    elif draw(st.integers(0, 5)) == 0:
        c["is_16bit_pipeline"] = 1
    hl = draw(st.sampled_from([4, 4, 3, 3, 2, 1, 0, 5]))
    c["hierarchical_levels"] = hl
    ip = draw(st.sampled_from([-2, -1, -1, 0, 1, 2, 3, 5, 7, 8, 9, 15, 16, 17, 31]))
    c["intra_period_length"] = ip
    if draw(st.booleans()):
        c["intra_refresh_type"] = draw(st.sampled_from([1, 2]))
    c["qp"] = draw(st.sampled_from([0, 1, 5, 12, 20, 28, 35, 43, 50, 55, 63]))
    rc = 0
    twopass = 0
    if allow_rc and draw(st.integers(0, 3)) == 0:
        rc = draw(st.sampled_from([1, 2]))
        c["rate_control_mode"] = rc
        c["target_bit_rate"] = draw(st.sampled_from([20000, 100000, 500000, 2000000, 7000000]))
        mn = draw(st.sampled_from([0, 1, 1, 10, 30]))
        mx = draw(st.sampled_from([63, 63, 50, 40, 30]))
        if mn > mx:
            mn = mx
        if mn >= 63:
            mn = 62
        c["min_qp_allowed"], c["max_qp_allowed"] = mn, mx
        if rc == 2:
            # documented: LAD must equal the intra period for CVBR
            if ip >= 0:
                c["look_ahead_distance"] = ip
        elif draw(st.booleans()):
            c["look_ahead_distance"] = draw(st.sampled_from([0, 1, 5, 16, 33]))
    elif draw(st.integers(0, 4)) == 0:
        c["look_ahead_distance"] = draw(st.sampled_from([0, 1, 5, 16, 33]))
    if allow_twopass and rc in (0, 1) and draw(st.integers(0, 4)) == 0:
        twopass = 1
    if draw(st.integers(0, 4)) == 0:
        c["enable_tpl_la"] = draw(st.sampled_from([0, 1]))
    if allow_tiles and draw(st.integers(0, 2)) == 0:
        c["tile_rows"] = draw(st.integers(0, 3))
        c["tile_columns"] = draw(st.integers(0, 3))
    if allow_superres and not twopass and draw(st.integers(0, 6)) == 0:
        c["superres_mode"] = draw(st.sampled_from([1, 2]))
        c["superres_denom"] = draw(st.integers(8, 16))
        c["superres_kf_denom"] = draw(st.integers(8, 16))
    if allow_grain and draw(st.integers(0, 6)) == 0:
        c["film_grain_denoise_strength"] = draw(st.sampled_from([1, 4, 10, 25, 50]))
    if allow_sc and draw(st.integers(0, 3)) == 0:
        sc = draw(st.sampled_from([0, 1, 2]))
        c["screen_content_mode"] = sc
        if sc == 1 and draw(st.booleans()):
            c["intrabc_mode"] = draw(st.integers(0, 3))
    if allow_overlay and draw(st.integers(0, 5)) == 0:
        c["enable_overlays"] = 1
    if draw(st.integers(0, 5)) == 0:
        c["altref_nframes"] = draw(st.integers(0, 10))
        c["altref_strength"] = draw(st.integers(0, 6))
    if draw(st.integers(0, 7)) == 0:
        c["disable_dlf_flag"] = 1
    if draw(st.integers(0, 7)) == 0:
        c["enable_global_motion"] = 0
    if draw(st.integers(0, 9)) == 0:
        c["unrestricted_motion_vector"] = 0
    if draw(st.integers(0, 9)) == 0:
        c["enable_adaptive_quantization"] = draw(st.sampled_from([0, 1, 2]))
    # random tool levels
    ntools = draw(st.integers(0, tools_p))
    for _ in range(ntools):
        if draw(st.booleans()):
            name = draw(st.sampled_from(TOOL_TRI))
            c[name] = draw(st.sampled_from([-1, 0, 1]))
        else:
            name = draw(st.sampled_from(sorted(TOOL_RANGED)))
            lo, hi = TOOL_RANGED[name]
            c[name] = draw(st.integers(lo, hi))
    if not defective:
        ex = []
        X = set(exclude) if exclude is not None else {"OVL", "AQ1", "GRAIN", "SRES", "16BP", "TPL0", "2PASS", "MINQ0"}   # per check: the features with listed findings for ITS property
        if "OVL" in X and c.pop("enable_overlays", None):
            ex.append("OVL")
        if "AQ1" in X and c.get("enable_adaptive_quantization") == 1:
            c.pop("enable_adaptive_quantization")
            ex.append("AQ1")
        if "GRAIN" in X and c.pop("film_grain_denoise_strength", None):
            ex.append("GRAIN")
        if "SRES" in X and c.get("superres_mode"):
            for k in ("superres_mode", "superres_denom", "superres_kf_denom"):
                c.pop(k, None)
            ex.append("SRES")
        if "16BP" in X and c.get("is_16bit_pipeline") and c.get("encoder_bit_depth", 8) == 8:
            c.pop("is_16bit_pipeline")
            ex.append("16BP")
        if "TPL0" in X and c.get("enable_tpl_la", 1) == 0 and c["enc_mode"] <= 4:
            c.pop("enable_tpl_la")
            ex.append("TPL0")
        if "2PASS" in X and twopass:
            twopass = 0
            ex.append("2PASS")
        if "MINQ0" in X and c.get("rate_control_mode") and c.get("min_qp_allowed") == 0:
            c["min_qp_allowed"] = 1
            ex.append("MINQ0")
        if ex:
            c["__excluded__"] = ex
    return c, n, twopass


def is_ipmg(c):
    """the listed 'intra period == mini-GOP' stall (known_findings: IPMG): intra_period_length + 1 == 2^hierarchical_levels with 1-3 levels,
    at most 2 logical processors and the TPL look-ahead on"""
    hl = c.get("hierarchical_levels", 4)
    return 1 <= hl <= 3 and c.get("intra_period_length", -2) + 1 == (1 << hl) and c.get("logical_processors", 0) in (1, 2) and c.get("enable_tpl_la", 1) != 0


def case_from(c, n, twopass, cnt, **kw):
    if n >= 8 and is_ipmg(c) and not kw.get("keep_ipmg"):
        # excluded by construction (streams of a few dozen pictures stall): the intra period is doubled
        c["intra_period_length"] = 2 * (c["intra_period_length"] + 1) - 1
        c["__excluded__"] = list(c.get("__excluded__", [])) + ["IPMG"]
    kw.pop("keep_ipmg", None)
    case = dict(cfg=c, frames=n, content=cnt)
    if twopass:
        case["twopass"] = 1
    case.update(kw)
    return case
