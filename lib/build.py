#!/usr/bin/env python3
"""Build cache: every variant is (re)built from the CURRENT working tree of the repo.

ensure(variant) -> dict(bin=<dir with libs>, build=<cmake dir>)
Builds are out-of-tree under /verif/.build/<variant>; ninja makes an unchanged tree a no-op and an
edited tree an incremental rebuild.  A failed build raises BuildFailed (exit code 2 in ./check,
never a VIOLATION).
"""
import fcntl, os, subprocess, sys, time

VERIF = os.path.dirname(os.path.dirname(os.path.abspath(__file__)))
REPO = os.environ.get("VERIF_REPO", "/repo")
BUILD_ROOT = os.environ.get("VERIF_BUILD_ROOT", os.path.join(VERIF, ".build"))
GUARD = "SVT_AV1_VERIF"

UBSAN = ("signed-integer-overflow,integer-divide-by-zero,shift-exponent,bounds,"
         "float-cast-overflow,null,vla-bound,return,unreachable,bool,enum")


class BuildFailed(Exception):
    pass


def _v(cc, cxx, btype, cflags, ldflags="", shared=True, enc=True, dec=True, extra=()):
    return dict(cc=cc, cxx=cxx, btype=btype, cflags=cflags, ldflags=ldflags, shared=shared,
                enc=enc, dec=dec, extra=list(extra))


VARIANTS = {
    # closest to what ships: gcc Release (NDEBUG) shared libraries, AVX-512 kernels compiled in
    "rel": _v("gcc", "g++", "Release", "-g0"),
    # shared libs, ASan + restricted UBSan (recover mode, reports parsed)
    "asan": _v("clang", "clang++", "RelWithDebInfo",
               "-O1 -g -fno-omit-frame-pointer -fsanitize=address -fsanitize=%s -fsanitize-recover=all" % UBSAN,
               "-fsanitize=address -fsanitize=%s" % UBSAN),
    # shared libs, TSan
    "tsan": _v("clang", "clang++", "RelWithDebInfo", "-O1 -g -fsanitize=thread", "-fsanitize=thread"),
    # static archives with internal symbols, asserts ON (no NDEBUG), ASan: in-process harnesses
    "st": _v("clang", "clang++", "RelWithDebInfo",
             "-O1 -g -fno-omit-frame-pointer -fsanitize=address -UNDEBUG", "-fsanitize=address",
             shared=False),
    # static decoder, NDEBUG, libFuzzer instrumentation + ASan + restricted UBSan (C10)
    "fz": _v("clang", "clang++", "Release",
             "-O1 -g -fno-omit-frame-pointer -fsanitize=fuzzer-no-link,address -fsanitize=%s -fno-sanitize-recover=all" % UBSAN,
             "-fsanitize=address", shared=False, enc=False),
    # gcc static, plain (fast in-process harnesses where speed matters more than ASan)
    "stp": _v("gcc", "g++", "Release", "-O2 -g0 -UNDEBUG", shared=False),
}


def bindir(variant):
    return os.path.join(BUILD_ROOT, variant, "bin")


def ensure(variant, quiet=True):
    v = VARIANTS[variant]
    bdir = os.path.join(BUILD_ROOT, variant)
    os.makedirs(bdir, exist_ok=True)
    lock = open(os.path.join(bdir, ".lock"), "w")
    fcntl.flock(lock, fcntl.LOCK_EX)
    try:
        log = open(os.path.join(bdir, "build.log"), "a")
        log.write("\n==== %s ensure(%s) repo=%s\n" % (time.ctime(), variant, REPO))
        log.flush()
        stamp = os.path.join(bdir, ".configured")
        want = repr((v, REPO))
        if not (os.path.exists(stamp) and open(stamp).read() == want and
                os.path.exists(os.path.join(bdir, "build.ninja"))):
            cflags = v["cflags"] + " -D%s=1" % GUARD
            cmd = ["cmake", "-G", "Ninja", "-S", REPO, "-B", bdir,
                   "-DCMAKE_BUILD_TYPE=" + v["btype"],
                   "-DCMAKE_C_COMPILER=" + v["cc"], "-DCMAKE_CXX_COMPILER=" + v["cxx"],
                   "-DCMAKE_OUTPUT_DIRECTORY=" + os.path.join(bdir, "bin"),
                   "-DENABLE_AVX512=ON", "-DBUILD_APPS=OFF", "-DBUILD_TESTING=OFF",
                   "-DBUILD_SHARED_LIBS=" + ("ON" if v["shared"] else "OFF"),
                   "-DBUILD_ENC=" + ("ON" if v["enc"] else "OFF"),
                   "-DBUILD_DEC=" + ("ON" if v["dec"] else "OFF"),
                   "-DCMAKE_C_FLAGS=" + cflags, "-DCMAKE_CXX_FLAGS=" + cflags,
                   "-DCMAKE_SHARED_LINKER_FLAGS=" + v["ldflags"],
                   "-DCMAKE_EXE_LINKER_FLAGS=" + v["ldflags"]] + v["extra"]
            r = subprocess.run(cmd, stdout=log, stderr=subprocess.STDOUT)
            if r.returncode != 0:
                raise BuildFailed("cmake configure failed for %s (see %s/build.log)" % (variant, bdir))
            open(stamp, "w").write(want)
        r = subprocess.run(["ninja", "-C", bdir], stdout=log, stderr=subprocess.STDOUT)
        if r.returncode != 0:
            raise BuildFailed("ninja failed for %s (see %s/build.log)" % (variant, bdir))
        return dict(bin=os.path.join(bdir, "bin"), build=bdir)
    finally:
        fcntl.flock(lock, fcntl.LOCK_UN)
        lock.close()


if __name__ == "__main__":
    for name in sys.argv[1:] or ["rel"]:
        t = time.time()
        try:
            out = ensure(name)
            print("built %s in %.1fs -> %s" % (name, time.time() - t, out["bin"]))
        except BuildFailed as e:
            print("BUILD-FAILED", e)
            sys.exit(2)
