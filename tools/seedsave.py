#!/usr/bin/env python3
"""tools/seedsave.py <seed-name> <deliverable dir> <property> : copy a confirmed seeded change into /verif/seeded/<name>/ and merge the
seedcheck result (/tmp/sv/<name>.result) into meta.json."""
import json, os, shutil, sys
name, src, prop = sys.argv[1:4]
dst = os.path.join('/verif/seeded', name)
os.makedirs(dst, exist_ok=True)
shutil.copy(os.path.join(src, 'patch.diff'), dst)
if os.path.isdir(os.path.join(src, 'demo')):
    shutil.rmtree(os.path.join(dst, 'demo'), ignore_errors=True)
    shutil.copytree(os.path.join(src, 'demo'), os.path.join(dst, 'demo'))
try:
    meta = json.load(open(os.path.join(src, 'meta.json')))
except Exception:
    meta = {}
meta['property'] = prop
rp = '/tmp/sv/%s.result' % name
if os.path.exists(rp):
    meta['verified_by_lead'] = open(rp).read().splitlines()
old = {}
if os.path.exists(os.path.join(dst, 'meta.json')):
    try: old = json.load(open(os.path.join(dst, 'meta.json')))
    except Exception: pass
for k in ('detected_by', 'history'):
    if k in old and k not in meta: meta[k] = old[k]
json.dump(meta, open(os.path.join(dst, 'meta.json'), 'w'), indent=1)
print('saved', dst)
