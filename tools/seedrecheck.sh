#!/bin/bash
# tools/seedrecheck.sh <seed-name> <check id>...   re-run checks against an already verified seeded change (no test-suite / demo step)
name=$1; shift
WT=/tmp/sv/re-$name; RES=/tmp/sv/$name.result
[ -d $WT ] && git -C /repo worktree remove --force $WT
git -C /repo worktree add -q --detach $WT HEAD || exit 2
git -C $WT apply /verif/seeded/$name/patch.diff || { echo "recheck: patch no longer applies" >> $RES; git -C /repo worktree remove --force $WT; exit 2; }
for id in "$@"; do
  t0=$(date +%s)
  ( cd /verif && VERIF_REPO=$WT VERIF_BUILD_ROOT=$WT/_vb VERIF_OUT=$WT/_out VERIF_SEED=${VERIF_SEED:-1} timeout 3600 ./check $id --tier quick > $WT/check_$id.log 2>&1 ); rc=$?
  echo "check $id exit=$rc wall=$(( $(date +%s) - t0 ))s :: $(grep -E 'VIOLATION|INCONCLUSIVE|BUILD-FAILED' $WT/check_$id.log | head -3 | tr '\n' ' ' | cut -c1-300)" | tee -a $RES
  grep -E "what:" $WT/check_$id.log | head -2 | cut -c1-400 >> $RES
  mkdir -p /tmp/sv/logs; cp $WT/check_$id.log /tmp/sv/logs/${name}_$id.re.log
done
git -C /repo worktree remove --force $WT
