#!/usr/bin/env python3
"""Prints the prompt given to a fresh sub-agent that seeds a property-breaking change (it gets nothing from /verif
except the text of the property)."""
import json, sys
pid = sys.argv[1]
variant = sys.argv[2] if len(sys.argv) > 2 else ""
p = [json.loads(l) for l in open("/verif/properties.jsonl") if json.loads(l)["id"] == pid][0]
wt = "/tmp/wt/%s%s" % (pid, variant)
out = "/tmp/seedout/%s%s" % (pid, variant)
print(f"""You are helping to evaluate a verification effort for the open-source SVT-AV1 video codec (C library, v0.8.6).
Your job: act as a careless-but-plausible maintainer and produce ONE source change that silently BREAKS the semantic
property below, while the project still compiles and its existing test suite still passes. Then demonstrate the breakage.

PROPERTY {p['id']} - {p['title']}
Statement: {p['statement']}
Quantified over: {', '.join(p['quantifier']['over'])} - {p['quantifier']['text']}
Code the property is anchored in: {json.dumps(p['anchors'].get('files'))}
Mechanisms meant to make it hold: {json.dumps(p['anchors'].get('mechanism'))}

WORKSPACE RULES (strict)
- Work ONLY inside your private git worktree {wt} (a checkout of the repository) and write deliverables to {out}/ .
  Never read or write /repo or /verif (they are off limits), and do not touch other directories under /tmp/wt.
- The machine is offline. Build out-of-tree inside your worktree, e.g.:
    cd {wt} && cmake -G Ninja -S . -B _b -DCMAKE_BUILD_TYPE=Release -DBUILD_TESTING=ON -DCMAKE_OUTPUT_DIRECTORY={wt}/_b/bin \\
        && ninja -C _b SvtAv1Enc SvtAv1Dec SvtAv1EncApp SvtAv1DecApp SvtAv1ApiTests
  (use `nice -n 5 ninja -j8`; other jobs share the 16 cores). Libraries and apps land in {wt}/_b/bin.
- The "existing test suite" is the 42 stable gtest cases of SvtAv1ApiTests; run them with
    SVT_LOG=-1 {wt}/_b/bin/SvtAv1ApiTests --gtest_filter="$(cat /tmp/stable_filter.txt)"
  They must all pass with your change applied.
- There are no sample videos on the machine; synthesise input pictures in your demonstration program (C against the public API in
  Source/API/EbSvtAv1Enc.h / EbSvtAv1Dec.h, or the SvtAv1EncApp/SvtAv1DecApp CLI with a generated .yuv file). Runtime libs libaom.so.3 and
  libdav1d.so.6 exist (no headers) if you need an independent decoder via dlopen; usually a self-contained demonstration is simpler.

WHAT KIND OF CHANGE
- A small, realistic edit (1-15 lines, possibly at two cooperating sites that each look fine alone) in the library sources under Source/Lib.
  It must look like an honest mistake or "optimisation" (off-by-one, wrong variable, dropped lock/wait/unlock, skipped branch for a rare case,
  stale cache, wrong rounding for one block size, missing clamp, early return that skips cleanup, ...).
- It must NOT be exposed by ordinary use at once: it should need something specific to manifest - a particular interleaving, a fault at a
  particular point, a multi-step sequence of API calls, an unusual input/configuration (particular size, GOP shape, QP, tile layout, bit depth,
  stream length, ...), or two cooperating sites. A default-settings short encode of ordinary content should ideally still behave.
- It must break THIS property (as stated), not merely some other behaviour, and must not crash/alter everything trivially.
- Do not edit tests, build files or public headers. Do not add new files to the library.

DELIVERABLES in {out}/
 1. patch.diff  - `git -C {wt} diff` of your change (library sources only).
 2. demo/       - the demonstration: source + a `run.sh <bindir>` script that builds (if needed) and runs it against the libraries in <bindir>,
                  exits 0 when the property holds and non-zero (printing what went wrong) when it is broken. It must FAIL with the patch and
                  PASS on the pristine tree - verify both yourself (build the pristine tree in a second build dir, e.g. `git stash` / `_b0`).
                  It has to be deterministic enough to fail reliably (say >= 4 of 5 runs) with the patch; keep its runtime under ~2 minutes.
 3. meta.json   - {{"property": "{p['id']}", "summary": "...", "files_changed": [...], "needs_to_manifest": "what specific input/schedule/sequence/fault it needs",
                  "why_tests_still_pass": "...", "demo_cmd": "...", "observed_with_patch": "...", "observed_without_patch": "..."}}
Leave the worktree with the patch applied when you finish. In your final answer, summarise the change, what it needs to manifest, and the exact
commands you ran with their outcomes (42 tests with patch; demo with and without patch). If after honest effort you cannot find a change
that satisfies all constraints, say so plainly rather than delivering something that does not meet them.""")
