#!/usr/bin/env python3-vt
"""Creates the committed seed corpus for the decoder fuzz target (corpus/dec/*): tiny valid streams from the SVT encoder and from
libaom's encoder, one per tool mix, serialised in fz_dec's input format (flags byte + u16-length-prefixed temporal units)."""
import sys, os, json, subprocess, hashlib
sys.path.insert(0, '/verif/lib'); sys.path.insert(0, '/verif')
import svt
from props import c08
out = '/verif/corpus/dec'; os.makedirs(out, exist_ok=True)
def ser(packets, flags):
    b = bytes([flags])
    for p in packets:
        if len(p) > 65535: return None
        b += len(p).to_bytes(2, 'little') + p
    return b
def save(name, packets, flags=0):
    b = ser(packets, flags)
    if b and len(b) < 12000:
        open(os.path.join(out, name), 'wb').write(b); return True
    return False
n = 0
svt_cfgs = [dict(), dict(encoder_bit_depth=10), dict(tile_columns=1, source_width=128), dict(superres_mode=1, superres_denom=12, superres_kf_denom=10), dict(film_grain_denoise_strength=10),
            dict(screen_content_mode=1, palette_level=1), dict(screen_content_mode=1, intrabc_mode=1), dict(enc_mode=4), dict(hierarchical_levels=2, intra_period_length=1),
            dict(rate_control_mode=1, target_bit_rate=100000), dict(enable_overlays=1, hierarchical_levels=2), dict(source_width=70, source_height=66), dict(qp=10), dict(qp=63), dict(disable_dlf_flag=1, cdef_level=0)]
for i, o in enumerate(svt_cfgs):
    c = dict(source_width=64, source_height=64, enc_mode=8, logical_processors=1, recon_enabled=0, qp=45); c.update(o)
    kind = 4 if c.get('screen_content_mode') == 1 else 3
    for frames in (1, 3):
        r = svt.run_encode(dict(cfg=c, frames=frames, content=[kind, i, 50, 1, 0]), 'rel', timeout=120)
        if r.completed() and r.accepted():
            n += save('svt_%02d_f%d' % (i, frames), [b for _, b in r.packets()], flags=(i % 2) << 1)
        r.cleanup()
aom = [dict(cpu=9), dict(cpu=6, lag=5), dict(cpu=5, tune_content=1, ck=4), dict(cpu=6, tile_cols=1, w=128), dict(cpu=6, grain=3), dict(cpu=6, bd=10), dict(cpu=5, superres_mode=1, superres_denom=12),
       dict(cpu=6, err_res=1), dict(cpu=4, lag=8), dict(cpu=6, aq=1), dict(cpu=6, deltaq=1), dict(cpu=8, usage=1, lag=0), dict(cpu=6, sb=2), dict(cpu=5, lossless=1), dict(cpu=6, kfmax=0, kfmin=0), dict(cpu=3, lag=5, frames=4)]
wd = svt.mkwork('corp')
for i, o in enumerate(aom):
    a = dict(w=64, h=64, frames=3, cq=40, end_usage=3, ck=5, kseed=i, kmotion=2); a.update(o)
    pk, info, inc = c08.make_stream(dict(src='aom', aom=a), wd)
    if pk:
        n += save('aom_%02d' % i, pk, flags=(i % 2) << 1)
        u = c08.annexb_units(pk)
        if u and i % 4 == 0: n += save('aom_%02d_annexb' % i, u, flags=1)
print('corpus files', n, 'bytes', sum(os.path.getsize(os.path.join(out, f)) for f in os.listdir(out)))
