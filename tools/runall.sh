#!/bin/bash
# tools/runall.sh [tier] : run every claimed check once (sequentially, as the harness does), keep logs under /tmp/runall, print a summary.
tier=${1:-quick}; out=/tmp/runall; rm -rf $out; mkdir -p $out
cd /verif
for id in $(python3 -c "import json; print(' '.join(c['property_id'] for c in json.load(open('MANIFEST.json'))['checks']))"); do
  s=$(date +%s); ./check $id --tier $tier > $out/$id.log 2>&1; rc=$?
  echo "$id exit=$rc wall=$(( $(date +%s) - s ))s known=$(grep -c '^KNOWN-FINDING' $out/$id.log) viol=$(grep -c '^VIOLATION' $out/$id.log)" | tee -a $out/summary.txt
done
