#!/bin/bash
# tools/seedcheck.sh <seed-name> <deliverable dir> [check ids...]
#   1. fresh scratch worktree of /repo HEAD + the seed's patch.diff; Release build with tests; the 42 stable tests must pass
#   2. the seed's demo must FAIL on the patched build and PASS on a pristine build of /repo HEAD
#   3. each listed check is run (quick tier) against the patched tree (VERIF_REPO / VERIF_BUILD_ROOT / VERIF_OUT point at scratch space)
#   4. the scratch worktree and all build output are removed
# Results: /tmp/sv/<seed-name>.result (one line per step).
name=$1; src=$2; shift 2
WT=/tmp/sv/$name; RES=/tmp/sv/$name.result; PR=/tmp/sv/pristine
mkdir -p /tmp/sv; : > $RES
head=$(git -C /repo rev-parse --short HEAD)
say() { echo "$@" | tee -a $RES; }
build() { # dir
  cmake -G Ninja -S $1 -B $1/_b -DCMAKE_BUILD_TYPE=Release -DBUILD_TESTING=ON -DCMAKE_OUTPUT_DIRECTORY=$1/_b/bin > $1/_b.log 2>&1 && \
  nice -n 3 ninja -C $1/_b SvtAv1Enc SvtAv1Dec SvtAv1EncApp SvtAv1DecApp SvtAv1ApiTests >> $1/_b.log 2>&1
}
(
 flock 9
 if [ ! -d $PR ] || [ "$(cat $PR/.head 2>/dev/null)" != "$head" ]; then
   [ -d $PR ] && git -C /repo worktree remove --force $PR
   git -C /repo worktree add -q --detach $PR HEAD && build $PR && echo $head > $PR/.head || { echo "pristine build failed"; exit 9; }
 fi
) 9>/tmp/sv/.pristine.lock || { say "pristine-build FAILED"; exit 2; }
[ -d $WT ] && git -C /repo worktree remove --force $WT
git -C /repo worktree add -q --detach $WT HEAD || exit 2
if ! git -C $WT apply $src/patch.diff; then say "patch-apply FAILED"; git -C /repo worktree remove --force $WT; exit 2; fi
say "patch-apply ok ($(git -C $WT diff --stat | tail -1))"
if build $WT; then say "build ok"; else say "build FAILED"; tail -5 $WT/_b.log; git -C /repo worktree remove --force $WT; exit 2; fi
out=$(SVT_LOG=-1 $WT/_b/bin/SvtAv1ApiTests --gtest_filter="$(cat /verif/tools/stable_filter.txt)" 2>&1 | tail -3)
if echo "$out" | grep -q "PASSED  \] 42 tests"; then say "tests42 ok"; else say "tests42 FAILED: $out"; fi
if [ -x $src/demo/run.sh ] || [ -f $src/demo/run.sh ]; then
  np=0; for i in 1 2 3; do timeout 600 bash $src/demo/run.sh $WT/_b/bin > $WT/demo_p$i.log 2>&1; r=$?; [ $r -ne 0 ] && np=$((np+1)); done
  timeout 600 bash $src/demo/run.sh $PR/_b/bin > $WT/demo_0.log 2>&1; r0=$?
  say "demo patched: failed $np/3 ; pristine exit=$r0"
  tail -3 $WT/demo_p1.log | cut -c1-300 >> $RES
else say "demo MISSING"; fi
for id in "$@"; do
  t0=$(date +%s)
  ( cd /verif && VERIF_REPO=$WT VERIF_BUILD_ROOT=$WT/_vb VERIF_OUT=$WT/_out VERIF_SEED=${VERIF_SEED:-1} timeout 3600 ./check $id --tier ${SEED_TIER:-quick} > $WT/check_$id.log 2>&1 ); rc=$?
  say "check $id exit=$rc wall=$(( $(date +%s) - t0 ))s :: $(grep -E 'VIOLATION|INCONCLUSIVE|BUILD-FAILED' $WT/check_$id.log | head -3 | tr '\n' ' ' | cut -c1-300)"
  grep -E "what:" $WT/check_$id.log | head -2 | cut -c1-400 >> $RES
  mkdir -p /tmp/sv/logs; cp $WT/check_$id.log /tmp/sv/logs/${name}_$id.log
done
git -C /repo worktree remove --force $WT
say "done"
