#!/usr/bin/env python3-vt
"""tools/ddmin.py <Cxx> <replay.json> : greedy minimisation of a failing case's cfg map (drop one key at a time while the same
violation key family persists).  Prints the minimal case."""
import sys, json, importlib
sys.path.insert(0, '/verif/lib'); sys.path.insert(0, '/verif')
import engine
pid, path = sys.argv[1], sys.argv[2]
mod = importlib.import_module('props.' + pid.lower())
for v in mod.variants('quick'):
    import svt; svt.bins(v)
svt.refbins()
if hasattr(mod, 'prepare'): mod.prepare('quick')
rp = json.load(open(path)); case = rp['case']
def fails(c):
    for _ in range(2):
        r = mod.run_case(c, 'quick')
        ks = [v['key'].split('|')[1] for v in r.get('violations', [])]
        if ks: return ks
    return []
want = fails(case)
print('original fails with', want)
if not want: sys.exit(0)
cfg = case['cfg']
keep = ('source_width', 'source_height', 'enc_mode', 'hierarchical_levels', 'intra_period_length', 'recon_enabled', 'logical_processors')
changed = True
while changed:
    changed = False
    for k in sorted(cfg):
        if k in keep: continue
        c2 = json.loads(json.dumps(case)); del c2['cfg'][k]
        got = fails(c2)
        if got and got[0] == want[0]:
            case = c2; cfg = case['cfg']; changed = True
            print('dropped', k, flush=True)
for k, small in (('source_width', 64), ('source_height', 64)):
    c2 = json.loads(json.dumps(case)); c2['cfg'][k] = small
    got = fails(c2)
    if got and got[0] == want[0]: case = c2
print(json.dumps(case))
r = mod.run_case(case, 'quick'); print(r.get('violations'))
