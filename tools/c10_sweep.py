#!/usr/bin/env python3-vt
"""Triage helper for C10 (not a check): run the two libFuzzer campaigns for a given time, classify EVERY crash-/leak- artifact with the
check's own classifier, and store the smallest input per key that the known-findings file does not list.
usage: tools/c10_sweep.py <seed> <seconds> <outdir>"""
import glob, json, os, shutil, sys, concurrent.futures as cf
sys.path.insert(0, os.path.join(os.path.dirname(os.path.abspath(__file__)), "..", "lib"))
sys.path.insert(0, os.path.join(os.path.dirname(os.path.abspath(__file__)), ".."))
import engine, harness
from props import c10


def main():
    seed, secs, out = int(sys.argv[1]), int(sys.argv[2]), sys.argv[3]
    os.makedirs(out, exist_ok=True)
    exe = harness.build_fuzz("fz_dec", ["fuzz/fz_dec.cc"])
    known = engine.load_known("C10")
    wd = os.path.join(out, "wd")
    shutil.rmtree(wd, ignore_errors=True)
    c1, c2, a1, a2 = [os.path.join(wd, x) for x in ("c1", "c2", "a1", "a2")]
    for d in (c1, c2, a1, a2):
        os.makedirs(d)
    for f in glob.glob(os.path.join(engine.VERIF, "corpus", "dec", "*")):
        shutil.copy(f, c1)
    ps = [c10.campaign(exe, c1, a1, secs, 13, engine.derive_seed(seed, 1), os.path.join(wd, "s.log")),
          c10.campaign(exe, c2, a2, secs, 3, engine.derive_seed(seed, 2), os.path.join(wd, "e.log"))]
    for p in ps:
        p.wait()
    arts = sorted(glob.glob(a1 + "/crash-*") + glob.glob(a1 + "/leak-*") + glob.glob(a2 + "/crash-*") + glob.glob(a2 + "/leak-*"), key=os.path.getsize)
    with cf.ThreadPoolExecutor(max_workers=16) as ex:
        res = list(ex.map(lambda f: c10.classify(exe, f), arts))
    by = {}
    for f, (k, w) in zip(arts, res):
        if k:
            by.setdefault(k, []).append((f, w))
    rep = {}
    for k, lst in sorted(by.items()):
        kn = engine.key_matches(known, k) is not None
        f, w = lst[0]
        rep[k] = dict(n=len(lst), known=kn, what=w, file=None)
        dst = os.path.join(out, "%s-%d-%s" % ("known" if kn else "new", seed, os.path.basename(f)))
        shutil.copy(f, dst)
        rep[k]["file"] = dst
        print("%s n=%d %s\n    %s" % ("known" if kn else "NEW  ", len(lst), k, w))
    print("artifacts", len(arts), "timeouts", len(glob.glob(a1 + "/timeout-*") + glob.glob(a2 + "/timeout-*")))
    json.dump(rep, open(os.path.join(out, "sweep-%d.json" % seed), "w"), indent=1)
    shutil.rmtree(wd, ignore_errors=True)


main()
