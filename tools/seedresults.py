#!/usr/bin/env python3
"""tools/seedresults.py: fold the seedcheck logs (/tmp/sv/<name>.result) into seeded/<name>/meta.json and seeded/RESULTS.md."""
import json, os, re, glob, time
rows = []
for d in sorted(glob.glob('/verif/seeded/*/')):
    name = os.path.basename(d.rstrip('/'))
    mp = os.path.join(d, 'meta.json')
    try: meta = json.load(open(mp))
    except Exception: continue
    rp = '/tmp/sv/%s.result' % name
    if os.path.exists(rp):
        lines = open(rp).read().splitlines()
        meta['verified_by_lead'] = lines
        hist = meta.setdefault('history', [])
        entry = dict(at=time.strftime('%Y-%m-%d %H:%M', time.gmtime(os.path.getmtime(rp))), checks={})
        for ln in lines:
            m = re.match(r'check (C\d+) exit=(\d+) wall=(\d+)s :: (.*)', ln)
            if m:
                entry['checks'][m.group(1)] = dict(exit=int(m.group(2)), wall_s=int(m.group(3)), detected=(m.group(2) == '1' and 'VIOLATION' in m.group(4)), first=m.group(4)[:200])
        if entry['checks'] and (not hist or hist[-1].get('checks') != entry['checks']):
            hist.append(entry)
        meta['detected_by'] = sorted({c for h in hist for c, v in h['checks'].items() if v['detected']})
        json.dump(meta, open(mp, 'w'), indent=1)
    v = meta.get('verified_by_lead') or []
    ok42 = any('tests42 ok' in x for x in v)
    demo = next((x for x in v if x.startswith('demo patched')), '')
    last = (meta.get('history') or [{}])[-1].get('checks', {})
    rows.append((name, meta.get('property'), (meta.get('summary') or '')[:110].replace('|', '/'), (meta.get('needs_to_manifest') or '')[:120].replace('|', '/'), 'yes' if ok42 else '?', demo.replace('demo patched: ', ''),
                 ', '.join('%s:%s' % (c, 'CAUGHT' if r['detected'] else ('inconclusive' if r['exit'] == 2 else 'missed')) for c, r in sorted(last.items())) or 'not run yet',
                 ', '.join(meta.get('detected_by') or []) or '-'))
ov = json.load(open('/verif/seeded/overrides.json')) if os.path.exists('/verif/seeded/overrides.json') else {}
notes = ['', '## Notes on attribution', '']
for sname, d in sorted(ov.items()):
    for chk, txt in sorted(d.items()):
        notes.append('* **%s / %s**: %s' % (sname, chk, txt))
out = ['# Seeded property-breaking changes and what catches them', '',
       'Each change was produced by an independent sub-agent that saw only the text of one property and a scratch worktree; the lead re-verified it',
       '(patch applies, builds, 42 stable tests pass, demonstration fails with the patch and passes without) with `tools/seedcheck.sh`, which then ran the listed checks',
       '(quick tier) against the patched scratch tree.  "ever caught by" accumulates over re-runs after the checks were strengthened (see `history` in each meta.json).', '',
       '| seed | property | change | needs to manifest | 42 tests | demo (patched fails / pristine exit) | last run of checks | ever caught by |', '|---|---|---|---|---|---|---|---|']
for r in rows:
    out.append('| ' + ' | '.join(str(x) for x in r) + ' |')
open('/verif/seeded/RESULTS.md', 'w').write('\n'.join(out + notes) + '\n')
print('\n'.join(out[-len(rows):]))
