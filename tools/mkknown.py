#!/usr/bin/env python3
"""tools/mkknown.py: (maintainer tool, not run by checks) turn collect-mode output (/tmp/collect/<id>.json) into known_findings.json
entries following the grouping RULES below, and store one replay case per entry under replays/<id>/known/.
A rule = (property, fnmatch pattern over collected keys, entry key pattern, description).  Every collected key must be covered by
exactly the rule that explains its root cause; anything not covered is printed as UNEXPLAINED and stays a violation."""
import fnmatch, hashlib, json, os, sys
sys.path.insert(0, '/verif/lib')
import engine
V = '/verif'
RULES = [
 # ---- C01 / C03 / C22 / C19: streams an independent decoder rejects, recon that is not the decoded picture
 ("C01", "C01|decode-error|libaom|*AQ1*TILES*", "enable_adaptive_quantization=1 (segmentation-based AQ) with more than one tile: libaom rejects the tile data ('Failed to decode tile data') while dav1d decodes the stream"),
 ("C01", "C01|decode-error|libaom|*TPL0*SB128*", "enable_tpl_la=0 at presets <= 4 (128x128 superblocks): libaom rejects the key frame's tile data, dav1d decodes it"),
 ("C01", "C01|recon-mismatch:zero-recon|*16BP*", "is_16bit_pipeline=1 with 8-bit input: the recon output of non-reference pictures is all zero"),
 ("C01", "C01|recon-mismatch:*|*16BP*", "is_16bit_pipeline=1 with 8-bit input: recon output does not match the decoded picture"),
 ("C01", "C01|recon-mismatch:few|*GRAIN*", "film grain with rate control: a handful of recon samples differ from the grain-synthesised decoder output"),
 ("C01", "C01|recon-mismatch:*|*SRES*", "superres: the recon output differs from the decoded (upscaled) picture by some samples"),
 ("C01", "C01|decode-error|*|*MINQ0*", "rate control with min_qp_allowed=0: frames are coded with base_q_idx 0 (which AV1 defines as lossless) using the lossy syntax; libaom/dav1d reject the stream ('Invalid length in read_golomb')"),
 ("C03", "C03|decode-count|*MINQ0*", "same root cause as C01 MINQ0: the stream does not decode"),
 ("C03", "C03|decode-count|*TPL0*SB128*", "same root cause as C01 TPL0+SB128: libaom rejects the key frame, so fewer pictures decode than were submitted"),
 ("C02", "C02|seq-differs|*GRAIN*", "film grain: the in-band sequence headers of different key frames differ (film_grain_params_present toggles)"),
 ("C19", "C19|idr-not-shown-key|P0|*", "intra_period_length=0 with intra_refresh_type=2: frames after the first are coded as INTRA_ONLY frames, not as shown key frames"),
 # ---- determinism
 ("C04", "C04|nondeterministic|cqp|*AQ1*", "enable_adaptive_quantization=1: output varies from run to run with more than one thread (segmentation decisions race)"),
 ("C04", "C04|nondeterministic|rc1|*", "rate_control_mode=1 (VBR): frame QPs depend on packetization feedback timing, output varies run to run"),
 ("C04", "C04|nondeterministic|rc2|*", "rate_control_mode=2 (CVBR): frame QPs depend on feedback timing, output varies run to run"),
 ("C05", "C05|output-differs|threads-cqp|*AQ1*", "enable_adaptive_quantization=1: output depends on logical_processors (and varies run to run for lp>1)"),
 ("C05", "C05|output-differs|threads-rc1|*", "rate_control_mode=1: output depends on logical_processors"),
 ("C05", "C05|output-differs|threads-rc2|*", "rate_control_mode=2: output depends on logical_processors"),
 ("C27", "C27|output-differs|*AQ1*", "enable_adaptive_quantization=1: run-to-run nondeterminism shows up as pacing dependence"),
 ("C13", "C13|output-differs|prior-memory|*GRAIN*", "film grain: output differs between otherwise identical runs (noise-model estimation is not deterministic)"),
 # ---- C26
 ("C26", "C26|sse-mismatch|nonref|cb|*", "non-reference pictures: the reported chroma SSE differs slightly from the SSE against the decoded picture (luma matches exactly)"),
 ("C26", "C26|sse-mismatch|*16bit-pipeline*", "is_16bit_pipeline=1 with 8-bit input: reported SSE is computed against an all-zero picture for non-reference frames"),
 ("C26", "C26|sse-mismatch|nonref|luma|*AQ1*", "enable_adaptive_quantization=1: reported SSE of non-reference pictures differs from the decoded picture's"),
 ("C26", "C26|sse-mismatch|nonref|luma|*RC?*", "rate control modes 1/2: reported SSE of non-reference pictures differs from the decoded picture's"),
 # ---- C11: crashes, deadlocks, undefined behaviour (site = root cause)
 ("C11", "C11|AddressSanitizer:SEGV|picture_decision_kernel*", "enable_overlays=1 with two-pass encoding: SEGV in picture_decision_kernel"),
 ("C11", "C11|AddressSanitizer:SEGV|tpl_setup_me_refs*", "rate_control_mode=1: NULL dereference in tpl_setup_me_refs (TPL look-ahead)"),
 ("C11", "C11|AddressSanitizer:SEGV|update_neighbor_samples_array_open_loop_mb_recon*", "superres: wild read in update_neighbor_samples_array_open_loop_mb_recon (TPL mc flow)"),
 ("C11", "C11|AddressSanitizer:heap-buffer-overflow|svt_memcpy_small*", "superres at presets <= 4: heap-buffer-overflow in tpl_mc_flow_dispenser's copy"),
 ("C11", "C11|AddressSanitizer:SEGV|write_modes_b*", "enable_overlays=1: NULL dereference in write_modes_b (entropy coding of the overlay picture)"),
 ("C11", "C11|ubsan:member access within null pointer of type 'MacroBlockD'*EbEntropyCoding.c*", "enable_overlays=1: NULL MacroBlockD in entropy coding (same defect as the write_modes_b crash)"),
 ("C11", "C11|ubsan:member access within null pointer of type 'EbObjectWrapper'*EbPictureManagerProcess.c*", "rate_control_mode=1: NULL reference wrapper in picture manager"),
 ("C11", "C11|deadlock|drain-wait|*AQ1*TILES*", "AQ1 with tiles: encoder stops producing packets (deadlock signature in the final drain)"),
 ("C11", "C11|deadlock|drain-wait|*RC2*", "rate_control_mode=2: encoder stops producing packets (deadlock signature in the final drain)"),
 ("C11", "C11|ubsan:index N out of bounds for type 'const uintN_t[N]'*EbMotionEstimationProcess.c*", "ME lambda table of 52 entries indexed with qp up to 63 (EbMotionEstimationProcess.c)"),
 ("C11", "C11|ubsan:index N out of bounds for type 'intN_t[N]' (aka 'short[N]')|EbMotionEstimation.c*", "index 2 of int16_t[2] in EbMotionEstimation.c"),
 ("C11", "C11|ubsan:index N out of bounds for type 'uintN_t[N]' (aka 'unsigned int[N]')|EbEncInterPrediction.c*", "index -2 of uint32_t[7] in EbEncInterPrediction.c"),
 ("C11", "C11|ubsan:index N out of bounds for type 'uintN_t[N]' (aka 'unsigned int[N]')|EbProductCodingLoop.c*", "index 255 of uint32_t[8] in EbProductCodingLoop.c (best_refs == 0)"),
 ("C11", "C11|ubsan:inf is outside the range of representable values of type 'int'|EbRateControlProcess.c*", "inf converted to int in EbRateControlProcess.c (bits-per-pixel estimate with zero area/rate)"),
 ("C11", "C11|ubsan:shift exponent N is negative|grainSynthesis.c*", "film grain: shift exponent -1 in grainSynthesis.c (chroma scaling shift with bit depth)"),
 ("C11", "C11|ubsan:signed integer overflow: N * N cannot be represented in type 'int'|EbProductCodingLoop.c*", "int overflow in EbProductCodingLoop.c cost scaling (rate control / SB128)"),
 ("C11", "C11|ubsan:signed integer overflow: N * N cannot be represented in type 'int'|EbTemporalFiltering.c*", "int overflow in the temporal-filter accumulator scaling (EbTemporalFiltering.c)"),
 ("C11", "C11|ubsan:signed integer overflow: N * N cannot be represented in type 'int'|highbd_variance_avx2.c*", "int overflow squaring the pixel sum in highbd_variance_avx2.c"),
 ("C27", "C27|must-complete-pattern-deadlocks|send_picture|*GRAIN*", "film grain + screen content: the drain-after-every-send pattern stalls in send_picture"),
 ("C26", "C26|sse-mismatch|nonref|luma|*", "non-reference pictures: the reported luma SSE is not the SSE against the decoded picture (the statistics are taken from a picture that has not been through the same post-filters)"),
 ("C26", "C26|sse-mismatch|ref|luma|*SB128*", "presets <= 4 with tiles: reported luma SSE of a reference picture differs from the decoded picture's"),
 ("C15", "C15|leak|malloc_p_buffer<-packetization_kernel", "encoder torn down mid-stream: output buffers allocated by the packetization kernel and not yet fetched by the application are never freed"),
 ("C15", "C15|teardown-blocks|enc_deinit_handle", "encoder torn down mid-stream: svt_av1_enc_deinit_handle blocks forever (thread join) in some histories"),
 ("C15", "C15|crash|enc_send", "repeated sessions in one process: SIGILL/abort inside svt_av1_enc_send_picture"),
 ("C15", "C15|crash|enc_get_packet", "repeated sessions in one process: SIGILL/abort inside svt_av1_enc_get_packet"),
 ("C27", "C27|output-differs|*OVL*", "enable_overlays=1: output differs between call pacings"),
 ("C17", "C17|crash|*", "two or more encoder instances with overlapping lifetimes in one process crash: svt_av1_enc_init of one instance rebuilds process-global tables (block geometry, RTCD pointers, lp_group/affinity) under the running instance, and deinit_handle of one frees globals the other still uses"),
 ("C17", "C17|output-differs|enc|*sbsize*", "concurrent encoders with different superblock sizes: the block-geometry tables are process-global and rebuilt for the last initialised instance, changing the other instance's output"),
 ("C17", "C17|output-differs|enc|*cpuflags*", "concurrent encoders with different use_cpu_flags: the RTCD function table is process-global, the last initialised instance's ISA level is used by both"),
 ("C14", "C14|livelock|dec_frame*", "svt_av1_dec_frame on garbage input spins without returning (parse loop does not consume input)"),
]


def main():
    kf = json.load(open(os.path.join(V, 'known_findings.json')))
    have = {e['key'] for e in kf['findings']}
    unexplained = []
    for fn in sorted(os.listdir('/tmp/collect')):
        if not fn.endswith('.json') or fn.startswith('out'):
            continue
        pid = fn[:-5]
        col = json.load(open(os.path.join('/tmp/collect', fn)))
        for key, ent in sorted(col.items()):
            rule = next((r for r in RULES if r[0] == pid and engine.wild(r[1], key)), None)
            if not rule and pid == "C12":
                # every documented-range disagreement is its own finding, keyed by field and direction
                rule = ("C12", key, "set_parameter disagrees with the documented domain: " + (ent.get("what") or "")[:220])
            if not rule:
                unexplained.append((pid, key, ent['n'], (ent.get('what') or '')[:120]))
                continue
            if rule[1] in have:
                continue
            have.add(rule[1])
            d = os.path.join(V, 'replays', pid, 'known')
            os.makedirs(d, exist_ok=True)
            safe = ''.join(c if c.isalnum() else '_' for c in rule[1])[:60]
            rp = os.path.join(d, '%s-%s.json' % (safe, hashlib.sha256(json.dumps(ent['case'], sort_keys=True).encode()).hexdigest()[:10]))
            json.dump(dict(property=pid, case=ent['case'], violations=[dict(key=key, what=ent.get('what'))]), open(rp, 'w'), indent=1, sort_keys=True)
            kf['findings'].append(dict(property=pid, status='known', key=rule[1], what=rule[2], replay=os.path.relpath(rp, V), example=(ent.get('what') or '')[:300]))
            print('added', rule[1])
    for r in RULES:     # rules whose key was not (re)collected this time are still listed (their replay is added when one is captured)
        if r[1] not in have:
            have.add(r[1])
            kf['findings'].append(dict(property=r[0], status='known', key=r[1], what=r[2], replay=None))
            print('added (no replay yet)', r[1])
    json.dump(kf, open(os.path.join(V, 'known_findings.json'), 'w'), indent=1)
    for u in unexplained:
        print('UNEXPLAINED', u)


main()
