#!/usr/bin/env python3
"""tools/isa_bisect.py <replay.json of a C06 case> <isa level>: (maintainer triage tool, not run by checks)
find the dispatch-table entries responsible for an encoder-output difference between the C-only run and <isa level>.
Builds svtdrv statically (gcc static variant) with a table of every dispatch pointer that has a variant at that level; env BISECT_MASK
resets the selected pointers to their C reference after svt_av1_enc_init.  Delta-debugs the set of pointers that must be reset for
the output to equal the C-only output."""
import json, os, sys, hashlib
sys.path.insert(0, '/verif/lib'); sys.path.insert(0, '/verif')
import build, harness, svt
from props import c06
case = json.load(open(sys.argv[1]))
case = case.get('case', case)
level = sys.argv[2]
tab = json.load(open(os.path.join(build.BUILD_ROOT, 'st', 'harness', 'kernels_gen', 'kernels_table.json')))['entries']
ents = [e for e in tab if any(v[0] == level for v in e['variants'])]
gen = os.path.join(build.BUILD_ROOT, 'stp', 'harness', 'bisect_tab.c')
os.makedirs(os.path.dirname(gen), exist_ok=True)
with open(gen, 'w') as f:
    f.write('#include <stdlib.h>\n#include <string.h>\n')
    for e in ents:
        f.write('extern void *%s; extern void %s();\n' % (e['ptr'], e['c_ref']))
    f.write('static struct { void **pp; void *c; } T[] = {\n')
    for e in ents:
        f.write('  { (void **)&%s, (void *)%s },\n' % (e['ptr'], e['c_ref']))
    f.write('};\nvoid svtdrv_bisect(void) { const char *m = getenv("BISECT_MASK"); if (!m) return; size_t n = strlen(m);\n'
            '  for (size_t i = 0; i < sizeof T / sizeof T[0] && i < n; i++) if (m[i] == \'1\') *T[i].pp = T[i].c; }\n')
exe = harness.build('svtdrv_bisect', 'stp', ['svtdrv.c', gen], defines=['-DSVTDRV_BISECT=1', '-I' + os.path.join(build.BUILD_ROOT, 'rel', 'workers')], libs=('Enc', 'Dec'))
print('built', exe, len(ents), 'entries')
MASKS = c06.MASKS
_bins = svt.bins
svt.bins = lambda v: dict(_bins('rel'), svtdrv=exe)
def run(flags, mask):
    c = dict(case); c['cfg'] = dict(case['cfg'], use_cpu_flags=flags)
    c.pop('levels', None)
    r = svt.run_encode(c, 'stp', timeout=900, env=({'BISECT_MASK': mask} if mask else None))
    d = r.out_digest() if r.completed() else 'FAILED:%s' % (r.crash or r.hang)
    r.cleanup()
    return d
n = len(ents)
ref = run(0, None)
full = run(MASKS[level], None)
allc = run(MASKS[level], '1' * n)
print('C-only', ref[:12], '| level', full[:12], '| level with all %d pointers reset' % n, allc[:12])
if ref == full:
    print('no difference to explain'); sys.exit(0)
if allc != ref:
    print('resetting every pointer that has a %s variant does not restore the C output (lower levels involved too)' % level); sys.exit(1)
# ddmin over the set that must be reset
need = list(range(n))
def ok(sub):
    m = ['0'] * n
    for i in sub: m[i] = '1'
    return run(MASKS[level], ''.join(m)) == ref
chunk = len(need) // 2
while chunk >= 1:
    i = 0
    while i < len(need):
        trial = need[:i] + need[i + chunk:]
        if trial and ok(trial):
            need = trial
        else:
            i += chunk
    chunk //= 2
print('pointers that must be reset to C for the output to match the C-only run:')
for i in need:
    print('  ', ents[i]['ptr'], '->', [v[1] for v in ents[i]['variants'] if v[0] == level])
