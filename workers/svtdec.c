/* svtdec — SVT-AV1 decoder worker: svtdec <stream.tu> <out prefix> [threads] [is16] [annexb] [start_tu] [slack] [skip_deinit] */
#include "svtdec_inc.h"
int main(int argc, char **argv) {
    if (argc < 3) { fprintf(stderr, "usage\n"); return 5; }
    int threads = argc > 3 ? atoi(argv[3]) : 1, is16 = argc > 4 ? atoi(argv[4]) : 0, annexb = argc > 5 ? atoi(argv[5]) : 0;
    int start = argc > 6 ? atoi(argv[6]) : 0, slack = argc > 7 ? atoi(argv[7]) : 0, skipd = argc > 8 ? atoi(argv[8]) : 0;
    char p[600]; snprintf(p, sizeof p, "%s.svt.json", argv[2]);
    FILE *jf = fopen(p, "w"); if (!jf) return 5;
    int r = svtdec_run_ex(argv[1], threads, is16, annexb, argv[2], jf, NULL, slack, start, skipd);
    fprintf(jf, "\n"); fclose(jf);
    return r ? 1 : 0;
}
