/* C22(a): exhaustive check of every order-hint distance helper against the signed modular distance. */
#include <stdio.h>
#include <string.h>
#include "EbDefinitions.h"
#include "EbAv1Structs.h"
#include "EbDecUtils.h"   /* decoder copy: static INLINE get_relative_dist(OrderHintInfo*, ref, cur) */

int get_relative_dist_enc(SeqHeader *seq_header, int ref_hint, int order_hint);
int svt_verif_get_relative_dist_amvp(int enable_order_hint, int order_hint_bits, int a, int b);
int svt_verif_get_relative_dist_pd(int enable_order_hint, int order_hint_bits, int a, int b);
int svt_verif_get_relative_dist_mdc(int enable_order_hint, int order_hint_bits, int a, int b);

static int model(int bits, int a, int b) { int m = 1 << (bits - 1); return (((a - b + m) % (2 * m)) + 2 * m) % (2 * m) - m; }

static int call(int fn, int en, int bits, int a, int b) {
    switch (fn) {
    case 0: { SeqHeader sh; memset(&sh, 0, sizeof sh); sh.order_hint_info.enable_order_hint = en; sh.order_hint_info.order_hint_bits = bits; return get_relative_dist_enc(&sh, a, b); }
    case 1: return svt_verif_get_relative_dist_amvp(en, bits, a, b);
    case 2: return svt_verif_get_relative_dist_pd(en, bits, a, b);
    case 3: return svt_verif_get_relative_dist_mdc(en, bits, a, b);
    default: { OrderHintInfo oh; memset(&oh, 0, sizeof oh); oh.enable_order_hint = en; oh.order_hint_bits = bits; return get_relative_dist(&oh, a, b); }
    }
}
int main(void) {
    const char *names[5] = {"get_relative_dist_enc", "amvp.get_relative_dist", "picture_decision.get_relative_dist", "md_config.get_relative_dist", "decoder.get_relative_dist"};
    long triples = 0, wrap = 0; int nfail = 0;
    printf("{\"failures\":[");
    for (int fn = 0; fn < 5; fn++)
        for (int bits = 1; bits <= 8; bits++)
            for (int a = 0; a < (1 << bits); a++)
                for (int b = 0; b < (1 << bits); b++) {
                    int want = model(bits, a, b), got = call(fn, 1, bits, a, b);
                    triples++;
                    int m = 1 << (bits - 1);
                    if ((a - b >= m) || (b - a >= m)) wrap++;
                    if (got != want && nfail < 20) { printf("%s{\"fn\":\"%s\",\"bits\":%d,\"a\":%d,\"b\":%d,\"got\":%d,\"want\":%d}", nfail ? "," : "", names[fn], bits, a, b, got, want); nfail++; }
                    if (a < 4 && b < 4) { int g0 = call(fn, 0, bits, a, b); if (g0 != 0 && nfail < 20) { printf("%s{\"fn\":\"%s\",\"bits\":%d,\"a\":%d,\"b\":%d,\"got\":%d,\"want\":0}", nfail ? "," : "", names[fn], -bits, a, b, g0); nfail++; } }
                }
    printf("],\"triples\":%ld,\"wrap_triples\":%ld,\"functions\":5}\n", triples, wrap);
    return 0;
}
