/* svtdrv — encoder driver worker.  One process = one (or several concurrent) case(s).
 * usage: svtdrv <case.txt> [<case2.txt> ...]
 * A case file is a list of "key value..." lines (see parse_case).  Output: <out>.json, <out>.pkt,
 * <out>.rec, optionally <out>.in.  The worker is a pure function of its case file(s).
 * exit codes: 0 ran to completion (API errors are reported in json), 3 deadlock signature,
 *             4 no progress but CPU busy (slow / live-lock), 5 bad case file, other = crash/sanitizer.
 */
#define _GNU_SOURCE
#include <errno.h>
#include <inttypes.h>
#include <pthread.h>
#include <stdarg.h>
#include <stdint.h>
#include <stdio.h>
#include <stdlib.h>
#include <string.h>
#include <sys/syscall.h>
#include <sys/time.h>
#include <time.h>
#include <unistd.h>
#include <dirent.h>
#include <linux/capability.h>
#include <malloc.h>

#include "EbSvtAv1Enc.h"
#include "content.h"
#include "svtdec_inc.h"

#define MAXF 8192
#ifdef SVT_AV1_VERIF
extern uint64_t svt_verif_sched_event_count(void);
extern void     svt_verif_srm_trace_flush(void);
extern void     svt_verif_seg_trace_flush(void);
#endif

typedef struct {
    char     name[64];
    int      is_arr, idx;
    long long val;
} CfgSet;

typedef struct Case {
    char        path[512], out[512];
    CfgSet      sets[512];
    int         nsets;
    int         frames;
    ContentDesc cnt;
    long long   pts_start, pts_step;
    long long  *ptslist; int nptslist;
    char       *pat[MAXF]; int npat;
    int         stride_pad[3], pad_fill, scribble, realloc_bufs;
    int         prefill, prefill_seed;
    int         twopass;
    int         stop_after; /* -1: normal EOS */
    int         stop_get_packets; /* how many packets to try to fetch before early teardown */
    int        *qplist; int nqplist;
    int         dump_input, dump_cfg;
    int         start_delay_us;
    int         skip_deinit;
    int         repeat; /* run the whole session this many times in the process (C15) */
    int         send_eos_mode; /* 0: separate EOS buffer with NULL p_buffer (default) */
    int         null_cfg_init; /* unused */
    int         is_dec; /* decoder case in the same process (C17) */
    char        dec_stream[512]; int dec_threads, dec_16bit;
    /* results */
    FILE *jf, *pf, *rf, *inf;
    int   instance;
} Case;

static volatile long g_progress = 0;
static volatile int  g_done = 0;
static volatile const char *g_where = "start";
static int g_ncases = 0;
/* phased mode (SVTDRV_PHASED=1, several encoder cases in one process): session construction (init_handle..init) and teardown are
 * serialised and separated from the encoding phase by barriers, so that the instances only overlap while they are encoding (C17) */
static pthread_mutex_t ph_mx = PTHREAD_MUTEX_INITIALIZER, ph_serial = PTHREAD_MUTEX_INITIALIZER;
static pthread_cond_t  ph_cv = PTHREAD_COND_INITIALIZER;
static int ph_enabled = 0, ph_participants = 0, ph_arrived[2] = {0, 0};
static void ph_wait(int b) {
    if (!ph_enabled) return;
    pthread_mutex_lock(&ph_mx); ph_arrived[b]++; pthread_cond_broadcast(&ph_cv);
    while (ph_arrived[b] < ph_participants) pthread_cond_wait(&ph_cv, &ph_mx);
    pthread_mutex_unlock(&ph_mx);
}
static void ph_leave(void) {
    if (!ph_enabled) return;
    pthread_mutex_lock(&ph_mx); ph_participants--; pthread_cond_broadcast(&ph_cv); pthread_mutex_unlock(&ph_mx);
}
#define PH_LOCK()   do { if (ph_enabled) pthread_mutex_lock(&ph_serial); } while (0)
#define PH_UNLOCK() do { if (ph_enabled) pthread_mutex_unlock(&ph_serial); } while (0)
static Case *g_cases[8];

static double now_ms(void) {
    struct timespec ts; clock_gettime(CLOCK_MONOTONIC, &ts);
    return ts.tv_sec * 1e3 + ts.tv_nsec / 1e6;
}
static int count_threads(void) {
    int n = 0; DIR *d = opendir("/proc/self/task"); struct dirent *e;
    if (!d) return -1;
    while ((e = readdir(d))) if (e->d_name[0] != '.') n++;
    closedir(d); return n;
}
static void drop_nice_cap(void) {
    struct __user_cap_header_struct hdr = {_LINUX_CAPABILITY_VERSION_3, 0};
    struct __user_cap_data_struct data[2];
    if (syscall(SYS_capget, &hdr, data) != 0) return;
    data[0].effective &= ~(1u << CAP_SYS_NICE); data[0].permitted &= ~(1u << CAP_SYS_NICE);
    data[0].inheritable &= ~(1u << CAP_SYS_NICE);
    syscall(SYS_capset, &hdr, data);
}

/* ---------------- config field table ---------------- */
static int set_int_field(void *p, size_t sz, int is_signed, long long v) {
    (void)is_signed;
    switch (sz) {
    case 1: *(uint8_t *)p = (uint8_t)v; return 0;
    case 2: *(uint16_t *)p = (uint16_t)v; return 0;
    case 4: *(uint32_t *)p = (uint32_t)v; return 0;
    case 8: *(uint64_t *)p = (uint64_t)v; return 0;
    }
    return -1;
}
static long long get_int_field(const void *p, size_t sz, int is_signed) {
    switch (sz) {
    case 1: return is_signed ? (long long)*(const int8_t *)p : (long long)*(const uint8_t *)p;
    case 2: return is_signed ? (long long)*(const int16_t *)p : (long long)*(const uint16_t *)p;
    case 4: return is_signed ? (long long)*(const int32_t *)p : (long long)*(const uint32_t *)p;
    case 8: return (long long)*(const int64_t *)p;
    }
    return 0;
}
#define IS_SIGNED(x) (((__typeof__(x))-1) < (__typeof__(x))1 ? 1 : 0)
static int cfg_set(EbSvtAv1EncConfiguration *c, const char *name, int idx, long long v) {
#define F(n) if (!strcmp(name, #n)) return set_int_field(&c->n, sizeof(c->n), IS_SIGNED(c->n), v);
#define FA(n, cnt) if (!strcmp(name, #n)) { if (idx < 0 || idx >= (int)(cnt)) return -1; \
        return set_int_field(&c->n[idx], sizeof(c->n[0]), IS_SIGNED(c->n[0]), v); }
#include "cfg_fields.inc"
#undef F
#undef FA
    return -2;
}
static void cfg_dump(FILE *f, const EbSvtAv1EncConfiguration *c) {
    int first = 1;
#define F(n) fprintf(f, "%s\"%s\":%lld", first ? "" : ",", #n, get_int_field(&c->n, sizeof(c->n), IS_SIGNED(c->n))); first = 0;
#define FA(n, cnt) for (int i_ = 0; i_ < (int)(cnt); i_++) { fprintf(f, "%s\"%s[%d]\":%lld", first ? "" : ",", #n, i_, \
        get_int_field(&c->n[i_], sizeof(c->n[0]), IS_SIGNED(c->n[0]))); first = 0; }
#include "cfg_fields.inc"
#undef F
#undef FA
    fprintf(f, ",\"rc_twopass_stats_in.buf\":%lld,\"rc_twopass_stats_in.sz\":%lld",
            (long long)(intptr_t)c->rc_twopass_stats_in.buf, (long long)c->rc_twopass_stats_in.sz);
}

/* ---------------- case parsing ---------------- */
static int parse_case(Case *cs, const char *path) {
    FILE *f = fopen(path, "r");
    if (!f) { fprintf(stderr, "cannot open %s\n", path); return -1; }
    memset(cs, 0, sizeof(*cs));
    snprintf(cs->path, sizeof cs->path, "%s", path);
    cs->frames = 1; cs->pts_step = 1; cs->stop_after = -1; cs->repeat = 1; cs->cnt.amp = 50;
    cs->dec_threads = 1;
    char *line = NULL; size_t cap = 0;
    while (getline(&line, &cap, f) > 0) {
        char key[64]; int off = 0;
        if (sscanf(line, "%63s %n", key, &off) < 1 || key[0] == '#') continue;
        char *rest = line + off;
        rest[strcspn(rest, "\n")] = 0;
        if (!strcmp(key, "cfg")) {
            CfgSet *s = &cs->sets[cs->nsets++]; s->is_arr = 0;
            if (sscanf(rest, "%63s %lld", s->name, &s->val) != 2) return -1;
        } else if (!strcmp(key, "cfga")) {
            CfgSet *s = &cs->sets[cs->nsets++]; s->is_arr = 1;
            if (sscanf(rest, "%63s %d %lld", s->name, &s->idx, &s->val) != 3) return -1;
        } else if (!strcmp(key, "frames")) cs->frames = atoi(rest);
        else if (!strcmp(key, "content")) {
            sscanf(rest, "%d %u %d %d %d", &cs->cnt.kind, &cs->cnt.seed, &cs->cnt.amp, &cs->cnt.motion, &cs->cnt.cut_at);
        } else if (!strcmp(key, "pts")) sscanf(rest, "%lld %lld", &cs->pts_start, &cs->pts_step);
        else if (!strcmp(key, "ptslist")) {
            cs->ptslist = calloc(MAXF, sizeof(long long));
            char *t = strtok(rest, " ");
            while (t && cs->nptslist < MAXF) { cs->ptslist[cs->nptslist++] = strtoll(t, NULL, 10); t = strtok(NULL, " "); }
        } else if (!strcmp(key, "qplist")) {
            cs->qplist = calloc(MAXF, sizeof(int));
            char *t = strtok(rest, " ");
            while (t && cs->nqplist < MAXF) { cs->qplist[cs->nqplist++] = atoi(t); t = strtok(NULL, " "); }
        } else if (!strcmp(key, "pat")) {
            char *t = strtok(rest, ",");
            while (t && cs->npat < MAXF) { cs->pat[cs->npat++] = strdup(t); t = strtok(NULL, ","); }
        } else if (!strcmp(key, "stride_pad")) sscanf(rest, "%d %d %d", &cs->stride_pad[0], &cs->stride_pad[1], &cs->stride_pad[2]);
        else if (!strcmp(key, "pad_fill")) cs->pad_fill = atoi(rest);
        else if (!strcmp(key, "scribble")) cs->scribble = atoi(rest);
        else if (!strcmp(key, "realloc")) cs->realloc_bufs = atoi(rest);
        else if (!strcmp(key, "prefill")) sscanf(rest, "%d %d", &cs->prefill, &cs->prefill_seed);
        else if (!strcmp(key, "twopass")) cs->twopass = atoi(rest);
        else if (!strcmp(key, "stop_after")) sscanf(rest, "%d %d", &cs->stop_after, &cs->stop_get_packets);
        else if (!strcmp(key, "dump_input")) cs->dump_input = atoi(rest);
        else if (!strcmp(key, "dump_cfg")) cs->dump_cfg = atoi(rest);
        else if (!strcmp(key, "start_delay_us")) cs->start_delay_us = atoi(rest);
        else if (!strcmp(key, "repeat")) cs->repeat = atoi(rest);
        else if (!strcmp(key, "out")) snprintf(cs->out, sizeof cs->out, "%s", rest);
        else if (!strcmp(key, "dec")) { cs->is_dec = 1; sscanf(rest, "%511s %d %d", cs->dec_stream, &cs->dec_threads, &cs->dec_16bit); }
        else { fprintf(stderr, "unknown key %s\n", key); return -1; }
    }
    free(line); fclose(f);
    if (!cs->out[0]) snprintf(cs->out, sizeof cs->out, "%s.out", path);
    return 0;
}

/* ---------------- input picture handling ---------------- */
typedef struct {
    EbBufferHeaderType hdr;
    EbSvtIOFormat      io;
    uint8_t           *mem[3];
    size_t             memsz[3];
} InPic;

static void inpic_alloc(InPic *ip, int w, int h, int bd, const int stride_pad[3]) {
    int bps = bd > 8 ? 2 : 1;
    memset(ip, 0, sizeof *ip);
    for (int p = 0; p < 3; p++) {
        int pw = p ? w / 2 : w, ph = p ? h / 2 : h;
        int stride = pw + stride_pad[p];
        ip->memsz[p] = (size_t)stride * ph * bps;
        ip->mem[p] = malloc(ip->memsz[p] ? ip->memsz[p] : 1);
    }
    ip->io.luma = ip->mem[0]; ip->io.cb = ip->mem[1]; ip->io.cr = ip->mem[2];
    ip->io.y_stride = w + stride_pad[0]; ip->io.cb_stride = w / 2 + stride_pad[1]; ip->io.cr_stride = w / 2 + stride_pad[2];
    ip->io.width = w; ip->io.height = h; ip->io.color_fmt = EB_YUV420; ip->io.bit_depth = bd;
    ip->hdr.size = sizeof(EbBufferHeaderType);
    ip->hdr.p_buffer = (uint8_t *)&ip->io;
    ip->hdr.n_alloc_len = ip->hdr.n_filled_len = (uint32_t)(ip->memsz[0] + ip->memsz[1] + ip->memsz[2]);
}
static void inpic_free(InPic *ip) { for (int p = 0; p < 3; p++) { free(ip->mem[p]); ip->mem[p] = NULL; } }

static void inpic_fill(InPic *ip, uint16_t *pl[3], int w, int h, int bd, const int stride_pad[3], int pad_fill, uint32_t fseed) {
    int bps = bd > 8 ? 2 : 1;
    for (int p = 0; p < 3; p++) {
        int pw = p ? w / 2 : w, ph = p ? h / 2 : h, stride = pw + stride_pad[p];
        uint8_t *m = ip->mem[p];
        for (int y = 0; y < ph; y++) {
            for (int x = 0; x < stride; x++) {
                int v;
                if (x < pw) v = pl[p][(size_t)y * pw + x];
                else {
                    /* stride padding: outside the visible samples */
                    switch (pad_fill) {
                    case 1: v = bd > 8 ? 1023 : 255; break;
                    case 2: v = vmix(fseed, x, y, p + 77) & (bd > 8 ? 1023 : 255); break;
                    case 3: v = (x * 7 + y * 13) & (bd > 8 ? 1023 : 255); break;
                    default: v = 0;
                    }
                }
                if (bps == 1) m[(size_t)y * stride + x] = (uint8_t)v;
                else { m[((size_t)y * stride + x) * 2] = v & 255; m[((size_t)y * stride + x) * 2 + 1] = v >> 8; }
            }
        }
    }
}

/* ---------------- JSON helpers ---------------- */
static void jhex(FILE *f, const uint8_t *d, size_t n) { for (size_t i = 0; i < n; i++) fprintf(f, "%02x", d[i]); }

/* ---------------- one encoder session ---------------- */
typedef struct { void *buf; uint64_t sz; } Stats;

static int run_session(Case *cs, int pass /*0 single, 1 first, 2 second*/, Stats *stats, int rep) {
    FILE *jf = cs->jf;
    EbComponentType *h = NULL;
    EbSvtAv1EncConfiguration *cfg = malloc(sizeof *cfg);
    /* C13: whatever the caller memory contained before init_handle */
    switch (cs->prefill) {
    case 0: memset(cfg, 0, sizeof *cfg); break;
    case 1: memset(cfg, 0xFF, sizeof *cfg); break;
    case 2: memset(cfg, 0xA5, sizeof *cfg); break;
    case 3: { uint8_t *b = (uint8_t *)cfg; for (size_t i = 0; i < sizeof *cfg; i++) b[i] = vmix(cs->prefill_seed, (uint32_t)i, 3, 4) & 255; break; }
    case 4: { /* left over from another, different, valid configuration */
        EbComponentType *h0 = NULL; memset(cfg, 0, sizeof *cfg);
        if (svt_av1_enc_init_handle(&h0, NULL, cfg) == EB_ErrorNone) {
            uint8_t *b = (uint8_t *)cfg; /* perturb every byte position that holds a small value */
            for (size_t i = 0; i < sizeof *cfg; i++) b[i] = (uint8_t)(b[i] + 1 + (vmix(cs->prefill_seed, (uint32_t)i, 5, 6) % 3));
            svt_av1_enc_deinit_handle(h0);
        }
        break; }
    }
    int threads_before = count_threads();
    struct mallinfo2 mi0 = mallinfo2();
    double t0 = now_ms();
    fprintf(jf, "{\"pass\":%d,\"rep\":%d,\"threads_before\":%d,\"heap_before\":%zu", pass, rep, threads_before, (size_t)mi0.uordblks);
    g_where = "init_handle";
    PH_LOCK();
    EbErrorType rc = svt_av1_enc_init_handle(&h, (void *)cs, cfg);
    fprintf(jf, ",\"rc_init_handle\":%d", (int)rc);
    if (rc != EB_ErrorNone || !h) { fprintf(jf, "}"); free(cfg); PH_UNLOCK(); ph_leave(); return 1; }
    if (cs->dump_cfg) { fprintf(jf, ",\"cfg_default\":{"); cfg_dump(jf, cfg); fprintf(jf, "}"); }
    int bad = 0;
    for (int i = 0; i < cs->nsets; i++) {
        int r = cfg_set(cfg, cs->sets[i].name, cs->sets[i].is_arr ? cs->sets[i].idx : -1, cs->sets[i].val);
        if (r) { fprintf(stderr, "bad cfg field %s\n", cs->sets[i].name); bad = 1; }
    }
    if (bad) { fprintf(jf, ",\"badcase\":1}"); svt_av1_enc_deinit_handle(h); free(cfg); PH_UNLOCK(); ph_leave(); return 5; }
    if (pass == 1) { cfg->rc_firstpass_stats_out = 1; cfg->rc_twopass_stats_in.buf = NULL; cfg->rc_twopass_stats_in.sz = 0; }
    if (pass == 2) { cfg->rc_firstpass_stats_out = 0; cfg->rc_twopass_stats_in.buf = stats->buf; cfg->rc_twopass_stats_in.sz = stats->sz; }
    int w = cfg->source_width, hgt = cfg->source_height, bd = cfg->encoder_bit_depth;
    int recon_on = cfg->recon_enabled;
    g_where = "set_parameter";
    rc = svt_av1_enc_set_parameter(h, cfg);
    fprintf(jf, ",\"rc_set_parameter\":%d", (int)rc);
    if (cs->dump_cfg) { fprintf(jf, ",\"cfg_used\":{"); cfg_dump(jf, cfg); fprintf(jf, "}"); }
    if (rc != EB_ErrorNone) {
        g_where = "deinit_handle(after reject)";
        EbErrorType r2 = svt_av1_enc_deinit_handle(h);
        fprintf(jf, ",\"rc_deinit_handle\":%d,\"threads_after\":%d}", (int)r2, count_threads());
        free(cfg); PH_UNLOCK(); ph_leave(); return 1;
    }
    g_where = "init";
    rc = svt_av1_enc_init(h);
#ifdef SVTDRV_BISECT
    { extern void svtdrv_bisect(void); if (rc == EB_ErrorNone) svtdrv_bisect(); }   /* tools/isa_bisect.py: selected dispatch pointers back to C */
#endif
    fprintf(jf, ",\"rc_init\":%d,\"threads_running\":%d", (int)rc, count_threads());
    PH_UNLOCK();
    if (rc == EB_ErrorNone) { g_where = "phase-barrier(init)"; ph_wait(0); } else ph_leave();
    if (rc != EB_ErrorNone) {
        svt_av1_enc_deinit(h); svt_av1_enc_deinit_handle(h);
        fprintf(jf, ",\"threads_after\":%d}", count_threads()); free(cfg); return 1;
    }
    /* stream header */
    {
        EbBufferHeaderType *sh = NULL;
        g_where = "stream_header";
        rc = svt_av1_enc_stream_header(h, &sh);
        fprintf(jf, ",\"rc_stream_header\":%d,\"stream_header\":\"", (int)rc);
        if (rc == EB_ErrorNone && sh) { jhex(jf, sh->p_buffer, sh->n_filled_len); svt_av1_enc_stream_header_release(sh); }
        fprintf(jf, "\"");
    }
    /* recon buffer */
    EbBufferHeaderType rb; memset(&rb, 0, sizeof rb);
    size_t rsz = (size_t)w * hgt * 3 / 2 * (bd > 8 ? 2 : 1);
    rb.size = sizeof rb; rb.p_buffer = malloc(rsz + 64); rb.n_alloc_len = (uint32_t)rsz;

    uint16_t *pl[3];
    pl[0] = malloc((size_t)w * hgt * 2); pl[1] = malloc((size_t)w * hgt / 2 + 16); pl[2] = malloc((size_t)w * hgt / 2 + 16);
    InPic ip; inpic_alloc(&ip, w, hgt, bd, cs->stride_pad);

    int npk = 0, nrec = 0, eos_pkt = 0, eos_rec = 0, err_pkt = 0;
    int nsend = (cs->stop_after >= 0 && cs->stop_after < cs->frames) ? cs->stop_after : cs->frames;
    int write_out = (pass != 1);
    fprintf(jf, ",\"events\":[");
    int first_ev = 1;
#define EV(...) do { fprintf(jf, "%s", first_ev ? "" : ","); first_ev = 0; fprintf(jf, __VA_ARGS__); } while (0)

    /* helper lambdas as macros */
#define POLL_PACKETS(maxn, blocking) do { int got_ = 0; \
        while ((maxn) < 0 || got_ < (maxn)) { EbBufferHeaderType *pk = NULL; \
            g_where = (blocking) ? "get_packet(blocking)" : "get_packet"; \
            EbErrorType r_ = svt_av1_enc_get_packet(h, &pk, (blocking)); \
            if (r_ == EB_NoErrorEmptyQueue || !pk) break; g_progress++; \
            long off_ = write_out ? ftell(cs->pf) : 0; \
            if (write_out && pk->p_buffer && pk->n_filled_len) fwrite(pk->p_buffer, 1, pk->n_filled_len, cs->pf); \
            EV("{\"t\":\"pkt\",\"rc\":%d,\"size\":%u,\"off\":%ld,\"pts\":%lld,\"dts\":%lld,\"priv\":%lld,\"pic_type\":%u,\"flags\":%u,\"qp\":%u,\"sse\":[%u,%u,%u],\"after_send\":%d}", \
               (int)r_, pk->n_filled_len, off_, (long long)pk->pts, (long long)pk->dts, (long long)(intptr_t)pk->p_app_private, \
               pk->pic_type, pk->flags, pk->qp, pk->luma_sse, pk->cb_sse, pk->cr_sse, sent); \
            npk++; got_++; if (pk->flags & EB_BUFFERFLAG_EOS) eos_pkt = 1; if (pk->flags & 0xFFFFFFF0u) err_pkt = 1; \
            g_where = "release_out_buffer"; svt_av1_enc_release_out_buffer(&pk); \
            if (eos_pkt || err_pkt) break; } } while (0)
#define POLL_RECON() do { if (recon_on) for (;;) { g_where = "get_recon"; \
            EbErrorType r_ = svt_av1_get_recon(h, &rb); \
            if (r_ == EB_NoErrorEmptyQueue) break; g_progress++; \
            if (r_ != EB_ErrorNone) { EV("{\"t\":\"rec\",\"rc\":%d}", (int)r_); break; } \
            long off_ = write_out ? ftell(cs->rf) : 0; if (write_out) fwrite(rb.p_buffer, 1, rb.n_filled_len, cs->rf); \
            EV("{\"t\":\"rec\",\"rc\":0,\"size\":%u,\"off\":%ld,\"pts\":%lld,\"flags\":%u,\"after_send\":%d}", rb.n_filled_len, off_, (long long)rb.pts, rb.flags, sent); \
            nrec++; if (rb.flags & EB_BUFFERFLAG_EOS) eos_rec = 1; } } while (0)

    int sent = 0;
    for (int k = 0; k < nsend && !err_pkt; k++) {
        content_frame(&cs->cnt, k, w, hgt, bd, pl);
        if (cs->realloc_bufs && k > 0) { inpic_free(&ip); inpic_alloc(&ip, w, hgt, bd, cs->stride_pad); }
        inpic_fill(&ip, pl, w, hgt, bd, cs->stride_pad, cs->pad_fill, cs->cnt.seed + k);
        if (cs->dump_input && write_out && cs->inf)
            for (int p = 0; p < 3; p++) fwrite(pl[p], 2, (size_t)(p ? w / 2 : w) * (p ? hgt / 2 : hgt), cs->inf);
        ip.hdr.pts = (cs->ptslist && k < cs->nptslist) ? cs->ptslist[k] : cs->pts_start + cs->pts_step * k;
        ip.hdr.dts = 0; ip.hdr.flags = 0; ip.hdr.pic_type = EB_AV1_INVALID_PICTURE;
        ip.hdr.p_app_private = (void *)(intptr_t)(0x1000 + k);
        ip.hdr.qp = (cs->qplist && k < cs->nqplist) ? (uint32_t)cs->qplist[k] : 0;
        ip.hdr.p_buffer = (uint8_t *)&ip.io;
        ip.hdr.metadata = NULL;
        g_where = "send_picture";
        rc = svt_av1_enc_send_picture(h, &ip.hdr); g_progress++;
        sent++;
        if (rc != EB_ErrorNone) EV("{\"t\":\"send\",\"k\":%d,\"rc\":%d}", k, (int)rc);
        if (cs->scribble) { /* the caller may reuse its memory as soon as send returns */
            for (int p = 0; p < 3; p++) memset(ip.mem[p], 0x5A ^ k, ip.memsz[p]);
            EbSvtIOFormat iosave = ip.io; memset(&ip.io, 0xEE, sizeof ip.io); ip.io = iosave;
            ip.hdr.pts = -12345; ip.hdr.p_app_private = (void *)0xdead; ip.hdr.flags = 0xFFFF0000u; ip.hdr.flags = 0;
        }
        const char *tok = cs->npat ? cs->pat[k < cs->npat ? k : cs->npat - 1] : "pr";
        for (const char *c = tok; *c; c++) {
            if (*c == 'p') POLL_PACKETS(-1, 0);
            else if (*c == '1') POLL_PACKETS(1, 0);
            else if (*c == 'r') POLL_RECON();
            else if (*c == 's') { g_where = "sleep"; usleep(1000); g_progress++; }
            else if (*c == 'S') { g_where = "sleep"; usleep(5000); g_progress++; }
            else if (*c == 'u') { g_where = "sleep"; usleep(100); g_progress++; }
            else if (*c == 'I') { /* live pacing: wait until the encoder has gone quiet (no new packet for 40 ms), at most 1.5 s */
                double t0_ = now_ms();
                for (;;) { int n0_ = npk; g_where = "sleep"; usleep(40000); g_progress++; POLL_PACKETS(-1, 0); POLL_RECON(); if (npk == n0_ || now_ms() - t0_ > 1500) break; }
            }
        }
    }
    int early = (cs->stop_after >= 0);
    if (!early) {
        EbBufferHeaderType eos; memset(&eos, 0, sizeof eos);
        eos.size = sizeof eos; eos.flags = EB_BUFFERFLAG_EOS; eos.p_buffer = NULL; eos.pic_type = EB_AV1_INVALID_PICTURE;
        g_where = "send_picture(EOS)";
        rc = svt_av1_enc_send_picture(h, &eos); g_progress++;
        EV("{\"t\":\"eos\",\"rc\":%d}", (int)rc);
        if (cs->frames > 0) {
            /* drain: interleave recon polling with packet polling so that an unfetched recon pool cannot stall us;
             * final blocking waits only when nothing is pending on the recon side */
            while (!eos_pkt && !err_pkt) {
                POLL_RECON();
                POLL_PACKETS(-1, 0);
                if (eos_pkt || err_pkt) break;
                if (!recon_on || eos_rec) { POLL_PACKETS(1, 1); }
                else { g_where = "drain-wait"; usleep(2000); }
            }
            double tr = now_ms();
            while (recon_on && !eos_rec && now_ms() - tr < 20000) { POLL_RECON(); if (!eos_rec) usleep(2000); }
            /* nothing may follow the EOS packet */
            usleep(20000);
            { int before = npk; int save = eos_pkt; eos_pkt = 0; POLL_PACKETS(-1, 0); if (npk != before) EV("{\"t\":\"extra_after_eos\",\"n\":%d}", npk - before); eos_pkt = save; }
        } else {
            /* N == 0: no packet is expected; poll for a bounded window */
            double tr = now_ms();
            while (now_ms() - tr < 300) { POLL_PACKETS(-1, 0); usleep(2000); }
        }
    } else {
        int want = cs->stop_get_packets; double tr = now_ms();
        while (npk < want && now_ms() - tr < 500) { POLL_PACKETS(want - npk, 0); POLL_RECON(); usleep(1000); }
    }
    fprintf(jf, "]");
    if (pass == 1) {
        SvtAv1FixedBuf fb; memset(&fb, 0, sizeof fb);
        g_where = "get_stream_info";
        rc = svt_av1_enc_get_stream_info(h, SVT_AV1_STREAM_INFO_FIRST_PASS_STATS_OUT, &fb);
        fprintf(jf, ",\"rc_stream_info\":%d,\"stats_sz\":%llu", (int)rc, (unsigned long long)fb.sz);
        if (rc == EB_ErrorNone && fb.sz) { stats->buf = malloc(fb.sz); memcpy(stats->buf, fb.buf, fb.sz); stats->sz = fb.sz; }
    }
    double t1 = now_ms();
    g_where = "phase-barrier(drained)"; ph_wait(1);
    PH_LOCK();
    g_where = "deinit";
    rc = svt_av1_enc_deinit(h); g_progress++;
    fprintf(jf, ",\"rc_deinit\":%d", (int)rc);
    g_where = "deinit_handle";
    rc = svt_av1_enc_deinit_handle(h); g_progress++;
    PH_UNLOCK();
    struct mallinfo2 mi1 = mallinfo2();
#ifdef SVT_AV1_VERIF
    fprintf(jf, ",\"sched_events\":%llu", (unsigned long long)svt_verif_sched_event_count());
#endif
    fprintf(jf, ",\"rc_deinit_handle\":%d,\"threads_after\":%d,\"heap_after\":%zu,\"npk\":%d,\"nrec\":%d,\"eos_pkt\":%d,\"eos_rec\":%d,\"err_pkt\":%d,\"sent\":%d,\"w\":%d,\"h\":%d,\"bd\":%d,\"enc_ms\":%.1f,\"teardown_ms\":%.1f}",
            (int)rc, count_threads(), (size_t)mi1.uordblks, npk, nrec, eos_pkt, eos_rec, err_pkt, sent, w, hgt, bd, t1 - t0, now_ms() - t1);
    g_where = "after-session";
    inpic_free(&ip); free(pl[0]); free(pl[1]); free(pl[2]); free(rb.p_buffer); free(cfg);
    return 0;
}

#ifdef __has_feature
#if __has_feature(address_sanitizer)
#define HAVE_LSAN 1
#endif
#endif
#ifdef __SANITIZE_ADDRESS__
#define HAVE_LSAN 1
#endif
#ifdef HAVE_LSAN
int __lsan_do_recoverable_leak_check(void);
#endif

static void *case_thread(void *arg) {
    Case *cs = arg;
    char p[600];
    snprintf(p, sizeof p, "%s.json", cs->out); cs->jf = fopen(p, "w");
    if (!cs->jf) { perror(p); return (void *)5; }
    if (cs->start_delay_us) usleep(cs->start_delay_us);
    if (cs->is_dec) {
        fprintf(cs->jf, "{\"dec\":");
        svtdec_run(cs->dec_stream, cs->dec_threads, cs->dec_16bit, 0, cs->out, cs->jf, &g_progress);
        fprintf(cs->jf, "}\n"); fclose(cs->jf);
        return NULL;
    }
    snprintf(p, sizeof p, "%s.pkt", cs->out); cs->pf = fopen(p, "wb");
    snprintf(p, sizeof p, "%s.rec", cs->out); cs->rf = fopen(p, "wb");
    if (cs->dump_input) { snprintf(p, sizeof p, "%s.in", cs->out); cs->inf = fopen(p, "wb"); }
    fprintf(cs->jf, "{\"sessions\":[");
    long ret = 0;
    for (int rep = 0; rep < cs->repeat; rep++) {
        if (rep) fprintf(cs->jf, ",");
        if (cs->twopass) {
            Stats st = {0, 0};
            ret = run_session(cs, 1, &st, rep);
            fprintf(cs->jf, ",");
            if (!ret) ret = run_session(cs, 2, &st, rep); else fprintf(cs->jf, "{\"skipped\":1}");
            free(st.buf);
        } else ret = run_session(cs, 0, NULL, rep);
        if (cs->repeat > 1) { /* later repetitions overwrite the output files: only the last is compared */
            if (rep + 1 < cs->repeat) { rewind(cs->pf); rewind(cs->rf); if (ftruncate(fileno(cs->pf), 0) || ftruncate(fileno(cs->rf), 0)) {} }
        }
    }
    fprintf(cs->jf, "]");
#ifdef HAVE_LSAN
    if (g_ncases == 1) { int lk = __lsan_do_recoverable_leak_check(); fprintf(cs->jf, ",\"lsan_leak\":%d", lk); }
#endif
    fprintf(cs->jf, ",\"done\":1}\n");
    fclose(cs->jf); fclose(cs->pf); fclose(cs->rf); if (cs->inf) fclose(cs->inf);
    return (void *)ret;
}

/* watchdog: deadlock signature = no API progress AND (almost) no CPU time consumed for a window */
static void *watchdog(void *arg) {
    (void)arg;
    double win = getenv("SVTDRV_DEADLOCK_S") ? atof(getenv("SVTDRV_DEADLOCK_S")) : 20.0;
    double maxidle = getenv("SVTDRV_MAXIDLE_S") ? atof(getenv("SVTDRV_MAXIDLE_S")) : 900.0;
    long last = -1; double tlast = now_ms(); double cpu_at = 0;
    struct timespec c;
    clock_gettime(CLOCK_PROCESS_CPUTIME_ID, &c); cpu_at = c.tv_sec + c.tv_nsec / 1e9;
    double tcpu = now_ms();
    while (!g_done) {
        usleep(200000);
        long p = g_progress;
        double t = now_ms();
        clock_gettime(CLOCK_PROCESS_CPUTIME_ID, &c);
        double cpu = c.tv_sec + c.tv_nsec / 1e9;
        if (p != last) { last = p; tlast = t; cpu_at = cpu; tcpu = t; continue; }
        /* no API-level progress since tlast; the blocking get_packet after EOS is the documented wait, during which
         * the library keeps burning CPU; so look at CPU time over a sliding window */
        if (t - tcpu >= win * 1000) {
            if (cpu - cpu_at < 0.02 * win) {
                for (int i = 0; i < g_ncases; i++) {
                    char pth[600]; snprintf(pth, sizeof pth, "%s.hang", g_cases[i]->out);
                    FILE *f = fopen(pth, "w");
                    if (f) { fprintf(f, "{\"hang\":\"deadlock\",\"where\":\"%s\",\"idle_s\":%.1f,\"threads\":%d}\n", (const char *)g_where, (t - tlast) / 1e3, count_threads()); fclose(f); }
                }
#ifdef SVT_AV1_VERIF
                svt_verif_srm_trace_flush(); svt_verif_seg_trace_flush();
#endif
                _exit(3);
            }
            cpu_at = cpu; tcpu = t;
        }
        if (t - tlast > maxidle * 1000) {
            for (int i = 0; i < g_ncases; i++) {
                char pth[600]; snprintf(pth, sizeof pth, "%s.hang", g_cases[i]->out);
                FILE *f = fopen(pth, "w");
                if (f) { fprintf(f, "{\"hang\":\"slow\",\"where\":\"%s\",\"idle_s\":%.1f}\n", (const char *)g_where, (t - tlast) / 1e3); fclose(f); }
            }
            _exit(4);
        }
    }
    return NULL;
}

int main(int argc, char **argv) {
    if (argc < 2) { fprintf(stderr, "usage: svtdrv case.txt [case2.txt ...]\n"); return 5; }
    if (!getenv("SVTDRV_KEEP_NICE")) drop_nice_cap();
    g_ncases = argc - 1; if (g_ncases > 8) g_ncases = 8;
    for (int i = 0; i < g_ncases; i++) {
        g_cases[i] = calloc(1, sizeof(Case));
        if (parse_case(g_cases[i], argv[i + 1])) return 5;
        g_cases[i]->instance = i;
    }
    if (getenv("SVTDRV_PHASED") && g_ncases > 1) {
        for (int i = 0; i < g_ncases; i++) if (!g_cases[i]->is_dec && !g_cases[i]->twopass && g_cases[i]->repeat <= 1) ph_participants++;
        ph_enabled = ph_participants > 1;
    }
    pthread_t wd; pthread_create(&wd, NULL, watchdog, NULL);
    long ret = 0;
    if (g_ncases == 1) ret = (long)case_thread(g_cases[0]);
    else {
        pthread_t th[8];
        for (int i = 0; i < g_ncases; i++) pthread_create(&th[i], NULL, case_thread, g_cases[i]);
        for (int i = 0; i < g_ncases; i++) { void *r; pthread_join(th[i], &r); if (r) ret = (long)r; }
    }
    g_done = 1; pthread_join(wd, NULL);
    return ret == 5 ? 5 : 0;
}
