/* apidrv — executes a script of public API calls, one per line, in one process (C12, C14, C15).
 * usage: apidrv <script.txt> <out.jsonl>
 * Each executed call appends one JSON line {"i":k,"op":..,"rc":..} and is flushed before the next call, so a crash or a
 * blocked call is attributable to call k+1.  A watchdog turns "call k blocks with the process idle" into exit 3 + a
 * {"blocked":k} line; the documented blocking wait (enc_get_packet done=1 after EOS) is given a longer allowance.
 *
 * script ops (N = NULL argument, V = valid):
 *   enc_init_handle <N|V handle-ptr> <N|V cfg>          enc_set_param <N|V h> <N|V cfg> [field=value ...] [field[i]=value]
 *   enc_batch_param [field=value ...]                   (fresh handle, set_parameter, deinit_handle; for C12)
 *   enc_init <N|V>          enc_stream_header <N|V h> <N|V out>      enc_stream_header_release <N|V>
 *   enc_send <N|V h> <N|V|E buf>  (E = EOS buffer)      enc_get_packet <N|V h> <N|V out> <0|1>
 *   enc_release <N|V|Z>  (Z = pointer to a NULL pointer)  enc_get_recon <N|V h> <N|V buf>
 *   enc_stream_info <N|V h> <id> <N|V info>             enc_eos_nal <N|V h> <N|V out>
 *   enc_deinit <N|V>        enc_deinit_handle <N|V>
 *   dec_init_handle <N|V> <N|V>   dec_set_param <N|V h> <N|V cfg> [threads=n]   dec_init <N|V>
 *   dec_frame <N|V h> <N|V|G data> <size> (V = the k-th TU of stream file given by 'stream <path>', G = garbage bytes)
 *   dec_get_picture <N|V h> <N|V buf> <N|V si> <N|V fi>    dec_deinit <N|V>   dec_deinit_handle <N|V>
 *   stream <path>     threads_snapshot       leakcheck
 */
#define _GNU_SOURCE
#include <dirent.h>
#include <pthread.h>
#include <stdint.h>
#include <stdio.h>
#include <stdlib.h>
#include <string.h>
#include <time.h>
#include <unistd.h>
#include "EbSvtAv1Enc.h"
#include "EbSvtAv1Dec.h"
#include "content.h"

#ifdef __has_feature
#if __has_feature(address_sanitizer)
#define HAVE_LSAN 1
#endif
#endif
#ifdef __SANITIZE_ADDRESS__
#define HAVE_LSAN 1
#endif
#ifdef HAVE_LSAN
int __lsan_do_recoverable_leak_check(void);
#endif

static volatile long g_call = -1;
static volatile int  g_in_call = 0, g_allow_long = 0, g_done = 0;
static FILE *g_out;

static double now_s(void) { struct timespec ts; clock_gettime(CLOCK_MONOTONIC, &ts); return ts.tv_sec + ts.tv_nsec / 1e9; }
static int count_threads(void) {
    int n = 0; DIR *d = opendir("/proc/self/task"); struct dirent *e;
    if (!d) return -1;
    while ((e = readdir(d))) if (e->d_name[0] != '.') n++;
    closedir(d); return n;
}
static void *watchdog(void *a) {
    (void)a;
    long last = -2; double t0 = now_s(), cpu0 = 0; struct timespec c;
    double lim = getenv("APIDRV_BLOCK_S") ? atof(getenv("APIDRV_BLOCK_S")) : 8.0;
    while (!g_done) {
        usleep(100000);
        clock_gettime(CLOCK_PROCESS_CPUTIME_ID, &c);
        double cpu = c.tv_sec + c.tv_nsec / 1e9, t = now_s();
        if (g_call != last || !g_in_call) { last = g_call; t0 = t; cpu0 = cpu; continue; }
        double allow = g_allow_long ? lim * 6 : lim;
        if (t - t0 > allow) {
            if (cpu - cpu0 < 0.02 * (t - t0)) {
                fprintf(g_out, "{\"blocked\":%ld,\"idle_s\":%.1f,\"threads\":%d}\n", g_call, t - t0, count_threads()); fflush(g_out);
                _exit(3);
            }
            if (t - t0 > allow * 10) { fprintf(g_out, "{\"slow\":%ld}\n", g_call); fflush(g_out); _exit(4); }
        }
    }
    return NULL;
}

#define IS_SIGNED(x) (((__typeof__(x))-1) < (__typeof__(x))1 ? 1 : 0)
static int set_int_field(void *p, size_t sz, long long v) {
    switch (sz) { case 1: *(uint8_t *)p = (uint8_t)v; return 0; case 2: *(uint16_t *)p = (uint16_t)v; return 0;
                  case 4: *(uint32_t *)p = (uint32_t)v; return 0; case 8: *(uint64_t *)p = (uint64_t)v; return 0; }
    return -1;
}
static int cfg_set(EbSvtAv1EncConfiguration *c, const char *name, int idx, long long v) {
#define F(n) if (!strcmp(name, #n)) return set_int_field(&c->n, sizeof(c->n), v);
#define FA(n, cnt) if (!strcmp(name, #n)) { if (idx < 0 || idx >= (int)(cnt)) return -1; return set_int_field(&c->n[idx], sizeof(c->n[0]), v); }
#include "cfg_fields.inc"
#undef F
#undef FA
    if (!strcmp(name, "pred_struct.decode_order") && idx >= 0 && idx < 32) { c->pred_struct[idx].decode_order = (uint32_t)v; return 0; }
    if (!strcmp(name, "pred_struct.temporal_layer_index") && idx >= 0 && idx < 32) { c->pred_struct[idx].temporal_layer_index = (uint32_t)v; return 0; }
    if (!strncmp(name, "pred_struct.ref_list0_", 22) && idx >= 0 && idx < 32) { int j = atoi(name + 22); if (j >= 0 && j < 4) { c->pred_struct[idx].ref_list0[j] = (int32_t)v; return 0; } }
    if (!strncmp(name, "pred_struct.ref_list1_", 22) && idx >= 0 && idx < 32) { int j = atoi(name + 22); if (j >= 0 && j < 4) { c->pred_struct[idx].ref_list1[j] = (int32_t)v; return 0; } }
    if (!strcmp(name, "rc_twopass_stats_in.sz")) { c->rc_twopass_stats_in.sz = (uint64_t)v; return 0; }
    return -2;
}
static int apply_overrides(EbSvtAv1EncConfiguration *c, char *rest) {
    int bad = 0;
    for (char *t = strtok(rest, " "); t; t = strtok(NULL, " ")) {
        char *eq = strchr(t, '='); if (!eq) continue;
        *eq = 0; int idx = -1; char *br = strchr(t, '[');
        if (br) { *br = 0; idx = atoi(br + 1); }
        if (cfg_set(c, t, idx, strtoll(eq + 1, NULL, 10))) bad++;
    }
    return bad;
}

typedef struct { uint8_t **tu; uint32_t *sz; int n; } TuList;
static int tulist_load(const char *path, TuList *l) {
    FILE *f = fopen(path, "rb"); if (!f) return -1;
    l->n = 0; int cap = 64; l->tu = malloc(cap * sizeof(void *)); l->sz = malloc(cap * sizeof(uint32_t));
    uint8_t hdr[4];
    while (fread(hdr, 1, 4, f) == 4) {
        uint32_t s = hdr[0] | hdr[1] << 8 | hdr[2] << 16 | (uint32_t)hdr[3] << 24;
        if (l->n == cap) { cap *= 2; l->tu = realloc(l->tu, cap * sizeof(void *)); l->sz = realloc(l->sz, cap * sizeof(uint32_t)); }
        uint8_t *b = malloc(s ? s : 1); /* exact size: an over-read of the packet is visible to ASan */
        if (s && fread(b, 1, s, f) != s) { free(b); break; }
        l->tu[l->n] = b; l->sz[l->n] = s; l->n++;
    }
    fclose(f); return 0;
}

int main(int argc, char **argv) {
    if (argc < 3) return 5;
    FILE *sf = fopen(argv[1], "r"); g_out = fopen(argv[2], "w");
    if (!sf || !g_out) return 5;
    pthread_t wd; pthread_create(&wd, NULL, watchdog, NULL);
    EbComponentType *eh = NULL, *dh = NULL;
    EbSvtAv1EncConfiguration *ecfg = calloc(1, sizeof *ecfg);
    EbSvtAv1EncConfiguration *ecfg_default = calloc(1, sizeof *ecfg);
    EbSvtAv1DecConfiguration *dcfg = calloc(1, sizeof *dcfg);
    EbBufferHeaderType *sh = NULL, *pkt = NULL;
    int w = 64, h = 64, bd = 8, sent = 0, eos_sent = 0, dec_k = 0;
    TuList tl; memset(&tl, 0, sizeof tl);
    /* decoder output */
    EbBufferHeaderType dob; EbSvtIOFormat dio; EbAV1StreamInfo dsi; EbAV1FrameInfo dfi;
    memset(&dob, 0, sizeof dob); memset(&dio, 0, sizeof dio); memset(&dsi, 0, sizeof dsi); memset(&dfi, 0, sizeof dfi);
    dio.luma = malloc(16); dio.cb = malloc(16); dio.cr = malloc(16); dio.color_fmt = EB_YUV420; dio.bit_depth = EB_EIGHT_BIT;
    dob.size = sizeof dob; dob.p_buffer = (uint8_t *)&dio;
    char *line = NULL; size_t cap = 0; long i = 0;
    while (getline(&line, &cap, sf) > 0) {
        line[strcspn(line, "\n")] = 0;
        char op[64], a1[16] = "", a2[16] = "", a3[16] = "", a4[16] = ""; int off = 0;
        if (sscanf(line, "%63s %n", op, &off) < 1 || op[0] == '#') continue;
        char *rest = line + off;
        long long rc = 0; int has_rc = 1; char extra[256] = "";
        g_call = i; g_allow_long = 0; g_in_call = 1;
        if (!strcmp(op, "enc_init_handle")) {
            sscanf(rest, "%15s %15s", a1, a2);
            if (a1[0] == 'N' || a2[0] == 'N') { /* NULL-argument variant: never touch the live session's handle */
                EbComponentType *tmp = NULL;
                rc = svt_av1_enc_init_handle(a1[0] == 'N' ? NULL : &tmp, NULL, a2[0] == 'N' ? NULL : ecfg);
                if (tmp) { snprintf(extra, sizeof extra, ",\"handle_returned\":1"); svt_av1_enc_deinit_handle(tmp); }
            } else {
                rc = svt_av1_enc_init_handle(&eh, NULL, ecfg);
                if (rc == 0) memcpy(ecfg_default, ecfg, sizeof *ecfg);
            }
        } else if (!strcmp(op, "enc_cfg_reset")) {
            has_rc = 0; memcpy(ecfg, ecfg_default, sizeof *ecfg);
        } else if (!strcmp(op, "enc_set_param")) {
            int n = 0; sscanf(rest, "%15s %15s %n", a1, a2, &n);
            int bad = apply_overrides(ecfg, rest + n);
            if (bad) snprintf(extra, sizeof extra, ",\"badfields\":%d", bad);
            w = ecfg->source_width; h = ecfg->source_height; bd = ecfg->encoder_bit_depth;
            rc = svt_av1_enc_set_parameter(a1[0] == 'N' ? NULL : eh, a2[0] == 'N' ? NULL : ecfg);
        } else if (!strcmp(op, "enc_batch_param")) {
            EbComponentType *bh = NULL; EbSvtAv1EncConfiguration *bc = calloc(1, sizeof *bc);
            rc = svt_av1_enc_init_handle(&bh, NULL, bc);
            if (rc == 0) {
                int bad = apply_overrides(bc, rest);
                if (bad) snprintf(extra, sizeof extra, ",\"badfields\":%d", bad);
                rc = svt_av1_enc_set_parameter(bh, bc);
                long long r2 = svt_av1_enc_deinit_handle(bh);
                if (r2) snprintf(extra + strlen(extra), sizeof extra - strlen(extra), ",\"rc_deinit_handle\":%lld", r2);
            } else snprintf(extra, sizeof extra, ",\"init_handle_failed\":1");
            free(bc);
        } else if (!strcmp(op, "enc_init")) {
            sscanf(rest, "%15s", a1); rc = svt_av1_enc_init(a1[0] == 'N' ? NULL : eh);
        } else if (!strcmp(op, "enc_stream_header")) {
            sscanf(rest, "%15s %15s", a1, a2);
            rc = svt_av1_enc_stream_header(a1[0] == 'N' ? NULL : eh, a2[0] == 'N' ? NULL : &sh);
            if (a2[0] != 'N' && rc == 0 && sh) snprintf(extra, sizeof extra, ",\"len\":%u", sh->n_filled_len);
        } else if (!strcmp(op, "enc_stream_header_release")) {
            sscanf(rest, "%15s", a1); rc = svt_av1_enc_stream_header_release(a1[0] == 'N' ? NULL : sh);
            if (a1[0] != 'N') sh = NULL;
        } else if (!strcmp(op, "enc_eos_nal")) {
            sscanf(rest, "%15s %15s", a1, a2); EbBufferHeaderType *o = NULL;
            rc = svt_av1_enc_eos_nal(a1[0] == 'N' ? NULL : eh, a2[0] == 'N' ? NULL : &o);
        } else if (!strcmp(op, "enc_send")) {
            sscanf(rest, "%15s %15s", a1, a2);
            EbBufferHeaderType hb; EbSvtIOFormat io; memset(&hb, 0, sizeof hb); memset(&io, 0, sizeof io);
            uint16_t *pl[3]; uint8_t *mem[3] = {0, 0, 0};
            hb.size = sizeof hb; hb.pic_type = EB_AV1_INVALID_PICTURE;
            if (a2[0] == 'E') { hb.flags = EB_BUFFERFLAG_EOS; hb.p_buffer = NULL; eos_sent = 1; }
            else if (a2[0] == 'V') {
                ContentDesc cd = {5, 7, 50, 2, 0};
                int bps = bd > 8 ? 2 : 1;
                for (int p = 0; p < 3; p++) pl[p] = malloc((size_t)w * h * 2 + 16);
                content_frame(&cd, sent, w, h, bd, pl);
                for (int p = 0; p < 3; p++) {
                    size_t ns = (size_t)(p ? w / 2 : w) * (p ? h / 2 : h);
                    mem[p] = malloc(ns * bps + 16);
                    for (size_t k = 0; k < ns; k++) { if (bps == 1) mem[p][k] = (uint8_t)pl[p][k]; else { mem[p][2 * k] = pl[p][k] & 255; mem[p][2 * k + 1] = pl[p][k] >> 8; } }
                    free(pl[p]);
                }
                io.luma = mem[0]; io.cb = mem[1]; io.cr = mem[2]; io.y_stride = w; io.cb_stride = io.cr_stride = w / 2;
                io.width = w; io.height = h; io.color_fmt = EB_YUV420; io.bit_depth = bd;
                hb.p_buffer = (uint8_t *)&io; hb.pts = sent; hb.n_filled_len = hb.n_alloc_len = w * h * 3 / 2 * bps;
                hb.p_app_private = (void *)(intptr_t)(0x1000 + sent);
            }
            rc = svt_av1_enc_send_picture(a1[0] == 'N' ? NULL : eh, a2[0] == 'N' ? NULL : &hb);
            if (a1[0] != 'N' && a2[0] == 'V') sent++;
            for (int p = 0; p < 3; p++) free(mem[p]);
        } else if (!strcmp(op, "enc_get_packet")) {
            int done = 0; sscanf(rest, "%15s %15s %d", a1, a2, &done);
            if (done && eos_sent) g_allow_long = 1;
            EbBufferHeaderType *pk = NULL;
            rc = svt_av1_enc_get_packet(a1[0] == 'N' ? NULL : eh, a2[0] == 'N' ? NULL : &pk, (uint8_t)done);
            if (pk) { snprintf(extra, sizeof extra, ",\"size\":%u,\"flags\":%u,\"pts\":%lld", pk->n_filled_len, pk->flags, (long long)pk->pts); pkt = pk; }
        } else if (!strcmp(op, "enc_release")) {
            sscanf(rest, "%15s", a1); has_rc = 0;
            if (a1[0] == 'N') svt_av1_enc_release_out_buffer(NULL);
            else if (a1[0] == 'Z') { EbBufferHeaderType *z = NULL; svt_av1_enc_release_out_buffer(&z); }
            else if (pkt) { svt_av1_enc_release_out_buffer(&pkt); pkt = NULL; }
        } else if (!strcmp(op, "enc_get_recon")) {
            sscanf(rest, "%15s %15s", a1, a2);
            EbBufferHeaderType rb; memset(&rb, 0, sizeof rb); rb.size = sizeof rb;
            size_t rsz = (size_t)w * h * 3 / 2 * (bd > 8 ? 2 : 1); rb.p_buffer = malloc(rsz + 64); rb.n_alloc_len = (uint32_t)rsz;
            rc = svt_av1_get_recon(a1[0] == 'N' ? NULL : eh, a2[0] == 'N' ? NULL : &rb);
            free(rb.p_buffer);
        } else if (!strcmp(op, "enc_stream_info")) {
            int id = 1; sscanf(rest, "%15s %d %15s", a1, &id, a3); SvtAv1FixedBuf fb; memset(&fb, 0, sizeof fb);
            rc = svt_av1_enc_get_stream_info(a1[0] == 'N' ? NULL : eh, (uint32_t)id, a3[0] == 'N' ? NULL : &fb);
        } else if (!strcmp(op, "enc_deinit")) {
            sscanf(rest, "%15s", a1); rc = svt_av1_enc_deinit(a1[0] == 'N' ? NULL : eh);
        } else if (!strcmp(op, "enc_deinit_handle")) {
            sscanf(rest, "%15s", a1); rc = svt_av1_enc_deinit_handle(a1[0] == 'N' ? NULL : eh);
            if (a1[0] != 'N') { eh = NULL; sent = 0; eos_sent = 0; }
        } else if (!strcmp(op, "dec_init_handle")) {
            sscanf(rest, "%15s %15s", a1, a2);
            if (a1[0] == 'N' || a2[0] == 'N') {
                EbComponentType *tmp = NULL;
                rc = svt_av1_dec_init_handle(a1[0] == 'N' ? NULL : &tmp, NULL, a2[0] == 'N' ? NULL : dcfg);
                if (tmp) { snprintf(extra, sizeof extra, ",\"handle_returned\":1"); svt_av1_dec_deinit_handle(tmp); }
            } else rc = svt_av1_dec_init_handle(&dh, NULL, dcfg);
        } else if (!strcmp(op, "dec_set_param")) {
            int n = 0; sscanf(rest, "%15s %15s %n", a1, a2, &n);
            for (char *t = strtok(rest + n, " "); t; t = strtok(NULL, " ")) {
                if (!strncmp(t, "threads=", 8)) dcfg->threads = atoi(t + 8);
                if (!strncmp(t, "is_16bit_pipeline=", 18)) dcfg->is_16bit_pipeline = atoi(t + 18);
            }
            dcfg->max_color_format = EB_YUV420; dcfg->max_bit_depth = EB_EIGHT_BIT; dcfg->num_p_frames = 1;
            rc = svt_av1_dec_set_parameter(a1[0] == 'N' ? NULL : dh, a2[0] == 'N' ? NULL : dcfg);
        } else if (!strcmp(op, "dec_init")) {
            sscanf(rest, "%15s", a1); rc = svt_av1_dec_init(a1[0] == 'N' ? NULL : dh);
        } else if (!strcmp(op, "dec_frame")) {
            int size = -1; sscanf(rest, "%15s %15s %d", a1, a2, &size);
            const uint8_t *data = NULL; size_t dsz = 0; uint8_t *g = NULL;
            if (a2[0] == 'V' && dec_k < tl.n) { data = tl.tu[dec_k]; dsz = tl.sz[dec_k]; if (a1[0] != 'N') dec_k++; }
            else if (a2[0] == 'G') { dsz = size > 0 ? size : 64; g = malloc(dsz + 32); for (size_t k = 0; k < dsz + 32; k++) g[k] = (uint8_t)(vmix(i, k, 1, 2)); data = g; }
            if (a2[0] == 'N') dsz = size > 0 ? size : 0;
            rc = svt_av1_dec_frame(a1[0] == 'N' ? NULL : dh, data, dsz, 0);
            free(g);
        } else if (!strcmp(op, "dec_get_picture")) {
            sscanf(rest, "%15s %15s %15s %15s", a1, a2, a3, a4);
            rc = svt_av1_dec_get_picture(a1[0] == 'N' ? NULL : dh, a2[0] == 'N' ? NULL : &dob, a3[0] == 'N' ? NULL : &dsi, a4[0] == 'N' ? NULL : &dfi);
        } else if (!strcmp(op, "dec_deinit")) {
            sscanf(rest, "%15s", a1); rc = svt_av1_dec_deinit(a1[0] == 'N' ? NULL : dh);
        } else if (!strcmp(op, "dec_deinit_handle")) {
            sscanf(rest, "%15s", a1); rc = svt_av1_dec_deinit_handle(a1[0] == 'N' ? NULL : dh);
            if (a1[0] != 'N') { dh = NULL; dec_k = 0; }
        } else if (!strcmp(op, "stream")) {
            has_rc = 0;
            for (int q = 0; q < tl.n; q++) free(tl.tu[q]);
            free(tl.tu); free(tl.sz); memset(&tl, 0, sizeof tl);
            rc = tulist_load(rest, &tl); dec_k = 0;
            snprintf(extra, sizeof extra, ",\"tus\":%d", tl.n);
        } else if (!strcmp(op, "threads_snapshot")) {
            has_rc = 0; usleep(20000); snprintf(extra, sizeof extra, ",\"threads\":%d", count_threads());
        } else if (!strcmp(op, "leakcheck")) {
            has_rc = 0;
#ifdef HAVE_LSAN
            snprintf(extra, sizeof extra, ",\"lsan_leak\":%d", __lsan_do_recoverable_leak_check());
#else
            snprintf(extra, sizeof extra, ",\"lsan_leak\":-1");
#endif
        } else { has_rc = 0; snprintf(extra, sizeof extra, ",\"unknown\":1"); }
        g_in_call = 0;
        if (has_rc) fprintf(g_out, "{\"i\":%ld,\"op\":\"%s\",\"rc\":%lld%s}\n", i, op, rc & 0xFFFFFFFFll, extra);
        else fprintf(g_out, "{\"i\":%ld,\"op\":\"%s\"%s}\n", i, op, extra);
        fflush(g_out);
        i++;
    }
    g_done = 1;
    free(dio.luma); free(dio.cb); free(dio.cr); dio.luma = dio.cb = dio.cr = NULL;
    fprintf(g_out, "{\"done\":1,\"threads\":%d}\n", count_threads()); fclose(g_out);
    return 0;
}
