/* C25 harness, writer side: the encoder's real range coder (EbBitstreamUnit.c) behind a tiny C interface */
#include <stdlib.h>
#include <string.h>
#include "EbDefinitions.h"
#include "EbCabacContextModel.h"
#include "EbBitstreamUnit.h"
typedef struct { AomWriter w; uint8_t *buf; size_t cap; int done; } W;
void *ecw_new(int allow_update, size_t cap) {
    W *x = calloc(1, sizeof *x); x->buf = malloc(cap); x->cap = cap;
    aom_start_encode(&x->w, x->buf); x->w.allow_update_cdf = (uint8_t)allow_update; return x;
}
void ecw_symbol(void *p, int s, uint16_t *cdf, int n) { aom_write_symbol(&((W *)p)->w, s, cdf, n); }
void ecw_bool8(void *p, int bit, int prob) { aom_write(&((W *)p)->w, bit, prob); }
void ecw_boolq15(void *p, int bit, unsigned f) { svt_od_ec_encode_bool_q15(&((W *)p)->w.ec, bit, f); }
void ecw_literal(void *p, int v, int bits) { aom_write_literal(&((W *)p)->w, v, bits); }
int  ecw_tell(void *p) { return svt_od_ec_enc_tell(&((W *)p)->w.ec); }
/* returns number of bytes; *out points at them */
int ecw_done(void *p, uint8_t **out) { W *x = p; aom_stop_encode(&x->w); x->done = 1; /* stop_encode already clears the coder */ *out = x->buf; return (int)x->w.pos; }
void ecw_free(void *p) { W *x = p; if (!x->done) svt_od_ec_enc_clear(&x->w.ec); free(x->buf); free(x); }
void ecw_update_cdf(uint16_t *cdf, int val, int n) { update_cdf(cdf, val, n); }
