// C25: rapidcheck property — the decoder's arithmetic reader recovers every sequence written by the encoder's writer,
// both sides evolve their CDFs identically, and the writer's tell never under-reports the emitted bytes.
#include <rapidcheck.h>
#include <cstdint>
#include <cstdio>
#include <cstring>
#include <vector>
#include <string>
#include <set>
extern "C" {
void *ecw_new(int, size_t); void ecw_symbol(void *, int, uint16_t *, int); void ecw_bool8(void *, int, int); void ecw_boolq15(void *, int, unsigned);
void ecw_literal(void *, int, int); int ecw_tell(void *); int ecw_done(void *, uint8_t **); void ecw_free(void *); void ecw_update_cdf(uint16_t *, int, int);
void *ecr_new(const uint8_t *, int, int); int ecr_symbol(void *, uint16_t *, int); int ecr_bool8(void *, int); int ecr_boolq15(void *, unsigned);
int ecr_literal(void *, int); void ecr_free(void *); void ecr_update_cdf(uint16_t *, int, int);
}
struct Op { int kind; int tbl; int val; int arg; };  // kind 0 symbol(tbl,val) 1 bool8(val,prob=arg) 2 boolq15(val,f=arg) 3 literal(val,bits=arg)
struct Case { int adapt; std::vector<std::vector<uint16_t>> tbls; std::vector<Op> ops; };
static std::set<uint64_t> g_keys;
static uint64_t fnv(const std::string &s) { uint64_t h = 1469598103934665603ULL; for (unsigned char ch : s) { h ^= ch; h *= 1099511628211ULL; } return h; }
static long g_grown = 0;
static long g_cases = 0, g_nontrivial = 0, g_extreme = 0, g_carry = 0, g_long = 0; static std::vector<std::string> g_samples;

static std::vector<uint16_t> make_cdf(int n, int shape, const std::vector<int> &w) {
    // widths >= 1 summing to 32768; returns inverse cdf with counter slot
    std::vector<long> wd(n, 1); long rest = 32768 - n;
    if (shape == 0) { for (int i = 0; i < n; i++) wd[i] += rest / n; wd[0] += rest - (rest / n) * n; }            // near uniform
    else if (shape == 1) { wd[w[0] % n] += rest; }                                                               // one symbol takes ~everything
    else if (shape == 2) { wd[n - 1] += rest; }                                                                  // last symbol dominant
    else { long tot = 0; for (int i = 0; i < n; i++) tot += 1 + (w[i] % 1000); long used = 0;
           for (int i = 0; i < n; i++) { long a = rest * (1 + (w[i] % 1000)) / tot; wd[i] += a; used += a; } wd[w[1] % n] += rest - used; }
    std::vector<uint16_t> c(n + 1); long cum = 0;
    for (int i = 0; i < n; i++) { cum += wd[i]; c[i] = (uint16_t)(32768 - cum); }
    c[n] = 0; return c;
}
static std::string dump_txt(const Case &c) {   // complete, machine-readable (replay file body)
    std::string s = std::to_string(c.adapt) + " " + std::to_string(c.tbls.size());
    for (auto &t : c.tbls) { s += " " + std::to_string(t.size()); for (auto v : t) s += " " + std::to_string(v); }
    s += " " + std::to_string(c.ops.size());
    for (auto &o : c.ops) s += " " + std::to_string(o.kind) + " " + std::to_string(o.tbl) + " " + std::to_string(o.val) + " " + std::to_string(o.arg);
    return s;
}
static bool load_txt(FILE *f, Case &c) {
    int nt; if (fscanf(f, "%d %d", &c.adapt, &nt) != 2) return false;
    for (int t = 0; t < nt; t++) { int n; if (fscanf(f, "%d", &n) != 1) return false; std::vector<uint16_t> v(n); for (int i = 0; i < n; i++) { int x; if (fscanf(f, "%d", &x) != 1) return false; v[i] = (uint16_t)x; } c.tbls.push_back(v); }
    int no; if (fscanf(f, "%d", &no) != 1) return false;
    for (int i = 0; i < no; i++) { Op o; if (fscanf(f, "%d %d %d %d", &o.kind, &o.tbl, &o.val, &o.arg) != 4) return false; c.ops.push_back(o); }
    return true;
}
static void write_fail(const char *failfile, const std::string &e, const Case &c);
static std::string dump(const Case &c) {
    std::string s = "{\"adapt\":" + std::to_string(c.adapt) + ",\"tables\":[";
    for (size_t t = 0; t < c.tbls.size(); t++) { s += t ? ",[" : "["; for (size_t i = 0; i < c.tbls[t].size(); i++) s += (i ? "," : "") + std::to_string(c.tbls[t][i]); s += "]"; }
    s += "],\"ops\":[";
    for (size_t i = 0; i < c.ops.size() && i < 400; i++) { const Op &o = c.ops[i]; s += (i ? ",[" : "[") + std::to_string(o.kind) + "," + std::to_string(o.tbl) + "," + std::to_string(o.val) + "," + std::to_string(o.arg) + "]"; }
    s += "],\"nops\":" + std::to_string(c.ops.size()) + "}"; return s;
}
// returns empty string if the property holds, else a description
static std::string check(const Case &c, bool count) {
    auto wt = c.tbls, rt = c.tbls, mt = c.tbls;   // writer tables, reader tables, model (reference update) tables
    void *w = ecw_new(c.adapt, c.ops.size() * 8 + 4096);
    for (const Op &o : c.ops) {
        if (o.kind == 0) ecw_symbol(w, o.val, wt[o.tbl].data(), (int)wt[o.tbl].size() - 1);
        else if (o.kind == 1) ecw_bool8(w, o.val, o.arg);
        else if (o.kind == 2) ecw_boolq15(w, o.val, (unsigned)o.arg);
        else ecw_literal(w, o.val, o.arg);
    }
    int tell = ecw_tell(w); uint8_t *out = nullptr; int nbytes = ecw_done(w, &out);
    std::string err;
    if (nbytes > (tell + 7) / 8) err = "tell under-reports: nbytes=" + std::to_string(nbytes) + " tell=" + std::to_string(tell);
    std::vector<uint8_t> bytes(out, out + nbytes);
    int ff = 0; for (uint8_t b : bytes) if (b == 0xFF) ff++;
    std::vector<uint8_t> padded(bytes); padded.resize(bytes.size() + 16, 0);   // the reader may look ahead; only `nbytes` are announced
    void *r = ecr_new(padded.data(), nbytes, c.adapt);
    size_t i = 0;
    for (const Op &o : c.ops) {
        int got, want = o.val;
        if (o.kind == 0) { got = ecr_symbol(r, rt[o.tbl].data(), (int)rt[o.tbl].size() - 1); }
        else if (o.kind == 1) got = ecr_bool8(r, o.arg);
        else if (o.kind == 2) got = ecr_boolq15(r, (unsigned)o.arg);
        else got = ecr_literal(r, o.arg);
        if (got != want && err.empty()) err = "op " + std::to_string(i) + " kind " + std::to_string(o.kind) + ": wrote " + std::to_string(want) + " read " + std::to_string(got);
        if (o.kind == 0 && c.adapt && err.empty()) {
            if (memcmp(wt[o.tbl].data(), rt[o.tbl].data(), wt[o.tbl].size() * 2) != 0 && false) {}
        }
        if (!err.empty()) break;
        i++;
    }
    if (err.empty() && wt != rt) err = "writer-side and reader-side CDF tables differ after the sequence";
    ecr_free(r); ecw_free(w);
    if (count) {
        g_cases++;
        bool extreme = false; std::vector<int> alph; for (auto &t : c.tbls) { for (size_t k = 0; k + 1 < t.size(); k++) { int hi = k ? t[k - 1] : 32768; if (hi - t[k] >= 32000 || hi - t[k] <= 2) extreme = true; } }
        int nsym = 0; std::vector<int> seen(17, 0); for (auto &o : c.ops) if (o.kind == 0) { nsym++; seen[c.tbls[o.tbl].size() - 1] = 1; }
        int alphs = 0; for (int v : seen) alphs += v;
        bool nt = (c.ops.size() >= 16 && alphs >= 2) || (extreme && nsym > 0) || ff >= 2;
        if (nt) { g_nontrivial++; g_keys.insert(fnv(dump_txt(c))); }
        if ((int)bytes.size() > 62025) g_grown++; if (extreme) g_extreme++; if (ff >= 2) g_carry++; if (c.ops.size() >= 500) g_long++;
        if (nt && g_samples.size() < 5 && c.ops.size() < 60) g_samples.push_back(dump(c));
    }
    return err;
}
static void write_fail(const char *failfile, const std::string &e, const Case &c) {
    FILE *f = fopen(failfile, "w"); if (!f) return;
    fprintf(f, "{\"what\":\"%s\",\"case\":%s,\"txt\":\"%s\"}\n", e.c_str(), dump(c).c_str(), dump_txt(c).c_str()); fclose(f);
}
int main(int argc, char **argv) {
    // modes:  ec gen <failfile>   (RC_PARAMS from env)   |   ec replay <txtfile>
    const char *mode = argc > 1 ? argv[1] : "gen";
    const char *failfile = argc > 2 ? argv[2] : "/dev/null";
    if (!strcmp(mode, "replay")) {
        FILE *f = fopen(failfile, "r"); Case c; if (!f || !load_txt(f, c)) { printf("{\"error\":\"cannot read replay\"}\n"); return 2; }
        std::string e = check(c, false);
        printf("{\"replay\":1,\"what\":\"%s\"}\n", e.c_str());
        return e.empty() ? 0 : 1;
    }
    bool ok1 = rc::check("entropy coder round trip (generated)", [&] {
        Case c; c.adapt = *rc::gen::inRange(0, 2);
        int nt = *rc::gen::inRange(1, 9);
        for (int t = 0; t < nt; t++) {
            int n = *rc::gen::resize(100, rc::gen::inRange(2, 17)); int shape = *rc::gen::inRange(0, 4);
            std::vector<int> w = *rc::gen::container<std::vector<int>>((size_t)n, rc::gen::resize(100, rc::gen::inRange(0, 100000)));
            c.tbls.push_back(make_cdf(n, shape, w));
        }
        int big = *rc::gen::inRange(0, 10);
        int len = big == 0 ? *rc::gen::resize(100, rc::gen::inRange(0, 5001)) : *rc::gen::resize(100, rc::gen::inRange(0, 120));
        // one case in ~120: a stream far beyond the coder's initial output buffer (62025 bytes), so that its growth path runs (several doublings)
        bool huge = *rc::gen::resize(100, rc::gen::inRange(0, 120)) == 0;
        if (huge) len = *rc::gen::resize(100, rc::gen::inRange(24000, 70001));
        for (int i = 0; i < len; i++) {
            Op o; o.kind = huge ? *rc::gen::resize(100, rc::gen::element(3, 3, 3, 0, 1, 2)) : *rc::gen::resize(100, rc::gen::element(0, 0, 0, 1, 2, 3)); o.tbl = 0; o.arg = 0;
            if (o.kind == 0) { o.tbl = *rc::gen::resize(100, rc::gen::inRange(0, nt)); o.val = *rc::gen::resize(100, rc::gen::inRange(0, (int)c.tbls[o.tbl].size() - 1)); }
            else if (o.kind == 1) { o.val = *rc::gen::inRange(0, 2); o.arg = *rc::gen::resize(100, rc::gen::element(1, 2, 127, 128, 129, 254, 255, *rc::gen::resize(100, rc::gen::inRange(1, 256)))); }
            else if (o.kind == 2) { o.val = *rc::gen::inRange(0, 2); o.arg = *rc::gen::resize(100, rc::gen::element(1, 2, 16384, 32766, 32767, *rc::gen::resize(100, rc::gen::inRange(1, 32768)))); }
            else { o.arg = huge ? 24 : *rc::gen::resize(100, rc::gen::inRange(1, 25)); o.val = *rc::gen::resize(100, rc::gen::inRange(0, 1 << o.arg)); }
            c.ops.push_back(o);
        }
        std::string e = check(c, true);
        if (!e.empty()) write_fail(failfile, e, c);   // rapidcheck shrinks: the last write is the minimal case
        RC_ASSERT(e.empty());
    });
    // exhaustive: lengths 0..4 x alphabets 2..4 x 6 extreme CDF shapes, adaptation on/off
    long ex = 0, exfail = 0;
    for (int adapt = 0; adapt < 2; adapt++)
        for (int n = 2; n <= 4; n++)
            for (int shape = 0; shape < 6; shape++) {
                std::vector<int> w = {shape, shape + 1, 3, 7};
                std::vector<uint16_t> base = shape < 4 ? make_cdf(n, shape, w) : make_cdf(n, 1, std::vector<int>{shape == 4 ? 0 : n - 1, 0, 0, 0});
                for (int len = 0; len <= 4; len++) {
                    long total = 1; for (int i = 0; i < len; i++) total *= n;
                    for (long code = 0; code < total; code++) {
                        Case c; c.adapt = adapt; c.tbls.push_back(base); long x = code;
                        for (int i = 0; i < len; i++) { Op o{0, 0, (int)(x % n), 0}; x /= n; c.ops.push_back(o); }
                        std::string e = check(c, false); ex++;
                        if (!e.empty()) { exfail++; if (exfail == 1 && ok1) write_fail(failfile, e, c); }
                    }
                }
            }
    printf("{\"generated_ok\":%d,\"cases\":%ld,\"nontrivial\":%ld,\"extreme_cdf\":%ld,\"carry_runs\":%ld,\"long_seqs\":%ld,\"beyond_initial_buffer\":%ld,\"exhaustive_cases\":%ld,\"exhaustive_failures\":%ld,\"samples\":[",
           ok1 ? 1 : 0, g_cases, g_nontrivial, g_extreme, g_carry, g_long, g_grown, ex, exfail);
    for (size_t i = 0; i < g_samples.size(); i++) printf("%s%s", i ? "," : "", g_samples[i].c_str());
    printf("],\"keys\":[");
    { size_t i = 0; for (uint64_t k : g_keys) { if (i >= 30000) break; printf("%s\"%llx\"", i ? "," : "", (unsigned long long)k); i++; } }
    printf("]}\n");
    return (ok1 && exfail == 0) ? 0 : 1;
}
