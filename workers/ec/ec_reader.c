/* C25 harness, reader side: the decoder's arithmetic reader (header-inline in EbDecBitReader.h / EbDecBitstreamUnit.h) */
#include <stdlib.h>
#include <string.h>
#include "EbDefinitions.h"
#include "EbDecBitReader.h"
typedef struct { SvtReader r; } R;
void *ecr_new(const uint8_t *buf, int n, int allow_update) { R *x = calloc(1, sizeof *x); svt_reader_init(&x->r, buf, (size_t)n); x->r.allow_update_cdf = (uint8_t)allow_update; return x; }
int ecr_symbol(void *p, uint16_t *cdf, int n) { return svt_read_symbol(&((R *)p)->r, cdf, n, 0); }
int ecr_bool8(void *p, int prob) { return svt_read(&((R *)p)->r, prob, 0); }
int ecr_boolq15(void *p, unsigned f) { return od_ec_decode_bool_q15(&((R *)p)->r.ec, f); }
int ecr_literal(void *p, int bits) { return svt_read_literal(&((R *)p)->r, bits, 0); }
void ecr_free(void *p) { free(p); }
void ecr_update_cdf(uint16_t *cdf, int val, int n) { dec_update_cdf(cdf, (int8_t)val, n); }
