// C10 libFuzzer target: the SVT-AV1 decoder must survive arbitrary bytes.
//
// Input layout (structure-aware decode so that the fuzzer reaches the decoder logic instead of dying in framing):
//   byte 0      flags: bit0 = Annex-B framing (is_annexb), bit1 = is_16bit_pipeline, bit2 = call get_picture only at the end
//   then chunks [u16 little-endian length][bytes]; every chunk is handed to svt_av1_dec_frame() in its own EXACT-SIZE heap
//   buffer (so a read past data+size is an ASan report); a final short chunk takes whatever is left.
// Oracle (inside the target): every API call returns; no ASan / UBSan report (sanitizers abort); after any error the handle still
// accepts get_picture, deinit, deinit_handle; LeakSanitizer watches the teardown.  A fresh handle per input: nothing leaks
// between iterations (the decoder's globals are reset by its own constructor).
// The custom mutator is OBU-aware (keeps leb128 sizes consistent while mutating payloads, splices/duplicates/drops OBUs) and falls
// back to plain byte mutation a quarter of the time.
#include <stdint.h>
#include <stdio.h>
#include <stdlib.h>
#include <string.h>
#include <unistd.h>
#include <vector>
#include <string>
extern "C" {
#include "EbSvtAv1Dec.h"
#ifdef SVT_AV1_VERIF
void svt_verif_dec_tool_stats(uint64_t *out, int reset);
#endif
size_t LLVMFuzzerMutate(uint8_t *Data, size_t Size, size_t MaxSize);
}

static unsigned long g_execs, g_block_level, g_err_after_seq, g_pictures, g_rc_ok, g_rc_err, g_inputs_with_picture;
static void dump_stats(void) {
    const char *p = getenv("FZ_STATS");
    if (!p) return;
    char path[700]; snprintf(path, sizeof path, "%s.%d", p, (int)getpid());
    FILE *f = fopen(path, "w"); if (!f) return;
    fprintf(f, "{\"execs\":%lu,\"block_level\":%lu,\"error_after_sequence_header\":%lu,\"pictures\":%lu,\"inputs_with_picture\":%lu,\"frames_ok\":%lu,\"frames_err\":%lu}\n",
            g_execs, g_block_level, g_err_after_seq, g_pictures, g_inputs_with_picture, g_rc_ok, g_rc_err);
    fclose(f);
}

struct Chunks { uint8_t flags; std::vector<std::vector<uint8_t>> c; };
static Chunks split(const uint8_t *data, size_t size) {
    Chunks k; k.flags = size ? data[0] : 0;
    size_t pos = size ? 1 : 0;
    while (pos < size) {
        if (pos + 2 > size) { k.c.emplace_back(data + pos, data + size); break; }
        size_t n = data[pos] | (data[pos + 1] << 8); pos += 2;
        if (n > size - pos) n = size - pos;
        k.c.emplace_back(data + pos, data + pos + n); pos += n;
        if (k.c.size() >= 64) break;
    }
    return k;
}
static std::vector<uint8_t> join(const Chunks &k) {
    std::vector<uint8_t> o; o.push_back(k.flags);
    for (auto &c : k.c) { size_t n = c.size() > 65535 ? 65535 : c.size(); o.push_back(n & 255); o.push_back(n >> 8); o.insert(o.end(), c.begin(), c.begin() + n); }
    return o;
}

extern "C" int LLVMFuzzerTestOneInput(const uint8_t *data, size_t size) {
    static int once = (atexit(dump_stats), 0); (void)once;
    if (size < 1) return 0;
    Chunks k = split(data, size);
    EbComponentType *h = NULL; EbSvtAv1DecConfiguration cfg; memset(&cfg, 0, sizeof cfg);
    if (svt_av1_dec_init_handle(&h, NULL, &cfg) != EB_ErrorNone || !h) return 0;
    cfg.threads = 1; cfg.is_16bit_pipeline = (k.flags >> 1) & 1; cfg.skip_film_grain = 0; cfg.num_p_frames = 1;
    cfg.max_bit_depth = EB_EIGHT_BIT; cfg.max_color_format = EB_YUV420; cfg.eight_bit_output = 0;
    if (svt_av1_dec_set_parameter(h, &cfg) != EB_ErrorNone || svt_av1_dec_init(h) != EB_ErrorNone) { svt_av1_dec_deinit(h); svt_av1_dec_deinit_handle(h); return 0; }
    EbBufferHeaderType ob; memset(&ob, 0, sizeof ob);
    EbSvtIOFormat io; memset(&io, 0, sizeof io);
    io.luma = (uint8_t *)malloc(16); io.cb = (uint8_t *)malloc(16); io.cr = (uint8_t *)malloc(16); io.color_fmt = EB_YUV420; io.bit_depth = EB_EIGHT_BIT;
    ob.size = sizeof ob; ob.p_buffer = (uint8_t *)&io;
    EbAV1StreamInfo si; EbAV1FrameInfo fi; memset(&si, 0, sizeof si); memset(&fi, 0, sizeof fi);
    int annexb = k.flags & 1, late = (k.flags >> 2) & 1, seen_ok = 0, err_after = 0; unsigned long pics = 0;
    for (auto &c : k.c) {
        uint8_t *buf = (uint8_t *)malloc(c.size() ? c.size() : 1);      // exact size: over-reads are visible
        if (!c.empty()) memcpy(buf, c.data(), c.size());
        EbErrorType r = svt_av1_dec_frame(h, buf, c.size(), annexb);
        if (r == EB_ErrorNone) { g_rc_ok++; seen_ok = 1; } else { g_rc_err++; if (seen_ok) err_after = 1; }
        if (!late) { if (svt_av1_dec_get_picture(h, &ob, &si, &fi) == EB_ErrorNone) pics++; }
        free(buf);
    }
    if (late) { for (int i = 0; i < 3; i++) if (svt_av1_dec_get_picture(h, &ob, &si, &fi) == EB_ErrorNone) pics++; }
#ifdef SVT_AV1_VERIF
    { uint64_t st[16]; svt_verif_dec_tool_stats(st, 1); if (st[0] > 0) g_block_level++; }
#endif
    svt_av1_dec_deinit(h);
    svt_av1_dec_deinit_handle(h);
    free(io.luma); free(io.cb); free(io.cr);
    g_execs++; g_pictures += pics; if (pics) g_inputs_with_picture++; if (err_after) g_err_after_seq++;
    if ((g_execs & 255) == 0) dump_stats();
    return 0;
}

// ---------------------------------------------------------------- OBU-aware mutator
struct Obu { std::vector<uint8_t> hdr; std::vector<uint8_t> payload; bool has_size; };
static size_t leb_read(const std::vector<uint8_t> &d, size_t pos, uint64_t *v) {
    *v = 0; size_t i = 0;
    for (; i < 8 && pos + i < d.size(); i++) { *v |= (uint64_t)(d[pos + i] & 0x7f) << (7 * i); if (!(d[pos + i] & 0x80)) return i + 1; }
    return 0;
}
static void leb_write(std::vector<uint8_t> &o, uint64_t v) { do { uint8_t b = v & 0x7f; v >>= 7; o.push_back(b | (v ? 0x80 : 0)); } while (v); }
static bool parse_obus(const std::vector<uint8_t> &d, std::vector<Obu> &out) {   // low-overhead framing only
    size_t pos = 0;
    while (pos < d.size()) {
        Obu o; uint8_t b0 = d[pos]; int ext = (b0 >> 2) & 1; o.has_size = (b0 >> 1) & 1;
        if (pos + 1 + ext > d.size()) return false;
        o.hdr.assign(d.begin() + pos, d.begin() + pos + 1 + ext); pos += 1 + ext;
        uint64_t sz;
        if (o.has_size) { size_t l = leb_read(d, pos, &sz); if (!l) return false; pos += l; if (sz > d.size() - pos) return false; }
        else sz = d.size() - pos;
        o.payload.assign(d.begin() + pos, d.begin() + pos + sz); pos += sz;
        out.push_back(o);
        if (out.size() > 64) return false;
    }
    return !out.empty();
}
static std::vector<uint8_t> emit_obus(const std::vector<Obu> &v) {
    std::vector<uint8_t> o;
    for (auto &u : v) { o.insert(o.end(), u.hdr.begin(), u.hdr.end()); if (u.has_size) leb_write(o, u.payload.size()); o.insert(o.end(), u.payload.begin(), u.payload.end()); }
    return o;
}
static uint32_t rnd(uint32_t *s) { *s ^= *s << 13; *s ^= *s >> 17; *s ^= *s << 5; return *s; }

extern "C" size_t LLVMFuzzerCustomMutator(uint8_t *Data, size_t Size, size_t MaxSize, unsigned int Seed) {
    uint32_t s = Seed * 2654435761u + 1;
    if (Size < 4 || (rnd(&s) & 3) == 0) return LLVMFuzzerMutate(Data, Size, MaxSize);
    Chunks k = split(Data, Size);
    if (k.c.empty() || (k.flags & 1)) {   // Annex-B inputs: byte-level only (plus occasional flag flips below)
        if ((rnd(&s) & 7) == 0) { Data[0] ^= 1u << (rnd(&s) % 3); return Size; }
        return LLVMFuzzerMutate(Data, Size, MaxSize);
    }
    size_t ci = rnd(&s) % k.c.size();
    std::vector<Obu> obus;
    if (!parse_obus(k.c[ci], obus)) return LLVMFuzzerMutate(Data, Size, MaxSize);
    size_t oi = rnd(&s) % obus.size();
    switch (rnd(&s) % 9) {
    case 0: case 1: case 2: {   // mutate one OBU payload with libFuzzer's own mutators, size field follows
        Obu &u = obus[oi]; size_t cap = u.payload.size() + 64; std::vector<uint8_t> tmp(cap);
        if (!u.payload.empty()) memcpy(tmp.data(), u.payload.data(), u.payload.size());
        size_t n = LLVMFuzzerMutate(tmp.data(), u.payload.size(), cap); tmp.resize(n); u.payload.swap(tmp); break; }
    case 3: {                   // flip a few bits near the start of the payload (uncompressed header region)
        Obu &u = obus[oi]; if (u.payload.empty()) break; size_t lim = u.payload.size() < 24 ? u.payload.size() : 24;
        for (int i = 0, n = 1 + rnd(&s) % 3; i < n; i++) u.payload[rnd(&s) % lim] ^= 1u << (rnd(&s) & 7); break; }
    case 4: obus.insert(obus.begin() + oi, obus[oi]); break;                       // duplicate an OBU
    case 5: if (obus.size() > 1) obus.erase(obus.begin() + oi); break;              // drop an OBU
    case 6: {                   // move an OBU to another chunk (splice across temporal units)
        size_t cj = rnd(&s) % k.c.size(); std::vector<Obu> other;
        if (cj != ci && parse_obus(k.c[cj], other)) { other.insert(other.begin() + rnd(&s) % (other.size() + 1), obus[oi]); k.c[cj] = emit_obus(other); } break; }
    case 7: {                   // truncate the payload
        Obu &u = obus[oi]; if (!u.payload.empty()) u.payload.resize(rnd(&s) % u.payload.size()); break; }
    default: {                  // corrupt the size field only: keep payload, lie about its length
        Obu &u = obus[oi]; u.has_size = true; std::vector<uint8_t> raw = emit_obus(obus); (void)raw;
        std::vector<uint8_t> o;
        for (size_t i = 0; i < obus.size(); i++) { o.insert(o.end(), obus[i].hdr.begin(), obus[i].hdr.end());
            if (obus[i].has_size) leb_write(o, i == oi ? obus[i].payload.size() + (rnd(&s) % 9) - 4 : obus[i].payload.size());
            o.insert(o.end(), obus[i].payload.begin(), obus[i].payload.end()); }
        k.c[ci] = o; std::vector<uint8_t> all = join(k); if (all.size() > MaxSize) return LLVMFuzzerMutate(Data, Size, MaxSize);
        memcpy(Data, all.data(), all.size()); return all.size(); }
    }
    k.c[ci] = emit_obus(obus);
    if ((rnd(&s) & 15) == 0) k.flags ^= 1u << (1 + rnd(&s) % 2);
    std::vector<uint8_t> all = join(k);
    if (all.size() > MaxSize || all.empty()) return LLVMFuzzerMutate(Data, Size, MaxSize);
    memcpy(Data, all.data(), all.size());
    return all.size();
}
