/* C16 fault-injection harness: fail exactly the k-th allocation / OS-object creation inside one API phase.
 * Linked against the static archive with
 *   -Wl,--wrap=malloc,--wrap=calloc,--wrap=realloc,--wrap=posix_memalign,--wrap=pthread_create,--wrap=sem_init,
 *       --wrap=pthread_mutex_init,--wrap=pthread_cond_init
 * so every such call made by library code is routed through the shims below (calls from the harness itself are made
 * outside a phase and are never failed).  Only calls on the API-calling thread are counted: the order is then a pure
 * function of the configuration (library worker threads run concurrently during/after init).
 *
 * usage: fi <enc|dec> count                       -> JSON: calls per phase and per kind
 *        fi <enc|dec> fail <phase> <k> [stream]   -> JSON: what the failing API call returned, teardown outcome, leaks
 * phases (enc): 0 init_handle 1 set_parameter 2 init      (dec): 0 init_handle 1 set_parameter 2 init 3 first dec_frame
 */
#define _GNU_SOURCE
#include <dlfcn.h>
#include <errno.h>
#include <execinfo.h>
#include <pthread.h>
#include <semaphore.h>
#include <stdint.h>
#include <stdio.h>
#include <stdlib.h>
#include <string.h>
#include <unistd.h>
#ifdef FI_DEC
#include "EbSvtAv1Dec.h"
#else
#include "EbSvtAv1Enc.h"
#endif

void *__real_malloc(size_t); void *__real_calloc(size_t, size_t); void *__real_realloc(void *, size_t);
int __real_posix_memalign(void **, size_t, size_t);
int __real_pthread_create(pthread_t *, const pthread_attr_t *, void *(*)(void *), void *);
int __real_sem_init(sem_t *, int, unsigned);
int __real_pthread_mutex_init(pthread_mutex_t *, const pthread_mutexattr_t *);
int __real_pthread_cond_init(pthread_cond_t *, const pthread_condattr_t *);
int __lsan_do_recoverable_leak_check(void);

static __thread int t_main = 0;          /* 1 on the API-calling thread */
static volatile int g_phase = -1;        /* current API phase, -1 outside */
static int g_fail_phase = -2; static long g_fail_k = -1;
static long g_count[8]; static long g_kind[8][8];
static int g_fired = 0; static int g_fired_kind = -1;
static const char *KIND[8] = {"malloc", "calloc", "realloc", "posix_memalign", "pthread_create", "sem_init", "pthread_mutex_init", "pthread_cond_init"};

static uintptr_t g_pcs[6]; static int g_npcs = 0;
static void note_site(void) {
    /* raw return addresses relative to the executable's load base; the Python side symbolises them (static functions
     * are invisible to dladdr).  bt[0]=note_site bt[1]=hit bt[2]=__wrap_x bt[3..]=library frames */
    void *bt[12]; int n = backtrace(bt, 12);
    Dl_info di; uintptr_t base = 0;
    if (dladdr((void *)&note_site, &di)) base = (uintptr_t)di.dli_fbase;
    for (int i = 3; i < n && g_npcs < 6; i++) g_pcs[g_npcs++] = (uintptr_t)bt[i] - base - 1;
}
/* trace mode (FI_TRACE=<file>): one line "phase k kind pc" per counted creation, pc = library call site relative to the load base */
static FILE *g_trace = NULL; static uintptr_t g_base = 0;
static void trace_call(int kind, long k) {
    void *bt[6]; int ph = g_phase; g_phase = -1;
    int n = backtrace(bt, 6);
    if (!g_base) { Dl_info di; if (dladdr((void *)&trace_call, &di)) g_base = (uintptr_t)di.dli_fbase; }
    /* bt[0]=trace_call bt[1]=hit bt[2]=__wrap_x bt[3]=library caller */
    fprintf(g_trace, "%d %ld %d %lu %lu\n", ph, k, kind, n > 3 ? (unsigned long)((uintptr_t)bt[3] - g_base - 1) : 0UL, n > 4 ? (unsigned long)((uintptr_t)bt[4] - g_base - 1) : 0UL);
    g_phase = ph;
}
/* returns 1 if this call must fail */
static int hit(int kind) {
    if (!t_main || g_phase < 0) return 0;
    long k = ++g_count[g_phase]; g_kind[g_phase][kind]++;
    if (g_trace) trace_call(kind, k);
    if (g_phase == g_fail_phase && k == g_fail_k && !g_fired) {
        g_fired = 1; g_fired_kind = kind;
        int ph = g_phase; g_phase = -1;        /* backtrace/dladdr may allocate: not counted */
        note_site();
        g_phase = ph;
        return 1;
    }
    return 0;
}
void *__wrap_malloc(size_t n) { if (hit(0)) { errno = ENOMEM; return NULL; } return __real_malloc(n); }
void *__wrap_calloc(size_t a, size_t b) { if (hit(1)) { errno = ENOMEM; return NULL; } return __real_calloc(a, b); }
void *__wrap_realloc(void *p, size_t n) { if (hit(2)) { errno = ENOMEM; return NULL; } return __real_realloc(p, n); }
int __wrap_posix_memalign(void **p, size_t a, size_t n) { if (hit(3)) return ENOMEM; return __real_posix_memalign(p, a, n); }
int __wrap_pthread_create(pthread_t *t, const pthread_attr_t *a, void *(*f)(void *), void *x) { if (hit(4)) return EAGAIN; return __real_pthread_create(t, a, f, x); }
int __wrap_sem_init(sem_t *s, int sh, unsigned v) { if (hit(5)) { errno = ENOSPC; return -1; } return __real_sem_init(s, sh, v); }
int __wrap_pthread_mutex_init(pthread_mutex_t *m, const pthread_mutexattr_t *a) { if (hit(6)) return ENOMEM; return __real_pthread_mutex_init(m, a); }
int __wrap_pthread_cond_init(pthread_cond_t *c, const pthread_condattr_t *a) { if (hit(7)) return ENOMEM; return __real_pthread_cond_init(c, a); }

static int count_threads(void) {
    int n = 0; FILE *f = fopen("/proc/self/status", "r"); char ln[256];
    if (!f) return -1;
    while (fgets(ln, sizeof ln, f)) if (!strncmp(ln, "Threads:", 8)) n = atoi(ln + 8);
    fclose(f); return n;
}
static volatile const char *g_where = "start";
static void *watchdog(void *a) { (void)a; sleep(40); printf("{\"hang\":\"%s\",\"fired\":%d,\"pcs\":[%lu,%lu,%lu,%lu]}\n", (const char *)g_where, g_fired, (unsigned long)g_pcs[0], (unsigned long)g_pcs[1], (unsigned long)g_pcs[2], (unsigned long)g_pcs[3]); fflush(stdout); _exit(7); return NULL; }

#define PHASE(p, call) do { g_where = #call; g_phase = (p); rc[p] = (int)(call); g_phase = -1; ran[p] = 1; } while (0)

int main(int argc, char **argv) {
    if (argc < 3) { fprintf(stderr, "usage\n"); return 5; }
    int counting = !strcmp(argv[2], "count");
    if (!counting) { g_fail_phase = atoi(argv[3]); g_fail_k = atol(argv[4]); }
    pthread_t wd; __real_pthread_create(&wd, NULL, watchdog, NULL);
    if (getenv("FI_TRACE")) { void *w[2]; backtrace(w, 2); /* load libgcc's unwinder outside any phase */ g_trace = fopen(getenv("FI_TRACE"), "w"); }
    t_main = 1;
    int rc[4] = {0, 0, 0, 0}, ran[4] = {0, 0, 0, 0};
    int threads0 = count_threads();
    int rc_deinit = -99, rc_deinit_handle = -99;
#ifdef FI_DEC
    EbComponentType *h = NULL; EbSvtAv1DecConfiguration cfg; memset(&cfg, 0, sizeof cfg);
    PHASE(0, svt_av1_dec_init_handle(&h, NULL, &cfg));
    if (rc[0] == 0 && h) {
        cfg.threads = getenv("FI_DEC_THREADS") ? atoi(getenv("FI_DEC_THREADS")) : 1; cfg.num_p_frames = 1; cfg.max_bit_depth = EB_EIGHT_BIT; cfg.max_color_format = EB_YUV420; cfg.eight_bit_output = 0;
        PHASE(1, svt_av1_dec_set_parameter(h, &cfg));
        if (rc[1] == 0) {
            PHASE(2, svt_av1_dec_init(h));
            if (rc[2] == 0 && argc > 5) {
                FILE *f = fopen(argv[5], "rb"); uint8_t hd[4];
                if (f && fread(hd, 1, 4, f) == 4) {
                    uint32_t s = hd[0] | hd[1] << 8 | hd[2] << 16 | (uint32_t)hd[3] << 24; uint8_t *b = __real_malloc(s + 32); memset(b, 0, s + 32);
                    if (fread(b, 1, s, f) == s) PHASE(3, svt_av1_dec_frame(h, b, s, 0));
                    free(b);
                }
                if (f) fclose(f);
            }
            g_where = "dec_deinit"; rc_deinit = (int)svt_av1_dec_deinit(h);
        }
        g_where = "dec_deinit_handle"; rc_deinit_handle = (int)svt_av1_dec_deinit_handle(h);
    }
#else
    EbComponentType *h = NULL; EbSvtAv1EncConfiguration cfg;
    PHASE(0, svt_av1_enc_init_handle(&h, NULL, &cfg));
    if (rc[0] == 0 && h) {
        cfg.source_width = 64; cfg.source_height = 64; cfg.enc_mode = 8; cfg.hierarchical_levels = 0;
        cfg.logical_processors = getenv("FI_LP") ? atoi(getenv("FI_LP")) : 1; cfg.recon_enabled = getenv("FI_RECON") ? 1 : 0;
        if (getenv("FI_10BIT")) cfg.encoder_bit_depth = 10;
        PHASE(1, svt_av1_enc_set_parameter(h, &cfg));
        if (rc[1] == 0) {
            PHASE(2, svt_av1_enc_init(h));
            g_where = "enc_deinit"; rc_deinit = (int)svt_av1_enc_deinit(h);
        }
        g_where = "enc_deinit_handle"; rc_deinit_handle = (int)svt_av1_enc_deinit_handle(h);
    }
#endif
    g_where = "after-teardown";
    usleep(20000);
    int threads1 = count_threads();
    int leak = 0;
    t_main = 0;
    fflush(stdout);
    leak = __lsan_do_recoverable_leak_check();
    printf("{\"counting\":%d,\"calls\":[%ld,%ld,%ld,%ld],\"rc\":[%d,%d,%d,%d],\"ran\":[%d,%d,%d,%d],\"fired\":%d,\"kind\":\"%s\",\"pcs\":[%lu,%lu,%lu,%lu],\"rc_deinit\":%d,\"rc_deinit_handle\":%d,"
           "\"threads_before\":%d,\"threads_after\":%d,\"leak\":%d,\"kinds\":[",
           counting, g_count[0], g_count[1], g_count[2], g_count[3], rc[0], rc[1], rc[2], rc[3], ran[0], ran[1], ran[2], ran[3], g_fired, g_fired_kind >= 0 ? KIND[g_fired_kind] : "",
           (unsigned long)g_pcs[0], (unsigned long)g_pcs[1], (unsigned long)g_pcs[2], (unsigned long)g_pcs[3], rc_deinit, rc_deinit_handle, threads0, threads1, leak);
    for (int p = 0; p < 4; p++) { printf("%s[", p ? "," : ""); for (int k = 0; k < 8; k++) printf("%s%ld", k ? "," : "", g_kind[p][k]); printf("]"); }
    printf("],\"done\":1}\n");
    fflush(stdout);
    if (g_trace) fclose(g_trace);
    _exit(0);
}
