/* SVT-AV1 decoder runner shared by refdec and svtdrv (C17).  Stream container ".tu": repeated
 * [u32 little-endian size][size bytes] = one temporal unit per record.
 * Output: <out>.<tag>.yuv16 = for each output picture Y,U,V planes tight, 16-bit LE samples.
 * JSON fragment written to jf. */
#ifndef SVTDEC_INC_H
#define SVTDEC_INC_H
#include <stdint.h>
#include <stdio.h>
#include <stdlib.h>
#include <string.h>
#include "EbSvtAv1Dec.h"
#ifdef SVT_AV1_VERIF
extern void svt_verif_dec_tool_stats(uint64_t *out, int reset);
#endif

typedef struct { uint8_t **tu; uint32_t *sz; int n; } TuList;

static int tulist_load(const char *path, TuList *l) {
    FILE *f = fopen(path, "rb");
    if (!f) return -1;
    l->n = 0; int cap = 64;
    l->tu = malloc(cap * sizeof(void *)); l->sz = malloc(cap * sizeof(uint32_t));
    uint8_t hdr[4];
    while (fread(hdr, 1, 4, f) == 4) {
        uint32_t s = hdr[0] | hdr[1] << 8 | hdr[2] << 16 | (uint32_t)hdr[3] << 24;
        if (l->n == cap) { cap *= 2; l->tu = realloc(l->tu, cap * sizeof(void *)); l->sz = realloc(l->sz, cap * sizeof(uint32_t)); }
        /* exact-size heap buffer: any read past the packet end is visible to ASan */
        uint8_t *b = malloc(s ? s : 1);
        if (s && fread(b, 1, s, f) != s) { free(b); break; }
        l->tu[l->n] = b; l->sz[l->n] = s; l->n++;
    }
    fclose(f);
    return 0;
}
static void tulist_free(TuList *l) { for (int i = 0; i < l->n; i++) free(l->tu[i]); free(l->tu); free(l->sz); }

static void write_plane16(FILE *f, const uint8_t *p, int stride_samples, int w, int h, int hbd) {
    uint16_t *row = malloc(sizeof(uint16_t) * (w > 0 ? w : 1));
    for (int y = 0; y < h; y++) {
        if (hbd) { const uint16_t *s = (const uint16_t *)p + (size_t)y * stride_samples; for (int x = 0; x < w; x++) row[x] = s[x]; }
        else { const uint8_t *s = p + (size_t)y * stride_samples; for (int x = 0; x < w; x++) row[x] = s[x]; }
        fwrite(row, 2, w, f);
    }
    free(row);
}

/* slack: extra readable bytes appended after each TU (by-construction exclusion of the known over-read) */
static int svtdec_run_ex(const char *stream, int threads, int is16, int annexb, const char *out, FILE *jf,
                         volatile long *progress, int slack, int start_tu, int skip_deinit) {
    TuList l; if (tulist_load(stream, &l)) { fprintf(jf, "{\"error\":\"open\"}"); return -1; }
    EbComponentType *h = NULL; EbSvtAv1DecConfiguration cfg; memset(&cfg, 0, sizeof cfg);
    EbErrorType rc = svt_av1_dec_init_handle(&h, NULL, &cfg);
    fprintf(jf, "{\"rc_init_handle\":%d", (int)rc);
    if (rc != EB_ErrorNone) { fprintf(jf, "}"); tulist_free(&l); return -1; }
    cfg.threads = threads; cfg.is_16bit_pipeline = is16; cfg.skip_film_grain = 0; cfg.num_p_frames = 1;
    cfg.max_picture_width = 0; cfg.max_picture_height = 0; cfg.max_bit_depth = EB_EIGHT_BIT; cfg.max_color_format = EB_YUV420;
    cfg.eight_bit_output = 0;
    rc = svt_av1_dec_set_parameter(h, &cfg);
    fprintf(jf, ",\"rc_set_parameter\":%d", (int)rc);
    rc = svt_av1_dec_init(h);
    fprintf(jf, ",\"rc_init\":%d", (int)rc);
    char p[600]; snprintf(p, sizeof p, "%s.svt.yuv16", out);
    FILE *of = fopen(p, "wb");
    EbBufferHeaderType ob; memset(&ob, 0, sizeof ob);
    EbSvtIOFormat io; memset(&io, 0, sizeof io);
    io.luma = malloc(16); io.cb = malloc(16); io.cr = malloc(16); io.color_fmt = EB_YUV420; io.bit_depth = EB_EIGHT_BIT;
    ob.size = sizeof ob; ob.p_buffer = (uint8_t *)&io;
    EbAV1StreamInfo si; EbAV1FrameInfo fi; memset(&si, 0, sizeof si); memset(&fi, 0, sizeof fi);
    fprintf(jf, ",\"frames\":[");
    int nout = 0, nerr = 0;
    if (rc == EB_ErrorNone)
        for (int i = start_tu; i < l.n; i++) {
            uint8_t *buf = l.tu[i];
            if (slack) { buf = malloc(l.sz[i] + slack); memcpy(buf, l.tu[i], l.sz[i]); memset(buf + l.sz[i], 0, slack); }
            EbErrorType r = svt_av1_dec_frame(h, buf, l.sz[i], annexb);
            if (progress) (*progress)++;
            if (r != EB_ErrorNone) nerr++;
            EbErrorType g = svt_av1_dec_get_picture(h, &ob, &si, &fi);
            if (g != EB_DecNoOutputPicture && g == EB_ErrorNone) {
                int hbd = io.bit_depth > 8;
                write_plane16(of, io.luma, io.y_stride, io.width, io.height, hbd);
                write_plane16(of, io.cb, io.cb_stride, (io.width + 1) / 2, (io.height + 1) / 2, hbd);
                write_plane16(of, io.cr, io.cr_stride, (io.width + 1) / 2, (io.height + 1) / 2, hbd);
                fprintf(jf, "%s{\"tu\":%d,\"w\":%u,\"h\":%u,\"bd\":%d,\"rc\":%d}", nout ? "," : "", i, io.width, io.height, (int)io.bit_depth, (int)r);
                nout++;
            } else if (r != EB_ErrorNone) {
                fprintf(jf, "%s{\"tu\":%d,\"rc\":%d,\"nopic\":1}", nout ? "," : "", i, (int)r); nout++;
            }
            if (slack) free(buf);
        }
    fprintf(jf, "],\"nerr\":%d", nerr);
#ifdef SVT_AV1_VERIF
    { uint64_t st[16]; svt_verif_dec_tool_stats(st, 1); fprintf(jf, ",\"tools\":[");
      for (int i = 0; i < 14; i++) fprintf(jf, "%s%llu", i ? "," : "", (unsigned long long)st[i]); fprintf(jf, "]"); }
#endif
    fclose(of);
    if (!skip_deinit) {
        rc = svt_av1_dec_deinit(h);
        fprintf(jf, ",\"rc_deinit\":%d", (int)rc);
        rc = svt_av1_dec_deinit_handle(h);
        fprintf(jf, ",\"rc_deinit_handle\":%d", (int)rc);
    }
    fprintf(jf, ",\"done\":1}");
    free(io.luma); free(io.cb); free(io.cr);
    tulist_free(&l);
    return 0;
}
static int svtdec_run(const char *stream, int threads, int is16, int annexb, const char *out, FILE *jf, volatile long *progress) {
    int slack = getenv("SVTDEC_SLACK") ? atoi(getenv("SVTDEC_SLACK")) : 0;
    return svtdec_run_ex(stream, threads, is16, annexb, out, jf, progress, slack, 0, 0);
}
#endif
