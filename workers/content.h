/* Deterministic synthetic picture content.  Pure function of (descriptor, frame index).
 * All planes are produced as tight uint16_t arrays (sample values 0..(1<<bd)-1). */
#ifndef VERIF_CONTENT_H
#define VERIF_CONTENT_H
#include <stdint.h>
#include <stdlib.h>
#include <string.h>

typedef struct {
    int      kind;   /* 0 flat 1 gradient 2 noise 3 waves 4 screen 5 moving/warp 6 extremes 7 mixed */
    uint32_t seed;
    int      amp;    /* 0..100: strength of texture / noise */
    int      motion; /* pixels per frame (pan) ; for kind 5 also drives zoom/rotation */
    int      cut_at; /* scene cut at this frame (<=0: none) */
} ContentDesc;

static inline uint32_t vmix(uint32_t a, uint32_t b, uint32_t c, uint32_t d) {
    uint32_t h = a * 0x9E3779B1u ^ (b + 0x7F4A7C15u) * 0x85EBCA6Bu ^ (c + 0x165667B1u) * 0xC2B2AE35u ^
                 (d + 0x27D4EB2Fu) * 0x2545F491u;
    h ^= h >> 15; h *= 0x2C1B3C6Du; h ^= h >> 12; h *= 0x297A2D39u; h ^= h >> 15;
    return h;
}
/* smooth value noise, lattice 16 px, output 0..255 */
static inline int vnoise(uint32_t seed, int x, int y) {
    int gx = x >> 4, gy = y >> 4, fx = x & 15, fy = y & 15;
    int a = vmix(seed, gx, gy, 1) & 255, b = vmix(seed, gx + 1, gy, 1) & 255;
    int c = vmix(seed, gx, gy + 1, 1) & 255, d = vmix(seed, gx + 1, gy + 1, 1) & 255;
    int top = a * (16 - fx) + b * fx, bot = c * (16 - fx) + d * fx;
    return (top * (16 - fy) + bot * fy) >> 8;
}
static inline int tri(int v, int period) { /* triangle wave 0..255 */
    if (period < 2) period = 2;
    int m = ((v % (2 * period)) + 2 * period) % (2 * period);
    if (m >= period) m = 2 * period - 1 - m;
    return m * 255 / (period - 1 > 0 ? period - 1 : 1);
}
static inline int clampi(int v, int lo, int hi) { return v < lo ? lo : v > hi ? hi : v; }

/* luma-domain sample (0..255) at luma coords x,y in frame f */
static inline int content_sample8(const ContentDesc *c, uint32_t seed, int f, int plane, int x, int y) {
    int amp = c->amp, mo = c->motion;
    switch (c->kind) {
    case 0: /* flat, tiny temporal drift */
        return clampi((int)(vmix(seed, plane, 0, 0) & 255) + ((f * amp) / 50) % 7, 0, 255);
    case 1: { /* gradient panning */
        int a = 1 + (vmix(seed, 1, plane, 0) & 3), b = 1 + (vmix(seed, 2, plane, 0) & 3);
        return ((x + f * mo) * a + y * b + (plane ? 64 * plane : 0)) & 255;
    }
    case 2: { /* noise around mid, amplitude amp%, fresh every frame */
        int r = (int)(vmix(seed, x, y, f * 3 + plane) & 255) - 128;
        return clampi(128 + r * amp / 100, 0, 255);
    }
    case 3: { /* wave mix */
        int p1 = 9 + (vmix(seed, 3, 0, 0) % 40), p2 = 5 + (vmix(seed, 4, 0, 0) % 23);
        int v = (tri(x + f * mo, p1) + tri(y * 2 + x - f * mo / 2, p2) + tri(x - y, 31)) / 3;
        int n = ((int)(vmix(seed, x, y, plane) & 255) - 128) * amp / 400;
        return clampi(plane ? (v / 2 + 64 * plane - 32) + n : v + n, 0, 255);
    }
    case 4: { /* screen-like: few colours, glyph tiles, scrolling text band */
        int sx = x, sy = y + ((y > 24) ? f * mo : 0);
        int tile = vmix(seed, sx >> 3, sy >> 3, 7) % 12; /* glyph id: repeats a lot */
        int bit = (vmix(seed, tile, (sx & 7) | ((sy & 7) << 3), 11) >> 3) & 1;
        int pal[4] = {16, 235, 90, 180};
        int region = (vmix(seed, sx >> 6, sy >> 5, 13) & 3);
        int fg = pal[(region + 1) & 3], bg = pal[region];
        if (plane) { fg = 128 + (region * 20 - 30) * (plane == 1 ? 1 : -1); bg = 128; }
        if ((sy >> 3) % 3 == 2) return bg; /* blank line between text rows */
        return bit ? fg : bg;
    }
    case 5: { /* textured background under a slowly changing affine map + moving rectangles */
        /* fixed point 16.16 affine: zoom 1 + f*mo/512, rotation ~ f*mo/256 rad (small angle) */
        int zo = 65536 + f * mo * 128, ro = f * mo * 200;
        int cx = 64, cy = 48;
        long long dx = x - cx, dy = y - cy;
        int u = (int)((dx * zo - dy * ro) >> 16) + cx + f * (mo / 2);
        int v = (int)((dx * ro + dy * zo) >> 16) + cy;
        int t = vnoise(seed + plane * 977, u, v);
        t = 128 + (t - 128) * (30 + amp) / 100;
        for (int k = 0; k < 3; k++) { /* moving objects */
            int w = 12 + (vmix(seed, k, 21, 0) % 30), h = 10 + (vmix(seed, k, 22, 0) % 24);
            int ox = (int)(vmix(seed, k, 23, 0) % 200) + f * ((int)(vmix(seed, k, 24, 0) % 9) - 4);
            int oy = (int)(vmix(seed, k, 25, 0) % 150) + f * ((int)(vmix(seed, k, 26, 0) % 5) - 2);
            if (x >= ox && x < ox + w && y >= oy && y < oy + h)
                t = (vnoise(seed + k * 31 + plane, (x - ox) * 3, (y - oy) * 3) / 2) + 40 * (k + 1);
        }
        return clampi(t, 0, 255);
    }
    case 6: { /* extremes: checkerboard 0/max, block size from seed, inverted every frame */
        int bs = 1 << (vmix(seed, 5, 0, 0) % 5);
        int on = (((x / bs) + (y / bs) + f) & 1);
        if ((vmix(seed, 6, 0, 0) & 3) == 0) on = (vmix(seed, x / bs, y / bs, f) & 1);
        return on ? 255 : 0;
    }
    default: { /* 7 mixed: left half screen content, right half moving texture, plus noise */
        ContentDesc d = *c;
        d.kind = (x < 48 + ((int)(seed & 31))) ? 4 : 5;
        int v = content_sample8(&d, seed, f, plane, x, y);
        int n = ((int)(vmix(seed, x, y, f + plane) & 255) - 128) * amp / 300;
        return clampi(v + n, 0, 255);
    }
    }
}

/* Fill tight planes (uint16 samples). w,h luma size (even). bd 8 or 10. */
static inline void content_frame(const ContentDesc *c, int f, int w, int h, int bd, uint16_t *pl[3]) {
    uint32_t seed = c->seed;
    if (c->cut_at > 0 && f >= c->cut_at) seed = vmix(seed, 0xC07, 1, 2);
    int maxv = (1 << bd) - 1;
    for (int p = 0; p < 3; p++) {
        int pw = p ? w / 2 : w, ph = p ? h / 2 : h, sh = p ? 1 : 0;
        for (int y = 0; y < ph; y++)
            for (int x = 0; x < pw; x++) {
                int v8 = content_sample8(c, seed, f, p, x << sh, y << sh);
                int v;
                if (bd == 8) v = v8;
                else {
                    /* keep exact extremes, fill the two LSBs deterministically */
                    v = (v8 << 2) | (v8 == 255 ? 3 : v8 == 0 ? 0 : (int)(vmix(seed, x, y, f + 99 + p) & 3));
                }
                pl[p][(size_t)y * pw + x] = (uint16_t)clampi(v, 0, maxv);
            }
    }
}
#endif
