// Family drivers: inter-prediction convolutions (sr / jnt, lbd / hbd), blend / mask kernels, compound masks, wedge helpers.
#pragma once
#include "kernels_lib.h"
#include "EbDefinitions.h"
#include "EbInterPrediction.h"
#include "convolve.h"

extern "C" const uint8_t *svt_av1_get_obmc_mask(int length);

namespace c07 {

// ---- convolve ----------------------------------------------------------------------------------------------------------------------
// Dispatch table index [subpel_x != 0][subpel_y != 0][is_compound] (EbInterPrediction.c): x kernels only ever see subpel_y == 0 etc.
// P: kind (0 copy, 1 x, 2 y, 3 2d), compound (0 sr, 1 jnt), hbd
typedef void (*drv_convolve_lbd_fn)(const uint8_t *, int32_t, uint8_t *, int32_t, int32_t, int32_t, InterpFilterParams *, InterpFilterParams *, const int32_t, const int32_t, ConvolveParams *);
typedef void (*drv_convolve_hbd_fn)(const uint16_t *, int32_t, uint16_t *, int32_t, int32_t, int32_t, const InterpFilterParams *, const InterpFilterParams *, const int32_t, const int32_t, ConvolveParams *, int32_t);
static const int k_dist_pairs[8][2] = {{9, 7}, {7, 9}, {11, 5}, {5, 11}, {12, 4}, {4, 12}, {13, 3}, {3, 13}};   // quant_dist_lookup_table[0] both orders

template <class PIX> static void convolve_common(Run &r, int kind, int compound, bool hbd) {
    int bd = hbd ? (r.pick(0, 1) ? 10 : 8) : 8; long long mx = (1 << bd) - 1;
    // block: any AV1 block size, luma or 4:2:0 chroma plane of it
    int bs = (int)r.pick(0, BlockSizeS_ALL - 1), chroma = (int)r.pick(0, 1);
    int bw = block_size_wide[bs], bh = block_size_high[bs];
    if (compound && (bw < 8 || bh < 8)) { bw = bw < 8 ? 8 : bw; bh = bh < 8 ? 8 : bh; }       // is_comp_ref_allowed(): min(bw, bh) >= 8
    int w = chroma ? bw >> 1 : bw, h = chroma ? bh >> 1 : bh;
    // intra block copy: bilinear filter, subpel fixed to 8, never compound, unused filter pointer NULL (convolve_2d_for_intrabc)
    int intrabc = (!compound && kind != 0) ? (r.pick(0, 5) == 0) : 0;
    InterpFilterParams fx, fy; memset(&fx, 0, sizeof fx); memset(&fy, 0, sizeof fy);
    InterpFilterParams *pfx = &fx, *pfy = &fy;
    int sx = 0, sy = 0;
    if (intrabc) {
        fx = av1_interp_filter_params_list[BILINEAR]; fy = av1_interp_filter_params_list[BILINEAR];
        sx = (kind & 1) ? 8 : 0; sy = (kind & 2) ? 8 : 0;
        if (kind == 1) pfy = nullptr; if (kind == 2) pfx = nullptr;
        if (w < 4) w = 4; if (h < 4) h = 4;
    } else {
        int fyt = (int)r.pick(0, 2), fxt = (int)r.pick(0, 2);      // EIGHTTAP_REGULAR, EIGHTTAP_SMOOTH, MULTITAP_SHARP (dual filter)
        // sub-8x8 chroma (w or h == 2): the filter is still chosen from the >= 4 wide chroma block (EbEncInterPrediction.c)
        av1_get_convolve_filter_params(av1_make_interp_filters((InterpFilter)fyt, (InterpFilter)fxt), &fx, &fy, w < 4 ? 4 : w, h < 4 ? 4 : h);
        if (kind & 1) sx = (int)r.pick(1, 15);
        if (kind & 2) sy = (int)r.pick(1, 15);
        r.note("filter_x", fxt); r.note("filter_y", fyt);
    }
    int do_avg = compound ? (int)r.pick(0, 1) : 0;
    int jnt = compound ? (int)r.pick(0, 1) : 0, pair = compound ? (int)r.pick(0, 7) : 0;
    // source: 3 rows/cols before and 4 after the block are read (8-tap footprint); inside a padded reference picture, any alignment
    int ss = w + 7 + (int)r.pick(0, 64);
    In<PIX> src((size_t)ss * (h + 7) + 8, 64, (size_t)r.pick(0, 31));
    src.fill(r, 0, mx, "src");
    const PIX *sp = src.p() + 3 * ss + 3;
    int ds = pick_stride(r, w);
    Out<PIX> dst(r, "dst", (size_t)ds * h, (size_t)r.pick(0, 31));
    dst.fill_init(r, 0, mx, "dst");
    dst.rect(w, h, ds, true);
    // conv_params->dst: 32-byte aligned scratch, stride 128 (luma / decoder) or 64 (encoder chroma)
    int cs = (chroma && w <= 64 && r.pick(0, 1)) ? 64 : 128;
    Out<uint16_t> conv(r, "conv_dst", (size_t)cs * h, 0);
    ConvolveParams cp; memset(&cp, 0, sizeof cp);
    cp = get_conv_params_no_round(0, do_avg, chroma, nullptr, cs, compound, bd);
    cp.ref = 0; cp.plane = chroma; cp.use_dist_wtd_comp_avg = jnt; cp.use_jnt_comp_avg = jnt;
    cp.fwd_offset = jnt ? k_dist_pairs[pair][0] : 8; cp.bck_offset = jnt ? k_dist_pairs[pair][1] : 8;
    {   // content of the compound buffer: what the first-reference pass (do_average = 0) leaves there:
        // round_offset + (pixel << (2*FILTER_BITS - round_0 - round_1)) with interpolation overshoot
        int offset_bits = bd + 2 * FILTER_BITS - cp.round_0, r1 = compound ? cp.round_1 : COMPOUND_ROUND1_BITS;
        long long ro = (1LL << (offset_bits - r1)) + (1LL << (offset_bits - r1 - 1));
        int sh = 2 * FILTER_BITS - cp.round_0 - r1;
        std::vector<int32_t> pix((size_t)cs * h), frac((size_t)cs * h);
        r.fill(pix.data(), pix.size(), -(mx / 4), mx + mx / 4, "conv_dst_pix"); r.fill(frac.data(), frac.size(), 0, (1 << sh) - 1, "conv_dst_frac");
        for (size_t i = 0; i < pix.size(); i++) conv.initp()[i] = (uint16_t)(ro + (long long)pix[i] * (1 << sh) + frac[i]);
    }
    conv.rect(w, h, cs, true);
    r.note("w", w); r.note("h", h); r.note("bd", bd); r.note("subpel_x", sx); r.note("subpel_y", sy); r.note("compound", compound); r.note("do_average", do_avg);
    r.note("jnt", jnt); r.note("intrabc", intrabc); r.note("src_stride", ss); r.note("dst_stride", ds); r.note("conv_stride", cs);
    r.exec([&](AnyFn f) {
        ConvolveParams c = cp; c.dst = conv.p();
        if (!hbd) ((drv_convolve_lbd_fn)f)((const uint8_t *)sp, ss, (uint8_t *)dst.p(), ds, w, h, pfx, pfy, sx, sy, &c);
        else ((drv_convolve_hbd_fn)f)((const uint16_t *)sp, ss, (uint16_t *)dst.p(), ds, w, h, pfx, pfy, sx, sy, &c, bd);
    });
}
static void drv_convolve_lbd(Run &r) { convolve_common<uint8_t>(r, r.P(0), r.P(1), false); }
static void drv_convolve_hbd(Run &r) { convolve_common<uint16_t>(r, r.P(0), r.P(1), true); }

// ---- blend_a64 ---------------------------------------------------------------------------------------------------------------------
static inline void fill_mask64(Run &r, uint8_t *m, size_t n, const char *what) { r.fill(m, n, 0, 64, what); }

// svt_aom_[highbd_]blend_a64_mask(dst, ds, src0, s0s, src1, s1s, mask, ms, w, h, subx, suby[, bd])  (inter-intra: wedge + smooth)
typedef void (*drv_blend_mask_lbd_fn)(uint8_t *, uint32_t, const uint8_t *, uint32_t, const uint8_t *, uint32_t, const uint8_t *, uint32_t, int, int, int, int);
typedef void (*drv_blend_mask_hbd_fn)(uint8_t *, uint32_t, const uint8_t *, uint32_t, const uint8_t *, uint32_t, const uint8_t *, uint32_t, int, int, int, int, int);
template <class PIX> static void blend_mask_common(Run &r, bool hbd) {
    int bd = hbd ? (r.pick(0, 1) ? 10 : 8) : 8; long long mx = (1 << bd) - 1;
    static const int dims[3] = {8, 16, 32};                    // inter-intra block sizes 8x8 .. 32x32 (ratio <= 4: 8x32 / 32x8 included)
    int bw = dims[(int)r.pick(0, 2)], bh = dims[(int)r.pick(0, 2)];
    int sub = (int)r.pick(0, 1);                               // 0 luma plane, 1 4:2:0 chroma plane with the luma-sized wedge mask
    int w = bw >> sub, h = bh >> sub;
    int ms = bw;                                               // mask_stride = block_size_wide[bsize]
    In<uint8_t> mask((size_t)ms * bh, 64, 0);
    fill_mask64(r, mask.lo(), mask.total(), "mask");
    int alias = (int)r.pick(0, 1);                             // encoder/decoder: dst == src1 (inter pred) same stride; MD search: three buffers
    int s0 = pick_stride(r, w), s1 = pick_stride(r, w), ds = alias ? s1 : pick_stride(r, w);
    In<PIX> src0((size_t)s0 * h, 64, (size_t)r.pick(0, 15));
    src0.fill(r, 0, mx, "src0");
    Out<PIX> d(r, alias ? "dst=src1" : "dst", (size_t)ds * h, (size_t)r.pick(0, 15));
    d.fill_init(r, 0, mx, "dst/src1");
    d.rect(w, h, ds, true);
    In<PIX> src1((size_t)s1 * h, 64, (size_t)r.pick(0, 15));
    src1.fill(r, 0, mx, "src1");
    r.note("w", w); r.note("h", h); r.note("sub", sub); r.note("alias", alias); r.note("bd", bd);
    r.exec([&](AnyFn f) {
        const uint8_t *p1 = alias ? (const uint8_t *)d.p() : (const uint8_t *)src1.p();
        if (!hbd) ((drv_blend_mask_lbd_fn)f)((uint8_t *)d.p(), ds, (const uint8_t *)src0.p(), s0, p1, s1, mask.p(), ms, w, h, sub, sub);
        else ((drv_blend_mask_hbd_fn)f)((uint8_t *)d.p(), ds, (const uint8_t *)src0.p(), s0, p1, s1, mask.p(), ms, w, h, sub, sub, bd);
    });
}
static void drv_blend_mask_lbd(Run &r) { blend_mask_common<uint8_t>(r, false); }
static void drv_blend_mask_hbd(Run &r) { blend_mask_common<uint16_t>(r, true); }

// svt_aom_[highbd_]blend_a64_{h,v}mask*(dst, ds, src0, s0s, src1, s1s, mask, w, h[, bd])   (OBMC, always in place: dst == src0)
// P: dir (0 vmask: mask indexed by row, 1 hmask: by column), hbd flavour (0 lbd, 1 hbd uint8-typed "8bit" entry, 2 hbd uint16-typed "16bit" entry)
typedef void (*drv_blend_1d_lbd_fn)(uint8_t *, uint32_t, const uint8_t *, uint32_t, const uint8_t *, uint32_t, const uint8_t *, int, int);
typedef void (*drv_blend_1d_hbd8_fn)(uint8_t *, uint32_t, const uint8_t *, uint32_t, const uint8_t *, uint32_t, const uint8_t *, int, int, int);
typedef void (*drv_blend_1d_hbd16_fn)(uint16_t *, uint32_t, const uint16_t *, uint32_t, const uint16_t *, uint32_t, const uint8_t *, int, int, int);
template <class PIX> static void blend_1d_common(Run &r, int hmask, int flavour) {
    int bd = flavour ? (r.pick(0, 1) ? 10 : 8) : 8; long long mx = (1 << bd) - 1;
    // OBMC geometry: overlap = (min(block dim, 64) >> 1) >> ss in {2,4,8,16,32}; the other dimension = neighbour width/height 4..64
    static const int ov[5] = {2, 4, 8, 16, 32}, other[5] = {4, 8, 16, 32, 64};
    int o = ov[(int)r.pick(0, 4)], t = other[(int)r.pick(0, 4)];
    int w = hmask ? o : t, h = hmask ? t : o;
    int real_mask = (int)r.pick(0, 1);
    In<uint8_t> mask(64, 64, 0);
    fill_mask64(r, mask.lo(), mask.total(), "mask");
    if (real_mask) memcpy(mask.p(), svt_av1_get_obmc_mask(o), (size_t)o);
    int ds = pick_stride(r, w), s1 = r.pick(0, 1) ? 128 : pick_stride(r, w);     // neighbour prediction buffer: stride MAX_SB_SIZE
    Out<PIX> d(r, "dst=src0", (size_t)ds * h, (size_t)r.pick(0, 15));
    d.fill_init(r, 0, mx, "dst/src0");
    d.rect(w, h, ds, true);
    In<PIX> src1((size_t)s1 * h, 64, (size_t)r.pick(0, 15));
    src1.fill(r, 0, mx, "src1");
    r.note("w", w); r.note("h", h); r.note("hmask", hmask); r.note("bd", bd); r.note("obmc_mask", real_mask);
    r.exec([&](AnyFn f) {
        if (flavour == 0) ((drv_blend_1d_lbd_fn)f)((uint8_t *)d.p(), ds, (const uint8_t *)d.p(), ds, (const uint8_t *)src1.p(), s1, mask.p(), w, h);
        else if (flavour == 1) ((drv_blend_1d_hbd8_fn)f)((uint8_t *)d.p(), ds, (const uint8_t *)d.p(), ds, (const uint8_t *)src1.p(), s1, mask.p(), w, h, bd);
        else ((drv_blend_1d_hbd16_fn)f)((uint16_t *)d.p(), ds, (const uint16_t *)d.p(), ds, (const uint16_t *)src1.p(), s1, mask.p(), w, h, bd);
    });
}
static void drv_blend_1d_lbd(Run &r) { blend_1d_common<uint8_t>(r, r.P(0), 0); }
static void drv_blend_1d_hbd8(Run &r) { blend_1d_common<uint16_t>(r, r.P(0), 1); }
static void drv_blend_1d_hbd16(Run &r) { blend_1d_common<uint16_t>(r, r.P(0), 2); }

// Compound (CONV_BUF_TYPE) sample as the jnt convolve leaves it: round_offset + (pixel << bits) + fraction
static void fill_conv_buf(Run &r, uint16_t *p, size_t n, int bd, const char *what) {
    long long mx = (1 << bd) - 1;
    int round_0 = ROUND0_BITS, round_1 = COMPOUND_ROUND1_BITS, offset_bits = bd + 2 * FILTER_BITS - round_0, sh = 2 * FILTER_BITS - round_0 - round_1;
    long long ro = (1LL << (offset_bits - round_1)) + (1LL << (offset_bits - round_1 - 1));
    std::vector<int32_t> pix(n), frac(n);
    r.fill(pix.data(), n, -(mx / 4), mx + mx / 4, what); r.fill(frac.data(), n, 0, (1 << sh) - 1, "frac");
    for (size_t i = 0; i < n; i++) p[i] = (uint16_t)(ro + (long long)pix[i] * (1 << sh) + frac[i]);
}
static inline void pick_masked_compound_dims(Run &r, int &bw, int &bh) {       // masked compound: min(bw, bh) >= 8, AV1 block shapes
    for (;;) { int bs = (int)r.pick(0, BlockSizeS_ALL - 1); bw = block_size_wide[bs]; bh = block_size_high[bs]; if (bw >= 8 && bh >= 8) return; bw = bw < 8 ? 8 : bw; bh = bh < 8 ? 8 : bh; return; }
}

// svt_aom_{lowbd,highbd}_blend_a64_d16_mask(dst, ds, src0, s0s, src1, s1s, mask, ms, w, h, subw, subh, conv_params[, bd])
typedef void (*drv_blend_d16_lbd_fn)(uint8_t *, uint32_t, const CONV_BUF_TYPE *, uint32_t, const CONV_BUF_TYPE *, uint32_t, const uint8_t *, uint32_t, int, int, int, int, ConvolveParams *);
typedef void (*drv_blend_d16_hbd_fn)(uint8_t *, uint32_t, const CONV_BUF_TYPE *, uint32_t, const CONV_BUF_TYPE *, uint32_t, const uint8_t *, uint32_t, int, int, int, int, ConvolveParams *, const int);
template <class PIX> static void blend_d16_common(Run &r, bool hbd) {
    int bd = hbd ? (r.pick(0, 1) ? 10 : 8) : 8;
    int bw, bh; pick_masked_compound_dims(r, bw, bh);
    int sub = (int)r.pick(0, 1), w = bw >> sub, h = bh >> sub, ms = bw;
    In<uint8_t> mask((size_t)ms * bh, 64, 0);
    fill_mask64(r, mask.lo(), mask.total(), "mask");
    int s0 = (sub && w <= 64 && r.pick(0, 1)) ? 64 : 128, s1 = 128;               // conv_params->dst (128 luma / 64 encoder chroma), tmp_buf16 stride 128
    In<uint16_t> src0((size_t)s0 * h, 64, 0), src1((size_t)s1 * h, 64, 0);
    fill_conv_buf(r, src0.lo(), src0.total(), bd, "src0"); fill_conv_buf(r, src1.lo(), src1.total(), bd, "src1");
    int ds = pick_stride(r, w);
    Out<PIX> d(r, "dst", (size_t)ds * h, (size_t)r.pick(0, 15));
    d.rect(w, h, ds, true);
    ConvolveParams cp; memset(&cp, 0, sizeof cp);
    cp = get_conv_params_no_round(0, 0, sub, nullptr, s0, 1, bd);
    cp.ref = 0; cp.plane = sub; cp.fwd_offset = 8; cp.bck_offset = 8; cp.use_dist_wtd_comp_avg = 0;
    r.note("w", w); r.note("h", h); r.note("sub", sub); r.note("bd", bd);
    r.exec([&](AnyFn f) {
        ConvolveParams c = cp; c.dst = (ConvBufType *)src0.p();
        if (!hbd) ((drv_blend_d16_lbd_fn)f)((uint8_t *)d.p(), ds, src0.p(), s0, src1.p(), s1, mask.p(), ms, w, h, sub, sub, &c);
        else ((drv_blend_d16_hbd_fn)f)((uint8_t *)d.p(), ds, src0.p(), s0, src1.p(), s1, mask.p(), ms, w, h, sub, sub, &c, bd);
    });
}
static void drv_blend_d16_lbd(Run &r) { blend_d16_common<uint8_t>(r, false); }
static void drv_blend_d16_hbd(Run &r) { blend_d16_common<uint16_t>(r, true); }

// svt_av1_build_compound_diffwtd_mask[_highbd](mask, type, src0, s0s, src1, s1s, h, w[, bd]): strides == w, mask stride w
typedef void (*drv_diffwtd_lbd_fn)(uint8_t *, DIFFWTD_MASK_TYPE, const uint8_t *, int, const uint8_t *, int, int, int);
typedef void (*drv_diffwtd_hbd_fn)(uint8_t *, DIFFWTD_MASK_TYPE, const uint8_t *, int, const uint8_t *, int, int, int, int);
template <class PIX> static void diffwtd_common(Run &r, bool hbd) {
    int bd = hbd ? 10 : 8; long long mx = (1 << bd) - 1;                          // highbd caller passes EB_10BIT
    int w, h; pick_masked_compound_dims(r, w, h);
    int type = (int)r.pick(0, 1);
    In<PIX> s0((size_t)w * h, 64, 0), s1((size_t)w * h, 64, 0);
    s0.fill(r, 0, mx, "src0"); s1.fill(r, 0, mx, "src1");
    Out<uint8_t> mask(r, "mask", (size_t)w * h, 0);
    r.note("w", w); r.note("h", h); r.note("mask_type", type); r.note("bd", bd);
    r.exec([&](AnyFn f) {
        if (!hbd) ((drv_diffwtd_lbd_fn)f)(mask.p(), (DIFFWTD_MASK_TYPE)type, (const uint8_t *)s0.p(), w, (const uint8_t *)s1.p(), w, h, w);
        else ((drv_diffwtd_hbd_fn)f)(mask.p(), (DIFFWTD_MASK_TYPE)type, (const uint8_t *)s0.p(), w, (const uint8_t *)s1.p(), w, h, w, bd);
    });
}
static void drv_diffwtd_lbd(Run &r) { diffwtd_common<uint8_t>(r, false); }
static void drv_diffwtd_hbd(Run &r) { diffwtd_common<uint16_t>(r, true); }

// svt_av1_build_compound_diffwtd_mask_d16(mask, type, src0, s0s, src1, s1s, h, w, conv_params, bd): luma only, strides 128
typedef void (*drv_diffwtd_d16_fn)(uint8_t *, DIFFWTD_MASK_TYPE, const CONV_BUF_TYPE *, int, const CONV_BUF_TYPE *, int, int, int, ConvolveParams *, int);
static void drv_diffwtd_d16(Run &r) {
    int bd = r.pick(0, 1) ? 10 : 8;
    int w, h; pick_masked_compound_dims(r, w, h);
    int type = (int)r.pick(0, 1);
    In<uint16_t> s0((size_t)128 * h, 64, 0), s1((size_t)128 * h, 64, 0);
    fill_conv_buf(r, s0.lo(), s0.total(), bd, "src0"); fill_conv_buf(r, s1.lo(), s1.total(), bd, "src1");
    Out<uint8_t> mask(r, "mask", (size_t)w * h, 0);
    ConvolveParams cp; memset(&cp, 0, sizeof cp);
    cp = get_conv_params_no_round(0, 0, 0, nullptr, 128, 1, bd);
    cp.ref = 0; cp.plane = 0; cp.fwd_offset = 8; cp.bck_offset = 8; cp.use_dist_wtd_comp_avg = 0;
    r.note("w", w); r.note("h", h); r.note("mask_type", type); r.note("bd", bd);
    r.exec([&](AnyFn f) { ConvolveParams c = cp; c.dst = (ConvBufType *)s0.p(); ((drv_diffwtd_d16_fn)f)(mask.p(), (DIFFWTD_MASK_TYPE)type, s0.p(), 128, s1.p(), 128, h, w, &c, bd); });
}

// ---- wedge helpers: N = bw*bh of a wedge / seg block, multiple of 64; residuals of 8- or 10-bit pictures -----------------------------
static inline int pick_wedge_n(Run &r, int maxn) { static const int ns[9] = {64, 128, 256, 512, 1024, 2048, 4096, 8192, 16384}; int k = (int)r.pick(0, 8); while (ns[k] > maxn) k--; return ns[k]; }
typedef uint64_t (*drv_wedge_sse_fn)(const int16_t *, const int16_t *, const uint8_t *, int);
static void drv_wedge_sse(Run &r) {
    long long mx = r.pick(0, 1) ? 1023 : 255;
    int n = pick_wedge_n(r, 16384);                 // wedge: 64..1024; diffwtd (pick_interinter_seg): up to 128x128
    In<int16_t> r1((size_t)n), d((size_t)n); In<uint8_t> m((size_t)n);
    r1.fill(r, -mx, mx, "r1"); d.fill(r, -mx, mx, "d"); fill_mask64(r, m.lo(), m.total(), "m");
    r.note("N", n); r.note("max", mx);
    r.exec([&](AnyFn f) { r.ret((long long)((drv_wedge_sse_fn)f)(r1.p(), d.p(), m.p(), n)); });
}
typedef void (*drv_wedge_delta_squares_fn)(int16_t *, const int16_t *, const int16_t *, int);
static void drv_wedge_delta_squares(Run &r) {
    long long mx = r.pick(0, 1) ? 1023 : 255;
    int n = pick_wedge_n(r, 1024);
    int inplace = (int)r.pick(0, 1);                // caller: svt_av1_wedge_compute_delta_squares(ds, residual0, residual1, N) with ds == residual0
    Out<int16_t> ds(r, "d", (size_t)n);
    ds.fill_init(r, -mx, mx, "a");
    In<int16_t> a((size_t)n), b((size_t)n);
    memcpy(a.p(), ds.initp(), (size_t)n * 2);
    b.fill(r, -mx, mx, "b");
    r.note("N", n); r.note("inplace", inplace);
    r.exec([&](AnyFn f) { ((drv_wedge_delta_squares_fn)f)(ds.p(), inplace ? ds.p() : a.p(), b.p(), n); });
}
typedef int8_t (*drv_wedge_sign_fn)(const int16_t *, const uint8_t *, int, int64_t);
static void drv_wedge_sign(Run &r) {
    long long mx = r.pick(0, 1) ? 1023 : 255;
    int n = pick_wedge_n(r, 1024);
    std::vector<int16_t> r0((size_t)n), r1v((size_t)n);
    r.fill(r0.data(), (size_t)n, -mx, mx, "r0"); r.fill(r1v.data(), (size_t)n, -mx, mx, "r1");
    In<int16_t> ds((size_t)n); In<uint8_t> m((size_t)n);
    memset(ds.lo(), 0, ds.total() * 2);
    long long s0 = 0, s1 = 0;
    for (int i = 0; i < n; i++) { long long v = (long long)r0[i] * r0[i] - (long long)r1v[i] * r1v[i]; if (v > 32767) v = 32767; if (v < -32768) v = -32768; ds[i] = (int16_t)v; s0 += (long long)r0[i] * r0[i]; s1 += (long long)r1v[i] * r1v[i]; }
    fill_mask64(r, m.lo(), m.total(), "m");
    int64_t limit = (int64_t)(s0 - s1) * (1 << 6) / 2;     // EbEncInterPrediction.c pick_wedge(): sign_limit
    r.note("N", n);
    r.exec([&](AnyFn f) { r.ret(((drv_wedge_sign_fn)f)(ds.p(), m.p(), n, limit)); });
}
typedef uint64_t (*drv_sum_squares_i16_fn)(const int16_t *, uint32_t);
static void drv_sum_squares_i16(Run &r) {
    long long mx = r.pick(0, 1) ? 1023 : 255;
    int n = pick_wedge_n(r, 1024);
    In<int16_t> s((size_t)n);
    s.fill(r, -mx, mx, "src");
    r.note("N", n);
    r.exec([&](AnyFn f) { r.ret((long long)((drv_sum_squares_i16_fn)f)(s.p(), (uint32_t)n)); });
}

}  // namespace c07
