// C07: every SIMD kernel of the dispatch tables is a bit-exact drop-in for its C reference.
//   kernels list
//   kernels gen <failfile> [--only <regex>] [--shard i/n] [--per-entry N]       (RC_PARAMS="seed=N max_success=M max_size=S")
//   kernels replay <file>
// The entry table (kernels_gen.inc) is generated from the tree under test by gen_kernels.py.
#include <rapidcheck.h>
#include <csignal>
#include <regex>
#include <type_traits>
#include <unistd.h>
#include <fcntl.h>

#ifndef ARCH_X86_64
#define ARCH_X86_64 1      // the library's CMake adds -DARCH_X86_64=1; the rtcd headers hide get_cpu_flags() without it
#endif
#include "EbDefinitions.h"
#include "common_dsp_rtcd.h"
#include "aom_dsp_rtcd.h"

#include "kernels_lib.h"
#include "drv_block.h"
#include "drv_intra.h"
#if __has_include("drv_txfm.h")
#include "drv_txfm.h"
#endif
#if __has_include("drv_inter.h")
#include "drv_inter.h"
#endif
#if __has_include("drv_filter.h")
#include "drv_filter.h"
#endif
#if __has_include("drv_misc.h")
#include "drv_misc.h"
#endif

#ifndef C07_GEN_INC
#define C07_GEN_INC "kernels_gen.inc"
#endif
#include C07_GEN_INC

extern "C" void __sanitizer_set_death_callback(void (*)(void)) __attribute__((weak));

using namespace c07;

static std::string jesc(const std::string &s) {
    std::string o; for (unsigned char ch : s) { if (ch == '"' || ch == '\\') { o += '\\'; o += (char)ch; } else if (ch < 0x20) o += ' '; else o += (char)ch; } return o;
}
static unsigned long long isa_flag(const char *isa) {
    std::string s(isa);
    if (s == "mmx") return CPU_FLAGS_MMX; if (s == "sse") return CPU_FLAGS_SSE; if (s == "sse2") return CPU_FLAGS_SSE2; if (s == "sse3") return CPU_FLAGS_SSE3;
    if (s == "ssse3") return CPU_FLAGS_SSSE3; if (s == "sse4_1") return CPU_FLAGS_SSE4_1; if (s == "sse4_2") return CPU_FLAGS_SSE4_2; if (s == "avx") return CPU_FLAGS_AVX;
    if (s == "avx2") return CPU_FLAGS_AVX2; if (s == "avx512") return CPU_FLAGS_AVX512F;
    return ~0ULL;
}

// ---- state shared with the crash handlers ------------------------------------------------------------------------------
static char g_pending[1 << 16];          // fail-file line for the case being executed right now (written if the process dies)
static const char *g_failfile = nullptr;
static bool g_failfile_taken = false;    // a property failure already owns <failfile>
static std::string g_summary_prefix;     // not used by handlers
static void write_file_raw(const char *path, const char *txt) {
    int fd = open(path, O_WRONLY | O_CREAT | O_TRUNC, 0644); if (fd < 0) return;
    size_t n = strlen(txt); ssize_t k = write(fd, txt, n); (void)k; close(fd);
}
static std::string g_partial;            // final JSON line to print if the process dies inside the current entry
static volatile sig_atomic_t g_dying = 0;
static void on_death() {
    if (g_dying) return; g_dying = 1;
    if (g_failfile && g_pending[0]) {
        char path[4096];
        snprintf(path, sizeof path, "%s%s", g_failfile, g_failfile_taken ? ".crash" : "");
        write_file_raw(path, g_pending);
        fflush(stdout);
        ssize_t k = write(1, "\n", 1); k = write(1, g_partial.c_str(), g_partial.size()); k = write(1, "\n", 1); (void)k;
    }
}
static std::string tape_txt(const Entry &e, const char *variant, const std::vector<long long> &tape) {
    std::string s = std::string(e.ptr) + " " + variant + " " + std::to_string(tape.size());
    for (long long v : tape) s += " " + std::to_string(v);
    return s;
}
static std::string fail_line(const std::string &key, const std::string &what, const std::string &txt) {
    return "{\"key\":\"" + jesc(key) + "\",\"what\":\"" + jesc(what) + "\",\"txt\":\"" + jesc(txt) + "\"}\n";
}
// crash record: refreshed right before every kernel call (drivers draw all their values before calling exec())
static void pre_call(Run &r, int vi) {
    const char *vn = vi < 0 ? "*" : r.e->vars[vi].name;
    std::string what = std::string("process died (sanitizer report / assert / signal) inside ") + (vi < 0 ? r.e->cref : vn) + " called for " + r.e->ptr;
    std::string l = fail_line(std::string(r.e->cref) + "|" + (vi < 0 ? "c-reference-crash" : vn), what, tape_txt(*r.e, vn, r.s->tape));
    snprintf(g_pending, sizeof g_pending, "%s", l.c_str());
    // plumbing self-test: C07_SELFTEST_CRASH=<regex> makes the first variant call of a matching entry abort()
    static const char *ct = getenv("C07_SELFTEST_CRASH");
    if (ct && *ct && vi >= 0 && std::regex_search(std::string(r.e->ptr), std::regex(ct))) abort();
}
static void on_signal(int sig) { on_death(); signal(sig, SIG_DFL); raise(sig); }


struct Stats {
    long cases = 0, nontrivial = 0; std::set<uint64_t> keys; std::map<std::string, long> classes; std::vector<std::string> samples;
    std::map<std::string, long> per_isa_variants, per_isa_calls; std::map<std::string, long> per_family_entries, per_family_cases;
};

// Runs one case of entry `e` with value source `s`.  Returns failure text (empty = holds); *fail_variant receives the variant name.
static std::regex *g_mild_re = nullptr;
static std::string run_case(const Entry &e, Src &s, const std::vector<int> &active, Stats *st, std::string *fail_variant, bool set_pending) {
    Run r; r.e = &e; r.s = &s; r.active = active;
    (void)set_pending;
    if (g_mild_re && std::regex_search(std::string(e.ptr), *g_mild_re)) { r.mild = true; r.label("mild-domain"); }
    e.drv(r);
    if (st) {
        st->cases++;
        if (r.nontrivial) {
            st->nontrivial++;
            if (st->keys.size() < 30000) { std::string t = tape_txt(e, "*", s.tape); st->keys.insert(fnv(t)); }
            if (st->samples.size() < 5 && (st->cases % 97 == 1 || st->samples.empty()))
                st->samples.push_back("{\"entry\":\"" + std::string(e.ptr) + "\",\"family\":\"" + e.family + "\"," + r.desc + "}");
        }
        for (auto &l : r.labels) st->classes[l]++;
        if (r.skipped) st->classes["skipped:" + r.skip_reason]++;
        st->classes[std::string("family:") + e.family]++;
    }
    if (r.failed()) { *fail_variant = e.vars[r.fail_var].name; return r.fail_msg; }
    return "";
}

int main(int argc, char **argv) {
    setvbuf(stdout, nullptr, _IOLBF, 0);
    const char *mode = argc > 1 ? argv[1] : "list";
    CPU_FLAGS flags = get_cpu_flags();
    // kernels call each other through the dispatch pointers: initialise both tables the way the library does
    setup_common_rtcd_internal(get_cpu_flags_to_use());
    setup_rtcd_internal(get_cpu_flags_to_use());

    std::vector<Entry> T; c07_register_entries(T);
    g_table = &T;
    // C07_MILD=<regex>: entries whose pointer name matches use the family's narrower (unit-test) domain - lets the search continue
    // behind a confirmed finding.  The value is part of the case: replay needs the same setting.
    if (getenv("C07_MILD") && *getenv("C07_MILD")) g_mild_re = new std::regex(getenv("C07_MILD"));
    std::vector<std::string> undecided, c_only; for (int i = 0; c07_undecided[i]; i++) undecided.push_back(c07_undecided[i]);
    for (int i = 0; c07_c_only[i]; i++) c_only.push_back(c07_c_only[i]);
    auto list_json = [&](const std::vector<std::string> &v) { std::string s = "["; for (size_t i = 0; i < v.size(); i++) s += (i ? ",\"" : "\"") + v[i] + "\""; return s + "]"; };
    size_t with_simd = T.size() + undecided.size();

    if (!strcmp(mode, "list")) {
        std::map<std::string, int> fam; for (auto &e : T) fam[e.family]++;
        std::string fj = "{"; bool first = true; for (auto &kv : fam) { fj += (first ? "\"" : ",\"") + kv.first + "\":" + std::to_string(kv.second); first = false; } fj += "}";
        printf("{\"entries_total\":%d,\"entries_with_simd\":%zu,\"entries_covered\":%zu,\"c_only\":%zu,\"coverage\":%.3f,\"families\":%s,\"undecided\":%s,\"c_only_names\":%s}\n",
               c07_entries_total, with_simd, T.size(), c_only.size(), with_simd ? (double)T.size() / with_simd : 0.0, fj.c_str(), list_json(undecided).c_str(), list_json(c_only).c_str());
        return 0;
    }

    auto active_of = [&](const Entry &e, const char *only_variant, std::vector<std::string> *unlinked, std::vector<std::string> *unsupported) {
        std::vector<int> a;
        for (size_t i = 0; i < e.vars.size(); i++) {
            if (only_variant && strcmp(only_variant, "*") && strcmp(only_variant, e.vars[i].name)) continue;
            if (!e.vars[i].fn) { if (unlinked) unlinked->push_back(e.vars[i].name); continue; }
            unsigned long long f = isa_flag(e.vars[i].isa);
            if ((flags & f) != f) { if (unsupported) unsupported->push_back(e.vars[i].name); continue; }
            a.push_back((int)i);
        }
        return a;
    };

    if (!strcmp(mode, "replay")) {
        if (argc < 3) { printf("{\"error\":\"usage: kernels replay <file>\"}\n"); return 2; }
        FILE *f = fopen(argv[2], "r"); if (!f) { printf("{\"error\":\"cannot open replay file\"}\n"); return 2; }
        std::string txt; { char b[4096]; size_t k; while ((k = fread(b, 1, sizeof b, f)) > 0) txt.append(b, k); } fclose(f);
        // accept either the bare txt line or a complete fail-file JSON line
        size_t k = txt.find("\"txt\":\""); if (k != std::string::npos) { txt = txt.substr(k + 7); size_t q = txt.find('"'); if (q != std::string::npos) txt = txt.substr(0, q); }
        char name[512], var[512]; long n = 0; int used = 0;
        if (sscanf(txt.c_str(), "%511s %511s %ld%n", name, var, &n, &used) != 3) { printf("{\"error\":\"malformed replay text\"}\n"); return 2; }
        Src s; s.replay = true; const char *p = txt.c_str() + used;
        for (long i = 0; i < n; i++) { char *end; long long v = strtoll(p, &end, 10); if (end == p) { printf("{\"error\":\"replay text truncated\"}\n"); return 2; } s.tape.push_back(v); p = end; }
        const Entry *e = nullptr; for (auto &x : T) if (!strcmp(x.ptr, name)) e = &x;
        if (!e) { printf("{\"error\":\"entry %s is not in the table of this tree (or has no family)\"}\n", name); return 2; }
        std::vector<int> act = active_of(*e, var, nullptr, nullptr);
        if (act.empty()) { printf("{\"error\":\"variant %s not available on this host/build\"}\n", var); return 2; }
        std::string fv, what;
        try { what = run_case(*e, s, act, nullptr, &fv, false); }
        catch (ReplayDesync &) { printf("{\"error\":\"replay text does not match this harness/tree (tape desync)\"}\n"); return 2; }
        std::string key = std::string(e->cref) + "|" + (what.empty() ? var : fv.c_str());
        printf("{\"key\":\"%s\",\"what\":\"%s\"}\n", jesc(key).c_str(), jesc(what).c_str());
        return what.empty() ? 0 : 1;
    }

    if (strcmp(mode, "gen")) { printf("{\"error\":\"unknown mode\"}\n"); return 2; }
    if (argc < 3) { printf("{\"error\":\"usage: kernels gen <failfile> ...\"}\n"); return 2; }
    g_failfile = argv[2];
    std::string only; int shard_i = 0, shard_n = 1; long per_entry = -1;
    for (int i = 3; i < argc; i++) {
        if (!strcmp(argv[i], "--only") && i + 1 < argc) only = argv[++i];
        else if (!strcmp(argv[i], "--shard") && i + 1 < argc) { if (sscanf(argv[++i], "%d/%d", &shard_i, &shard_n) != 2 || shard_n < 1 || shard_i < 0 || shard_i >= shard_n) { printf("{\"error\":\"bad --shard\"}\n"); return 2; } }
        else if (!strcmp(argv[i], "--per-entry") && i + 1 < argc) per_entry = atol(argv[++i]);
        else { printf("{\"error\":\"unknown argument %s\"}\n", argv[i]); return 2; }
    }
    unlink(g_failfile);
    g_pre_call = pre_call;
    if (__sanitizer_set_death_callback) __sanitizer_set_death_callback(on_death);
    signal(SIGABRT, on_signal); signal(SIGILL, on_signal); signal(SIGFPE, on_signal); signal(SIGBUS, on_signal);

    rc::detail::TestParams params = rc::detail::configuration().testParams;
    if (per_entry > 0) params.maxSuccess = (int)per_entry;
    const uint64_t base_seed = params.seed;
    std::regex re(only.empty() ? ".*" : only);

    Stats st; std::vector<std::string> failures, unlinked, unsupported, ran; size_t in_shard = 0, skipped_novariant = 0;
    auto map_json = [](const std::map<std::string, long> &m) { std::string s = "{"; bool f = true; for (auto &kv : m) { s += (f ? "\"" : ",\"") + jesc(kv.first) + "\":" + std::to_string(kv.second); f = false; } return s + "}"; };
    auto summary = [&](const char *aborted_in) {
        std::string out = "{\"cases\":" + std::to_string(st.cases) + ",\"nontrivial\":" + std::to_string(st.nontrivial);
        if (aborted_in) out += std::string(",\"aborted\":true,\"aborted_in\":\"") + aborted_in + "\",\"note\":\"process died (sanitizer report / assert / signal) inside a kernel call of this entry; the case is in <failfile> (or <failfile>.crash if a property failure already owns <failfile>)\"";
        out += ",\"entries_total\":" + std::to_string(c07_entries_total) + ",\"entries_with_simd\":" + std::to_string(with_simd) + ",\"entries_covered\":" + std::to_string(T.size());
        out += ",\"entries_run\":" + std::to_string(ran.size()) + ",\"entries_without_runnable_variant\":" + std::to_string(skipped_novariant);
        out += ",\"c_only\":" + std::to_string(c_only.size());
        out += ",\"per_isa\":{\"variants\":" + map_json(st.per_isa_variants) + ",\"cases\":" + map_json(st.per_isa_calls) + "}";
        out += ",\"per_family\":{\"entries\":" + map_json(st.per_family_entries) + ",\"cases\":" + map_json(st.per_family_cases) + "}";
        out += ",\"classes\":" + map_json(st.classes);
        out += ",\"variants_unlinked\":" + list_json(unlinked) + ",\"variants_unsupported_by_host\":" + list_json(unsupported);
        out += ",\"undecided\":" + list_json(undecided);
        out += ",\"failures\":["; for (size_t i = 0; i < failures.size(); i++) out += (i ? "," : "") + failures[i]; out += "]";
        out += ",\"samples\":["; for (size_t i = 0; i < st.samples.size(); i++) out += (i ? "," : "") + st.samples[i]; out += "]";
        out += ",\"keys\":[";
        if (!aborted_in) { size_t i = 0; for (uint64_t k : st.keys) { char b[32]; snprintf(b, sizeof b, "%s\"%llx\"", i ? "," : "", (unsigned long long)k); out += b; i++; } }
        out += "]}";
        return out;
    };
    for (size_t ei = 0; ei < T.size(); ei++) {
        const Entry &e = T[ei];
        if (!only.empty() && !std::regex_search(std::string(e.ptr), re) && !std::regex_search(std::string(e.cref), re)) continue;
        if ((int)(in_shard++ % (size_t)shard_n) != shard_i) continue;
        std::vector<int> act = active_of(e, nullptr, &unlinked, &unsupported);
        if (act.empty()) { skipped_novariant++; continue; }
        for (int vi : act) st.per_isa_variants[e.vars[vi].isa]++;
        st.per_family_entries[e.family]++;
        params.seed = base_seed ^ fnv(e.ptr);
        g_partial = summary(e.ptr);      // printed by the death callback if a kernel of this entry kills the process
        std::string last_fail_line, last_key; long cases_before = st.cases;
        rc::detail::TestMetadata md; md.id = e.ptr; md.description = e.ptr;
        auto result = rc::detail::checkTestable([&] {
            Src s; std::string fv;
            std::string what = run_case(e, s, act, &st, &fv, true);
            if (!what.empty()) {
                std::string key = std::string(e.cref) + "|" + fv;
                last_key = key; last_fail_line = fail_line(key, std::string(e.ptr) + ": " + what, tape_txt(e, fv.c_str(), s.tape));
                if (!g_failfile_taken || failures.empty()) write_file_raw(g_failfile, last_fail_line.c_str());
            }
            RC_ASSERT(what.empty());
        }, md, params);
        for (int vi : act) st.per_isa_calls[e.vars[vi].isa] += st.cases - cases_before;
        st.per_family_cases[e.family] += st.cases - cases_before;
        g_pending[0] = 0;
        if (!result.template is<rc::detail::SuccessResult>()) {
            if (last_fail_line.empty()) {   // gave up / generation error: report, it is not a property failure of the library
                std::string m; { std::ostringstream os; rc::detail::printResultMessage(result, os); m = os.str(); }
                last_fail_line = fail_line(std::string(e.cref) + "|harness", std::string(e.ptr) + ": rapidcheck did not complete: " + m, std::string(e.ptr) + " * 0");
                if (failures.empty()) write_file_raw(g_failfile, last_fail_line.c_str());
            }
            if (failures.empty()) g_failfile_taken = true;
            if (!last_fail_line.empty() && last_fail_line.back() == '\n') last_fail_line.pop_back();
            {   // how many generated cases passed before the first failing one (sensitivity bookkeeping)
                rc::detail::FailureResult fr;
                if (result.match(fr) && !last_fail_line.empty() && last_fail_line.back() == '}')
                    last_fail_line = last_fail_line.substr(0, last_fail_line.size() - 1) + ",\"after\":" + std::to_string(fr.numSuccess + 1) + "}";
            }
            failures.push_back(last_fail_line);
            fprintf(stderr, "FAIL %s\n", last_fail_line.c_str());
        }
        ran.push_back(e.ptr);
    }

    std::string out = summary(nullptr);
    printf("%s\n", out.c_str());
    return failures.empty() ? 0 : 1;
}
