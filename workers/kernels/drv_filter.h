// Family drivers: deblocking loop filters, CDEF (filter block, direction search, distortion, 8->16 copy).
#pragma once
#include "kernels_lib.h"
#include "EbDefinitions.h"
#include "EbCdef.h"

namespace c07 {

// ---- svt_aom_[highbd_]lpf_{horizontal,vertical}_{4,6,8,14}(s, pitch, blimit, limit, thresh[, bd]) ------------------------------
// Threshold arrays exactly as update_sharpness() / the hev_thr memset build them from (level 1..63, sharpness 0..7): 16 identical bytes,
// 16-byte aligned.  `s` = first q-side pixel of an edge inside a picture, 4-pixel aligned; each call filters 4 lines.
typedef void (*drv_lpf_lbd_fn)(uint8_t *, int32_t, const uint8_t *, const uint8_t *, const uint8_t *);
typedef void (*drv_lpf_hbd_fn)(uint16_t *, int32_t, const uint8_t *, const uint8_t *, const uint8_t *, int32_t);
template <class PIX> static void lpf_common(Run &r, bool hbd) {
    // P: dir (0 horizontal edge = filtering across rows, 1 vertical), taps
    int vertical = r.P(0);
    int bd = hbd ? (r.pick(0, 1) ? 10 : 8) : 8; long long mx = (1 << bd) - 1;
    int lvl = (int)r.edge(1, 63), sharp = (int)r.pick(0, 7);
    int lim = lvl >> ((sharp > 0) + (sharp > 4));
    if (sharp > 0 && lim > 9 - sharp) lim = 9 - sharp;
    if (lim < 1) lim = 1;
    int mblim = 2 * (lvl + 2) + lim, hev = lvl >> 4;
    In<uint8_t> tb(16, 64), tl(16, 64), th(16, 64);
    memset(tb.lo(), 0, tb.total()); memset(tl.lo(), 0, tl.total()); memset(th.lo(), 0, th.total());
    memset(tb.p(), mblim, 16); memset(tl.p(), lim, 16); memset(th.p(), hev, 16);
    int pitch = 24 + 8 * (int)r.pick(0, 8), rows = 24;
    Out<PIX> pic(r, "picture", (size_t)pitch * rows, 4 * (size_t)r.pick(0, 7));
    pic.fill_init(r, 0, mx, "picture");
    int sy = 8 + 4 * (int)r.pick(0, 1), sx = 8 + 4 * (int)r.pick(0, 1);
    r.note("vertical", vertical); r.note("taps", r.P(1)); r.note("level", lvl); r.note("sharpness", sharp); r.note("bd", bd); r.note("pitch", pitch);
    r.exec([&](AnyFn f) {
        PIX *s = pic.p() + (size_t)sy * pitch + sx;
        if (!hbd) ((drv_lpf_lbd_fn)f)((uint8_t *)s, pitch, tb.p(), tl.p(), th.p());
        else ((drv_lpf_hbd_fn)f)((uint16_t *)s, pitch, tb.p(), tl.p(), th.p(), bd);
    });
}
static void drv_lpf_lbd(Run &r) { lpf_common<uint8_t>(r, false); }
static void drv_lpf_hbd(Run &r) { lpf_common<uint16_t>(r, true); }

// ---- CDEF ----------------------------------------------------------------------------------------------------------------------------
// `in` = block inside the 16-bit CDEF work buffer (row stride CDEF_BSTRIDE); unavailable border cells hold CDEF_VERY_LARGE.
typedef void (*drv_cdef_filter_block_fn)(uint8_t *, uint16_t *, int32_t, const uint16_t *, int32_t, int32_t, int32_t, int32_t, int32_t, int32_t, int32_t);
static void drv_cdef_filter_block(Run &r) {
    int bd = r.pick(0, 1) ? 10 : 8, shift = bd - 8; long long mx = (1 << bd) - 1;
    static const int bsz[4] = {BLOCK_8X8, BLOCK_4X4, BLOCK_4X8, BLOCK_8X4};
    int bk = (int)r.pick(0, 3), bsize = bsz[bk];
    int bw = (bsize == BLOCK_8X8 || bsize == BLOCK_8X4) ? 8 : 4, bh = (bsize == BLOCK_8X8 || bsize == BLOCK_4X8) ? 8 : 4;
    int luma = bsize == BLOCK_8X8;
    // svt_cdef_filter_fb(): pri = adjust_strength(level << shift, var) (luma: any value up to 15 << shift), sec in {0,1,2,4} << shift
    int pri = luma ? (int)r.edge(0, 15 << shift) : ((int)r.pick(0, 15) << shift);
    static const int secs[4] = {0, 1, 2, 4};
    int sec = secs[(int)r.pick(0, 3)] << shift;
    int dir = (int)r.pick(0, 7);
    int damping = (int)r.pick(3, 6) + shift - (luma ? 0 : 1);
    int use16 = bd > 8 ? 1 : (int)r.pick(0, 1);          // 8-bit content may also run through the 16-bit pipeline (dst16)
    In<uint16_t> inb((size_t)CDEF_BSTRIDE * (8 + 2 * CDEF_VBORDER), 64, 0);
    inb.fill(r, 0, mx, "in");
    uint16_t *blk = inb.p() + CDEF_VBORDER * CDEF_BSTRIDE + CDEF_HBORDER;
    int bmask = (int)r.pick(0, 15);                      // frame/tile/skip boundaries: whole border strips are CDEF_VERY_LARGE
    for (int y = -CDEF_VBORDER; y < bh + CDEF_VBORDER; y++)
        for (int x = -CDEF_HBORDER; x < bw + CDEF_HBORDER; x++) {
            bool out = ((bmask & 1) && y < 0) || ((bmask & 2) && y >= bh) || ((bmask & 4) && x < 0) || ((bmask & 8) && x >= bw);
            if (out) blk[y * CDEF_BSTRIDE + x] = CDEF_VERY_LARGE;
        }
    int packed = (int)r.pick(0, 1);                      // search path: packed blocks (dstride = block width); final path: picture stride
    int dstride = packed ? bw : bw + 8 * (int)r.pick(0, 8);
    Out<uint8_t> d8(r, "dst8", (size_t)dstride * bh, 4 * (size_t)r.pick(0, 7));
    Out<uint16_t> d16(r, "dst16", (size_t)dstride * bh, 4 * (size_t)r.pick(0, 7));
    d8.rect(bw, bh, dstride, true); d16.rect(bw, bh, dstride, true);
    r.note("bd", bd); r.note("bsize", bsize); r.note("pri", pri); r.note("sec", sec); r.note("dir", dir); r.note("damping", damping); r.note("dst16", use16); r.note("borders", bmask); r.note("dstride", dstride);
    r.exec([&](AnyFn f) {
        ((drv_cdef_filter_block_fn)f)(use16 ? nullptr : d8.p(), use16 ? d16.p() : nullptr, dstride, blk, pri, sec, dir, damping, damping, bsize, shift);
    });
}

typedef int32_t (*drv_cdef_find_dir_fn)(const uint16_t *, int32_t, int32_t *, int32_t);
static void drv_cdef_find_dir(Run &r) {
    int bd = r.pick(0, 1) ? 10 : 8, shift = bd - 8; long long mx = (1 << bd) - 1;
    In<uint16_t> inb((size_t)CDEF_BSTRIDE * 8, 64, 8 * (size_t)r.pick(0, 15));
    inb.fill(r, 0, mx, "img");
    Out<int32_t> var(r, "var", 1);
    r.note("bd", bd);
    r.exec([&](AnyFn f) { r.ret(((drv_cdef_find_dir_fn)f)(inb.p(), CDEF_BSTRIDE, var.p(), shift)); });
}

typedef void (*drv_copy_rect8_8bit_to_16bit_fn)(uint16_t *, int32_t, const uint8_t *, int32_t, int32_t, int32_t);
static void drv_copy_rect8_8bit_to_16bit(Run &r) {
    int v = (int)r.pick(1, 70), h = 2 * (int)r.pick(1, 40);   // copy_sb8_16(): rows (nvb<<l2)+{0,3,6} or 3; columns (nhb<<l2)+{0,8,16} or 8
    int ss = h + 8 * (int)r.pick(0, 8);
    In<uint8_t> src((size_t)ss * v, 64, (size_t)r.pick(0, 31));
    src.fill(r, 0, 255, "src");
    Out<uint16_t> dst(r, "dst", (size_t)CDEF_BSTRIDE * v, (size_t)r.pick(0, 15));
    dst.rect(h, v, CDEF_BSTRIDE, true);
    r.note("v", v); r.note("h", h); r.note("sstride", ss);
    r.exec([&](AnyFn f) { ((drv_copy_rect8_8bit_to_16bit_fn)f)(dst.p(), CDEF_BSTRIDE, src.p(), ss, v, h); });
}

// svt_compute_cdef_dist_{16bit,8bit}(dst, dstride, src(packed filtered blocks), dlist, cdef_count, bsize, coeff_shift, pli)
typedef uint64_t (*drv_cdef_dist_16_fn)(const uint16_t *, int32_t, const uint16_t *, const CdefList *, int32_t, BlockSize, int32_t, int32_t);
typedef uint64_t (*drv_cdef_dist_8_fn)(const uint8_t *, int32_t, const uint8_t *, const CdefList *, int32_t, BlockSize, int32_t, int32_t);
template <class PIX> static void cdef_dist_common(Run &r, bool is16) {
    int bd = is16 ? (r.pick(0, 1) ? 10 : 8) : 8, shift = bd - 8; long long mx = (1 << bd) - 1;
    int pli = (int)r.pick(0, 2);
    int bsize = pli == 0 ? BLOCK_8X8 : BLOCK_4X4, l2 = pli == 0 ? 3 : 2, bs = 1 << l2;      // encoder, 4:2:0
    // svt_sb_compute_cdef_list(): non-skip 8x8 blocks of one 64x64 filter block in raster order, by/bx 0..7
    std::vector<CdefList> dl;
    int density = (int)r.pick(0, 3);
    for (int by = 0; by < 8; by++) for (int bx = 0; bx < 8; bx++) {
        bool take = density == 3 ? true : density == 0 ? false : (r.pick(0, density == 1 ? 3 : 1) == 0);
        if (take) { CdefList c; memset(&c, 0, sizeof c); c.by = (uint8_t)by; c.bx = (uint8_t)bx; c.skip = 0; dl.push_back(c); }
    }
    if (dl.empty()) { CdefList c; memset(&c, 0, sizeof c); c.by = (uint8_t)r.pick(0, 7); c.bx = (uint8_t)r.pick(0, 7); dl.push_back(c); }   // a filter block with no non-skip 8x8 is never searched
    int count = (int)dl.size();
    int dstride = 8 * bs + 8 * (int)r.pick(0, 8);
    In<PIX> pic((size_t)dstride * 8 * bs, 64, 4 * (size_t)r.pick(0, 7));
    pic.fill(r, 0, mx, "picture");
    In<PIX> packed((size_t)count * bs * bs, 64, 0);
    packed.fill(r, 0, mx, "filtered");
    r.note("bd", bd); r.note("pli", pli); r.note("cdef_count", count); r.note("dstride", dstride);
    r.exec([&](AnyFn f) {
        if (is16) r.ret((long long)((drv_cdef_dist_16_fn)f)((const uint16_t *)pic.p(), dstride, (const uint16_t *)packed.p(), dl.data(), count, (BlockSize)bsize, shift, pli));
        else r.ret((long long)((drv_cdef_dist_8_fn)f)((const uint8_t *)pic.p(), dstride, (const uint8_t *)packed.p(), dl.data(), count, (BlockSize)bsize, shift, pli));
    });
}
static void drv_cdef_dist_16(Run &r) { cdef_dist_common<uint16_t>(r, true); }
static void drv_cdef_dist_8(Run &r) { cdef_dist_common<uint8_t>(r, false); }

// ---- svt_av1_[highbd_]wiener_convolve_add_src(src, sstride, dst, dstride, filter_x, filter_y, w, h, conv_params[, bd]) ---------------
typedef void (*drv_wiener_lbd_fn)(const uint8_t *const, const ptrdiff_t, uint8_t *const, const ptrdiff_t, const int16_t *const, const int16_t *const, const int32_t, const int32_t, const ConvolveParams *const);
typedef void (*drv_wiener_hbd_fn)(const uint8_t *const, const ptrdiff_t, uint8_t *const, const ptrdiff_t, const int16_t *const, const int16_t *const, const int32_t, const int32_t, const ConvolveParams *const, const int32_t);
static void pick_wiener_kernel(Run &r, int16_t *f, int chroma) {
    // EbRestoration.h WIENER_FILT_TAP{0,1,2}_{MINV,MAXV}; symmetric, taps sum to 0 (the +128 centre is implicit: "add_src"); chroma window 5 -> tap0 = 0
    int t0 = chroma ? 0 : (int)r.edge(-5, 10), t1 = (int)r.edge(-23, 8), t2 = (int)r.edge(-17, 46);
    f[0] = f[6] = (int16_t)t0; f[1] = f[5] = (int16_t)t1; f[2] = f[4] = (int16_t)t2; f[3] = (int16_t)(-2 * (t0 + t1 + t2)); f[7] = 0;
}
template <class PIX> static void wiener_common(Run &r, bool hbd) {
    int bd = hbd ? (r.pick(0, 1) ? 10 : 8) : 8; long long mx = (1 << bd) - 1;
    int chroma = (int)r.pick(0, 1);
    int w = 16 * (int)r.pick(1, chroma ? 2 : 4), h = 2 * (int)r.pick(1, 32);     // wiener_filter_stripe(): w = min(procunit_width, (remaining+15)&~15), stripe rows
    In<int16_t> fx(8, 64, 8 * (size_t)r.pick(0, 7)), fy(8, 64, 8 * (size_t)r.pick(0, 7));   // DECLARE_ALIGNED(16, InterpKernel)
    memset(fx.lo(), 0, fx.total() * 2); memset(fy.lo(), 0, fy.total() * 2);
    pick_wiener_kernel(r, fx.p(), chroma); pick_wiener_kernel(r, fy.p(), chroma);
    int ss = w + 8 + 8 * (int)r.pick(0, 8);
    In<PIX> src((size_t)ss * (h + 7) + 8, 64, (size_t)r.pick(0, 15));
    src.fill(r, 0, mx, "src");
    const PIX *sp = src.p() + 3 * ss + 3;
    int ds = w + 8 * (int)r.pick(0, 8);
    Out<PIX> dst(r, "dst", (size_t)ds * h, 8 * (size_t)r.pick(0, 7));
    dst.rect(w, h, ds, true);
    ConvolveParams cp; memset(&cp, 0, sizeof cp);
    cp.round_0 = 3; cp.round_1 = 11; cp.dst = nullptr; cp.dst_stride = 0;       // get_conv_params_wiener(8 | 10)
    r.note("w", w); r.note("h", h); r.note("bd", bd); r.note("chroma", chroma);
    r.exec([&](AnyFn f) {
        if (!hbd) ((drv_wiener_lbd_fn)f)((const uint8_t *)sp, ss, (uint8_t *)dst.p(), ds, fx.p(), fy.p(), w, h, &cp);
        else ((drv_wiener_hbd_fn)f)((const uint8_t *)(((uintptr_t)sp) >> 1), ss, (uint8_t *)(((uintptr_t)dst.p()) >> 1), ds, fx.p(), fy.p(), w, h, &cp, bd);
    });
}
static void drv_wiener_lbd(Run &r) { wiener_common<uint8_t>(r, false); }
static void drv_wiener_hbd(Run &r) { wiener_common<uint16_t>(r, true); }

}  // namespace c07
