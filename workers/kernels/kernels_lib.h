// C07 harness core: tape-backed value source (rapidcheck in `gen`, recorded values in `replay`), buffers with guard bands,
// edge-biased fills, reference/variant execution and comparison.
#pragma once
#include <rapidcheck.h>
#include <cstdint>
#include <cstdio>
#include <cstdlib>
#include <cstring>
#include <cstdarg>
#include <string>
#include <vector>
#include <map>
#include <set>
#include <memory>
#include <functional>
#include <stdexcept>

namespace c07 {

typedef void (*AnyFn)(void);

struct Variant { const char *name; const char *isa; AnyFn fn; };
struct Run;
typedef void (*DriverFn)(Run &);
struct Entry {
    const char *ptr;      // dispatch pointer name
    const char *cref;     // C reference symbol
    const char *family;   // family descriptor name
    const char *table;    // "common" | "enc"
    AnyFn cfn;
    std::vector<Variant> vars;
    DriverFn drv;
    std::vector<int> P;   // family parameters (block size, ...)
};

static inline std::string fmt(const char *f, ...) {
    char b[1024]; va_list ap; va_start(ap, f); vsnprintf(b, sizeof b, f, ap); va_end(ap); return std::string(b);
}
static inline uint64_t fnv(const std::string &s, uint64_t h = 1469598103934665603ULL) { for (unsigned char ch : s) { h ^= ch; h *= 1099511628211ULL; } return h; }

// the bound table (set by main): drivers may look up the C reference of ANOTHER entry to build realistic inputs
static const std::vector<Entry> *g_table = nullptr;
static inline AnyFn find_cref(const std::string &ptr_name) {
    if (g_table) for (auto &e : *g_table) if (ptr_name == e.ptr) return e.cfn;
    return nullptr;
}

struct ReplayDesync : std::runtime_error { ReplayDesync() : std::runtime_error("replay tape exhausted / out of range") {} };

// ---------------------------------------------------------------------------------------------------------------------
// Value source: every random choice goes through pick(); the tape of picked values IS the replay text.
struct Src {
    bool replay = false;
    std::vector<long long> tape;
    size_t pos = 0;
    long long pick(long long lo, long long hi) {   // inclusive bounds
        if (hi < lo) hi = lo;
        long long v;
        if (replay) {
            if (pos >= tape.size()) throw ReplayDesync();
            v = tape[pos++];
            if (v < lo || v > hi) throw ReplayDesync();
            return v;
        }
        if (lo == hi) v = lo;
        else v = *rc::gen::resize(100, rc::gen::inRange<long long>(lo, hi + 1));
        tape.push_back(v);
        return v;
    }
};

// ---------------------------------------------------------------------------------------------------------------------
// Aligned raw memory (posix_memalign so that ASan red zones sit directly behind the allocation).
struct Mem {
    void *p = nullptr; size_t bytes = 0;
    Mem() {}
    explicit Mem(size_t b) { alloc(b); }
    void alloc(size_t b) { release(); bytes = b ? b : 1; if (posix_memalign(&p, 64, bytes)) throw std::bad_alloc(); }
    void release() { if (p) free(p); p = nullptr; }
    ~Mem() { release(); }
    Mem(const Mem &) = delete; Mem &operator=(const Mem &) = delete;
};

static const char *const PAT_NAMES[] = {"const", "max", "min", "alt", "spike", "ramp", "rand", "randext", "randsmall"};
enum { PAT_CONST = 0, PAT_MAX, PAT_MIN, PAT_ALT, PAT_SPIKE, PAT_RAMP, PAT_RAND, PAT_RANDEXT, PAT_RANDSMALL, PAT_N };

struct OutBase { virtual void select(bool ref) = 0; virtual std::string compare() = 0; virtual ~OutBase() {} };
struct Run;
// called right before every kernel call (variant index, -1 = C reference): lets main() keep a crash record up to date
static void (*g_pre_call)(Run &, int) = nullptr;

struct Run {
    const Entry *e = nullptr;
    Src *s = nullptr;
    std::vector<int> active;         // indices into e->vars to execute
    // results
    int fail_var = -1; std::string fail_msg;
    bool nontrivial = false;
    std::vector<std::string> labels; // class labels for this case
    std::string desc;                // small JSON-ish description (key:value pairs)
    std::vector<OutBase *> outs;
    std::vector<long long> ret_c, ret_s; std::vector<double> fret_c, fret_s;
    bool in_ref = true;
    bool mild = false;               // entry selected by env C07_MILD=<regex>: family-specific narrower domain (maintainers' unit-test domain)
    int force_pat = -1;              // >= 0: next fill() uses this pattern instead of drawing one

    int P(size_t i) const { return i < e->P.size() ? e->P[i] : 0; }
    long long pick(long long lo, long long hi) { return s->pick(lo, hi); }
    template <class T> T choose(std::initializer_list<T> l) { std::vector<T> v(l); return v[(size_t)pick(0, (long long)v.size() - 1)]; }
    // edge-biased scalar: origin (0 if inside the range, else lo) is the simplest value
    long long edge(long long lo, long long hi) {
        long long k = pick(0, 7);
        switch (k) {
            case 0: return (lo <= 0 && hi >= 0) ? 0 : lo;
            case 1: return hi;
            case 2: return lo;
            case 3: return hi - (hi > lo ? 1 : 0);
            case 4: return lo + (hi > lo ? 1 : 0);
            default: return pick(lo, hi);
        }
    }
    void note(const char *k, long long v) { desc += fmt("%s\"%s\":%lld", desc.empty() ? "" : ",", k, v); }
    void notes(const char *k, const std::string &v) { desc += fmt("%s\"%s\":\"%s\"", desc.empty() ? "" : ",", k, v.c_str()); }
    void label(const std::string &l) { labels.push_back(l); }
    void ret(long long v) { (in_ref ? ret_c : ret_s).push_back(v); }
    void fret(double v) { (in_ref ? fret_c : fret_s).push_back(v); }
    bool failed() const { return fail_var >= 0; }
    // a case the driver cannot build (e.g. a helper entry vanished from the tree): counted, never a failure
    bool skipped = false; std::string skip_reason;
    void skip(const std::string &why) { skipped = true; skip_reason = why; }

    // Fill n elements with an edge-biased pattern over [lo,hi]; all randomness comes from picks.
    template <class T> void fill(T *p, size_t n, long long lo, long long hi, const char *what = "") {
        int pat = force_pat >= 0 ? force_pat : (int)pick(0, PAT_N - 1);
        long long origin = (lo <= 0 && hi >= 0) ? 0 : lo;
        long long range = hi - lo;
        label(std::string("pat:") + PAT_NAMES[pat]);
        if (*what) desc += fmt("%s\"%s\":\"%s\"", desc.empty() ? "" : ",", what, PAT_NAMES[pat]);
        switch (pat) {
            case PAT_CONST: { long long b = edge(lo, hi); for (size_t i = 0; i < n; i++) p[i] = (T)b; if (b != origin) nontrivial = true; break; }
            case PAT_MAX: for (size_t i = 0; i < n; i++) p[i] = (T)hi; nontrivial = true; break;
            case PAT_MIN: for (size_t i = 0; i < n; i++) p[i] = (T)lo; if (lo != origin) nontrivial = true; break;
            case PAT_ALT: { long long ph = pick(0, 1), per = pick(1, 4); for (size_t i = 0; i < n; i++) p[i] = (T)((((i / (size_t)per) + ph) & 1) ? hi : lo); nontrivial = true; break; }
            case PAT_SPIKE: { long long b = edge(lo, hi), v = edge(lo, hi); size_t at = (size_t)pick(0, (long long)n - 1);
                              for (size_t i = 0; i < n; i++) p[i] = (T)b; if (n) p[at] = (T)v; nontrivial = true; break; }
            case PAT_RAMP: { long long st = pick(1, 17), up = pick(0, 1), b = pick(lo, hi);
                             for (size_t i = 0; i < n; i++) { long long o = (long long)(((unsigned long long)i * (unsigned long long)st + (unsigned long long)(b - lo)) % (unsigned long long)(range + 1)); p[i] = (T)(up ? lo + o : hi - o); }
                             nontrivial = true; break; }
            default: {
                uint64_t x = (uint64_t)pick(0, 0x7fffffff) * 2654435761ULL + 88172645463325252ULL;
                long long amp = pat == PAT_RANDSMALL ? pick(0, 8) : 0, b = pat == PAT_RANDSMALL ? edge(lo, hi) : 0;
                for (size_t i = 0; i < n; i++) {
                    x ^= x << 13; x ^= x >> 7; x ^= x << 17;
                    long long v;
                    if (pat == PAT_RAND) v = lo + (long long)((x >> 11) % (uint64_t)(range + 1));
                    else if (pat == PAT_RANDEXT) { long long d = (long long)((x >> 20) % 3); if (d > range) d = range; v = ((x >> 40) & 1) ? hi - d : lo + d; }
                    else { v = b + (long long)((x >> 11) % (uint64_t)(2 * amp + 1)) - amp; if (v < lo) v = lo; if (v > hi) v = hi; }
                    p[i] = (T)v;
                }
                nontrivial = true;
            }
        }
        // optional extra spikes (shrink to none)
        long long ns = pick(0, 3);
        for (long long k = 0; k < ns && n; k++) { size_t at = (size_t)pick(0, (long long)n - 1); p[at] = (T)edge(lo, hi); nontrivial = true; }
    }

    void fail(int var, const std::string &m) { if (fail_var < 0) { fail_var = var; fail_msg = m; } }

    // Execute the reference then every active variant; `body(fn)` performs one kernel call using Out<>::p() pointers.
    template <class F> void exec(F &&body) {
        in_ref = true; ret_c.clear(); fret_c.clear();
        for (auto *o : outs) o->select(true);
        if (g_pre_call) g_pre_call(*this, -1);
        body(e->cfn);
        for (int vi : active) {
            if (failed()) return;
            in_ref = false; ret_s.clear(); fret_s.clear();
            for (auto *o : outs) o->select(false);
            if (g_pre_call) g_pre_call(*this, vi);
            body(e->vars[vi].fn);
            if (ret_c.size() != ret_s.size()) { fail(vi, "harness: return-value count differs"); return; }
            for (size_t i = 0; i < ret_c.size(); i++)
                if (ret_c[i] != ret_s[i]) { fail(vi, fmt("return value #%zu differs: c=%lld simd=%lld", i, ret_c[i], ret_s[i])); return; }
            for (size_t i = 0; i < fret_c.size(); i++)
                if (memcmp(&fret_c[i], &fret_s[i], sizeof(double)) != 0) { fail(vi, fmt("float return value #%zu differs: c=%.17g simd=%.17g", i, fret_c[i], fret_s[i])); return; }
            for (auto *o : outs) { std::string m = o->compare(); if (!m.empty()) { fail(vi, m); return; } }
        }
    }
};

// ---------------------------------------------------------------------------------------------------------------------
// Input buffer: n logical elements with `margin` readable elements on both sides (real callers hand kernels pointers into
// padded pictures / oversized scratch arrays), 64-byte aligned base plus an element offset.
template <class T> struct In {
    Mem m; T *ptr; size_t n, margin;
    In(size_t n_, size_t margin_ = 64, size_t off_elems = 0) : n(n_), margin((margin_ + 63) / 64 * 64) {
        m.alloc((margin * 2 + n + off_elems + 64) * sizeof(T));
        ptr = (T *)m.p + margin + off_elems;
    }
    T *p() { return ptr; }
    T *lo() { return (T *)m.p; }
    size_t total() const { return m.bytes / sizeof(T); }
    void fill(Run &r, long long lo_, long long hi_, const char *what = "") { r.fill(lo(), total(), lo_, hi_, what); }
    T &operator[](long long i) { return ptr[i]; }
};

// Output (or in/out) buffer: two private copies (reference / variant) initialised identically, surrounded by guard bands.
// Compare modes: FULL = every element of the logical range must match; RECT = only h rows of w elements (row gap ignored or strict).
template <class T> struct Out : OutBase {
    Mem mc, ms; std::vector<T> init; size_t n, guard, off; T *cur = nullptr; const char *name;
    int mode = 0; size_t w = 0, h = 0, stride = 0; bool strict_gap = true; size_t prefix = 0; bool has_prefix = false;
    std::vector<unsigned char> mask;   // optional: 1 = compare this logical element (overrides mode when non-empty)
    Out(Run &r, const char *name_, size_t n_, size_t off_elems = 0, size_t guard_elems = 64)
        : n(n_), guard((guard_elems + 63) / 64 * 64), off(off_elems), name(name_) {
        size_t tot = guard * 2 + n + off + 64;
        mc.alloc(tot * sizeof(T)); ms.alloc(tot * sizeof(T));
        init.resize(tot);
        T sent; memset(&sent, 0xA5, sizeof(T));
        for (auto &v : init) v = sent;
        r.outs.push_back(this);
    }
    size_t total() const { return init.size(); }
    T *logical(Mem &m) { return (T *)m.p + guard + off; }
    T *p() { return cur; }                       // pointer for the current phase
    T *initp() { return init.data() + guard + off; }   // initial content of the logical range (fill before exec)
    void fill_init(Run &r, long long lo, long long hi, const char *what = "") { r.fill(initp(), n, lo, hi, what); }
    void rect(size_t w_, size_t h_, size_t stride_, bool strict_gap_ = true) { mode = 1; w = w_; h = h_; stride = stride_; strict_gap = strict_gap_; }
    void only_prefix(size_t k) { has_prefix = true; prefix = k; }
    void select(bool ref) override { Mem &m = ref ? mc : ms; memcpy(m.p, init.data(), init.size() * sizeof(T)); cur = logical(m); }
    std::string compare() override {
        const T *c = (const T *)mc.p, *s = (const T *)ms.p; size_t L = guard + off, tot = init.size();
        // guard bands: untouched in both
        for (size_t i = 0; i < tot; i++) {
            if (i >= L && i < L + n) continue;
            if (memcmp(&c[i], &init[i], sizeof(T)) != 0) return fmt("%s: C reference wrote outside its output (guard element %lld)", name, (long long)i - (long long)L);
            if (memcmp(&s[i], &init[i], sizeof(T)) != 0) return fmt("%s: variant wrote outside the output (guard element %lld)", name, (long long)i - (long long)L);
        }
        for (size_t i = 0; i < n; i++) {
            bool cmp = true;
            if (!mask.empty()) cmp = mask[i] != 0;
            else if (has_prefix) cmp = i < prefix;
            else if (mode == 1) { size_t y = i / stride, x = i % stride; cmp = (y < h && x < w) || strict_gap; }
            if (!cmp) continue;
            if (memcmp(&c[L + i], &s[L + i], sizeof(T)) != 0) {
                if (mode == 1) return fmt("%s[y=%zu,x=%zu] differs: c=%lld simd=%lld%s", name, i / stride, i % stride, (long long)c[L + i], (long long)s[L + i],
                                          ((i / stride) < h && (i % stride) < w) ? "" : " (outside the w x h block, inside the stride)");
                return fmt("%s[%zu] differs: c=%lld simd=%lld", name, i, (long long)c[L + i], (long long)s[L + i]);
            }
        }
        return "";
    }
};

}  // namespace c07
