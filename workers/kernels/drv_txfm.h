// Family drivers: forward 2D transforms (full / N2 / N4), handle_transform re-pack, inverse 2D transforms (highbd add, lowbd add).
#pragma once
#include "kernels_lib.h"
#include "EbDefinitions.h"
#include "EbCoefficients.h"
#include "EbInvTransforms.h"

namespace c07 {

static inline int txsize_of(int w, int h) {
    for (int i = 0; i < TX_SIZES_ALL; i++) if (tx_size_wide[i] == w && tx_size_high[i] == h) return i;
    return -1;
}
// Transform types the codec can select for a size (AV1 ext-tx sets; EbTransforms.c routes everything else to the C function directly):
// any dimension 64 -> DCT_DCT; largest dimension 32 -> DCT_DCT, IDTX; otherwise all 16.
static inline std::vector<int> tx_types_allowed(int w, int h) {
    int mx = w > h ? w : h;
    if (mx >= 64) return {DCT_DCT};
    if (mx == 32) return {DCT_DCT, IDTX};
    std::vector<int> v; for (int t = 0; t < TX_TYPES; t++) v.push_back(t); return v;
}
static inline int pick_tx_type(Run &r, int w, int h) { auto v = tx_types_allowed(w, h); return v[(size_t)r.pick(0, (long long)v.size() - 1)]; }

typedef void (*drv_fwd_txfm2d_fn)(int16_t *, int32_t *, uint32_t, TxType, uint8_t);
typedef uint64_t (*drv_handle_transform_fn)(int32_t *);

// ---- svt_av1_fwd_txfm2d_WxH[_N2|_N4](input, output, input_stride, tx_type, bit_depth) ----------------------------------
// P: w h shape(0 full, 2 N2, 4 N4)
static void drv_fwd_txfm2d(Run &r) {
    int w = r.P(0), h = r.P(1);
    int bd = r.pick(0, 1) ? 10 : 8; long long mx = (1 << bd) - 1;
    int type = pick_tx_type(r, w, h);
    int st = w + 4 * (int)r.pick(0, 16), off = 4 * (int)r.pick(0, 15);
    In<int16_t> in((size_t)st * h, 64, off);
    in.fill(r, -mx, mx, "residual");
    Out<int32_t> out(r, "coeff", (size_t)w * h, 16 * (size_t)r.pick(0, 3));
    r.note("w", w); r.note("h", h); r.note("shape", r.P(2)); r.note("bd", bd); r.note("tx_type", type); r.note("stride", st);
    r.exec([&](AnyFn f) { ((drv_fwd_txfm2d_fn)f)(in.p(), out.p(), (uint32_t)st, (TxType)type, (uint8_t)bd); });
}

// Build the coefficient block of a w x h transform the way the encoder does: C forward transform of an in-range residual
// (+ the 64-point re-pack), written to `coef` (w*h int32).  Returns false if a helper entry is missing from the table.
static bool make_coeffs(Run &r, int w, int h, int type, int bd, int shape, int32_t *coef, bool repack) {
    std::string nm = fmt("svt_av1_fwd_txfm2d_%dx%d%s", w, h, shape == 2 ? "_N2" : shape == 4 ? "_N4" : "");
    AnyFn fw = find_cref(nm);
    if (!fw) { r.skip("no " + nm); return false; }
    long long mx = (1 << bd) - 1;
    In<int16_t> res((size_t)w * h);
    if (r.mild) r.force_pat = PAT_RAND;      // mild domain = test/InvTxfm2dAsmTest.cc: uniformly random residual
    res.fill(r, -mx, mx, "residual");
    r.force_pat = -1;
    ((drv_fwd_txfm2d_fn)fw)(res.p(), coef, (uint32_t)w, (TxType)type, (uint8_t)bd);
    if (repack && (w == 64 || h == 64)) {
        std::string hn = shape ? fmt("handle_transform%dx%d_N2_N4", w, h) : fmt("svt_handle_transform%dx%d", w, h);
        AnyFn ht = find_cref(hn);
        if (!ht) { r.skip("no " + hn); return false; }
        ((drv_handle_transform_fn)ht)(coef);
    }
    return true;
}

// ---- svt_handle_transformWxH(output) / handle_transformWxH_N2_N4(output) -> three_quad_energy --------------------------
// P: w h kind(0 after the full transform, 1 after the N2/N4 transform)
static void drv_handle_transform(Run &r) {
    int w = r.P(0), h = r.P(1), kind = r.P(2);
    int bd = r.pick(0, 1) ? 10 : 8;
    int shape = kind ? (r.pick(0, 1) ? 4 : 2) : 0;
    Out<int32_t> buf(r, "coeff", (size_t)w * h);
    if (!make_coeffs(r, w, h, DCT_DCT, bd, shape, buf.initp(), false)) return;
    r.note("w", w); r.note("h", h); r.note("bd", bd); r.note("shape", shape);
    r.exec([&](AnyFn f) { r.ret((long long)((drv_handle_transform_fn)f)(buf.p())); });
}

// Quantise / dequantise the way an encoder at some qindex would (multiples of a step), truncate at a drawn eob in scan order.
// Returns the exact eob (last non-zero + 1, >= 1).
static int shape_coeffs(Run &r, int w, int h, int type, int bd, int32_t *coef) {
    int txs = txsize_of(w, h);
    int aw = w > 32 ? 32 : w, ah = h > 32 ? 32 : h, max_eob = aw * ah;
    long long maxstep = bd == 8 ? 1828 : 7312;               // largest AC dequant step of the AV1 tables for the bit depth
    long long step = (r.mild || r.pick(0, 2) == 0) ? 1 : r.edge(1, maxstep);
    int nearest = (int)r.pick(0, 1);
    long long lim = 1LL << (bd + 7);                          // AV1: dequantised coefficients fit 8+bd bits signed
    for (int i = 0; i < max_eob; i++) {
        long long c = coef[i], a = c < 0 ? -c : c;
        a = ((a + (nearest ? step / 2 : 0)) / step) * step;
        c = c < 0 ? -a : a;
        if (c < -lim) c = -lim; if (c > lim - 1) c = lim - 1;
        coef[i] = (int32_t)c;
    }
    const int16_t *scan = av1_scan_orders[txs][type].scan;
    int cut = (int)r.pick(1, max_eob);
    // triage aid: C07_NO_EOB_CUT=1 keeps every coefficient the quantiser step left non-zero (no additional end-of-block truncation);
    // part of the case like C07_MILD (replay needs the same setting)
    static const bool no_cut = getenv("C07_NO_EOB_CUT") && *getenv("C07_NO_EOB_CUT") == '1';
    if (no_cut) cut = max_eob;
    for (int i = cut; i < max_eob; i++) coef[scan[i]] = 0;
    int eob = 0;
    for (int i = 0; i < cut; i++) if (coef[scan[i]]) eob = i + 1;
    if (eob == 0) { coef[scan[0]] = (int32_t)step; eob = 1; }   // callers only invoke the inverse transform when eob > 0
    r.note("qstep", step); r.note("eob", eob);
    return eob;
}

// ---- svt_av1_inv_txfm2d_add_WxH(input, output_r, stride_r, output_w, stride_w, tx_type[, tx_size[, eob]], bd) -----------
typedef void (*drv_inv_txfm2d_sqr_fn)(const int32_t *, uint16_t *, int32_t, uint16_t *, int32_t, TxType, int32_t);
typedef void (*drv_inv_txfm2d_rect_fn)(const int32_t *, uint16_t *, int32_t, uint16_t *, int32_t, TxType, TxSize, int32_t, int32_t);
typedef void (*drv_inv_txfm2d_rect2_fn)(const int32_t *, uint16_t *, int32_t, uint16_t *, int32_t, TxType, TxSize, int32_t);
typedef void (*drv_inv_txfm_add_fn)(const TranLow *, uint8_t *, int32_t, uint8_t *, int32_t, const TxfmParam *);

template <class PIX> static void inv_common(Run &r, int w, int h, int kind, int bd) {
    int type = pick_tx_type(r, w, h);
    int alias = (int)r.pick(0, 1);           // decoder + encoder recon: output_r == output_w ; encoder MD: prediction -> recon buffer
    int txs = txsize_of(w, h);
    int aw = w > 32 ? 32 : w, ah = h > 32 ? 32 : h;
    In<int32_t> coef((size_t)w * h, 64, 16 * (size_t)r.pick(0, 3));
    memset(coef.lo(), 0, coef.total() * sizeof(int32_t));
    if (!make_coeffs(r, w, h, type, bd, 0, coef.p(), true)) return;
    int eob = shape_coeffs(r, w, h, type, bd, coef.p());
    // EbInvTransforms.c: "When output pointers to read and write are differents ... cannot be limited by End Of Buffer" -> eob = max_eob
    int eob_arg = alias ? eob : aw * ah;
    long long mx = (1 << bd) - 1;
    int sr = w + 4 * (int)r.pick(0, 16), sw = alias ? sr : w + 4 * (int)r.pick(0, 16);
    int off = 4 * (int)r.pick(0, 15);
    Out<PIX> dr(r, alias ? "dst" : "dst_r", (size_t)sr * h, off);
    dr.fill_init(r, 0, mx, "dst");
    std::unique_ptr<Out<PIX>> dw;
    if (alias) dr.rect(w, h, sr, true);
    else { dw.reset(new Out<PIX>(r, "dst_w", (size_t)sw * h, 4 * (size_t)r.pick(0, 15))); dw->rect(w, h, sw, true); }
    r.note("w", w); r.note("h", h); r.note("bd", bd); r.note("tx_type", type); r.note("alias", alias); r.note("stride_r", sr); r.note("stride_w", sw);
    TxfmParam prm; memset(&prm, 0, sizeof prm);
    prm.tx_type = (TxType)type; prm.tx_size = (TxSize)txs; prm.lossless = 0; prm.bd = bd; prm.is_hbd = 1; prm.eob = eob_arg;
    r.exec([&](AnyFn f) {
        PIX *pr = dr.p(), *pw = alias ? dr.p() : dw->p();
        switch (kind) {
            case 0: ((drv_inv_txfm2d_sqr_fn)f)(coef.p(), (uint16_t *)pr, sr, (uint16_t *)pw, sw, (TxType)type, bd); break;
            case 1: ((drv_inv_txfm2d_rect_fn)f)(coef.p(), (uint16_t *)pr, sr, (uint16_t *)pw, sw, (TxType)type, (TxSize)txs, eob_arg, bd); break;
            case 2: ((drv_inv_txfm2d_rect2_fn)f)(coef.p(), (uint16_t *)pr, sr, (uint16_t *)pw, sw, (TxType)type, (TxSize)txs, bd); break;
            default: ((drv_inv_txfm_add_fn)f)((const TranLow *)coef.p(), (uint8_t *)pr, sr, (uint8_t *)pw, sw, &prm); break;
        }
    });
}
// P: w h
static void drv_inv_txfm2d_sqr(Run &r) { inv_common<uint16_t>(r, r.P(0), r.P(1), 0, r.pick(0, 1) ? 10 : 8); }
static void drv_inv_txfm2d_rect(Run &r) { inv_common<uint16_t>(r, r.P(0), r.P(1), 1, r.pick(0, 1) ? 10 : 8); }
static void drv_inv_txfm2d_rect2(Run &r) { inv_common<uint16_t>(r, r.P(0), r.P(1), 2, r.pick(0, 1) ? 10 : 8); }
// svt_av1_inv_txfm_add: 8-bit pixels, any of the 19 transform sizes through TxfmParam
static void drv_inv_txfm_add(Run &r) {
    int txs = (int)r.pick(0, TX_SIZES_ALL - 1);
    inv_common<uint8_t>(r, tx_size_wide[txs], tx_size_high[txs], 3, 8);
}

}  // namespace c07
