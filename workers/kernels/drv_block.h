// Family drivers: SAD / SADx4d / variance / highbd variance / mse / OBMC sad + variance + sub-pixel variance.
// Domains: see /verif/oracles/c07_families.json (each family's `source`).
#pragma once
#include "kernels_lib.h"

namespace c07 {

// Stride of a picture-like buffer: width + 0..64 extra.  `unit` = granularity the callers guarantee (elements).
static inline int pick_stride(Run &r, int w, int unit = 1) {
    int k = (int)r.pick(0, 64 / unit);
    return (w + unit - 1) / unit * unit + k * unit;
}

// ---- svt_aom_sadWxH(src, src_stride, ref, ref_stride) -> uint32 --------------------------------------------------------
typedef uint32_t (*drv_sad_fn)(const uint8_t *, int, const uint8_t *, int);
static void drv_sad(Run &r) {
    int w = r.P(0), h = r.P(1);
    int ss = pick_stride(r, w), rs = pick_stride(r, w);
    int so = (int)r.pick(0, 15) * 4, ro = (int)r.pick(0, 63);      // src = block origin inside a picture (multiple of 4), ref = any pixel position
    In<uint8_t> src((size_t)ss * h, 64, so), ref((size_t)rs * h, 64, ro);
    src.fill(r, 0, 255, "src"); ref.fill(r, 0, 255, "ref");
    r.note("w", w); r.note("h", h); r.note("src_stride", ss); r.note("ref_stride", rs);
    r.exec([&](AnyFn f) { r.ret(((drv_sad_fn)f)(src.p(), ss, ref.p(), rs)); });
}

// ---- svt_aom_sadWxHx4d(src, src_stride, ref[4], ref_stride, sad_array[4]) ---------------------------------------------
typedef void (*drv_sad4d_fn)(const uint8_t *, int, const uint8_t *const[], int, uint32_t *);
static void drv_sad4d(Run &r) {
    int w = r.P(0), h = r.P(1);
    int ss = pick_stride(r, w), rs = pick_stride(r, w);
    int so = (int)r.pick(0, 15) * 4;
    // the four candidates are positions in ONE reference picture (same stride): offsets inside a window
    int win = 16;
    In<uint8_t> src((size_t)ss * h, 64, so), ref((size_t)rs * (h + win) + win, 64, (size_t)r.pick(0, 63));
    src.fill(r, 0, 255, "src"); ref.fill(r, 0, 255, "ref");
    const uint8_t *refs[4];
    for (int i = 0; i < 4; i++) refs[i] = ref.p() + r.pick(0, win - 1) * rs + r.pick(0, win - 1);
    Out<uint32_t> out(r, "sad_array", 4);
    r.note("w", w); r.note("h", h); r.note("src_stride", ss); r.note("ref_stride", rs);
    r.exec([&](AnyFn f) { ((drv_sad4d_fn)f)(src.p(), ss, refs, rs, out.p()); });
}

// ---- svt_aom_varianceWxH(src, src_stride, ref, ref_stride, &sse) -> variance ------------------------------------------
// P: w h hbd(0|1) bit_depth(hbd only) ignore_return(0|1)
typedef unsigned int (*drv_variance_fn)(const uint8_t *, int, const uint8_t *, int, unsigned int *);
typedef void (*drv_variance_void_fn)(const uint8_t *, int32_t, const uint8_t *, int32_t, uint32_t *);
static void drv_variance_impl(Run &r, bool is_void) {
    int w = r.P(0), h = r.P(1), hbd = r.P(2);
    const bool cmp_ret = !r.P(4);   // P(4)=1: documented divergence of the (unused) return value, see family `source`
    if (!cmp_ret) r.label("return-value-not-compared");
    int ss = pick_stride(r, w), rs = pick_stride(r, w);
    // EbPictureAnalysisProcess.c calls vf(src, stride, eb_av1_var_offs, 0, &sse): ref stride 0 over a constant row (8-bit only)
    bool zero_stride = !hbd && r.pick(0, 9) == 9;
    if (zero_stride) rs = 0;
    int so = (int)r.pick(0, 15) * 4, ro = (int)r.pick(0, 63);
    Out<unsigned int> sse(r, "sse", 1);
    r.note("w", w); r.note("h", h); r.note("src_stride", ss); r.note("ref_stride", rs); r.note("hbd", hbd);
    if (!hbd) {
        In<uint8_t> src((size_t)ss * h, 64, so), ref((size_t)(rs ? rs : w) * h, 64, ro);
        src.fill(r, 0, 255, "src"); ref.fill(r, 0, 255, "ref");
        r.exec([&](AnyFn f) {
            if (is_void) ((drv_variance_void_fn)f)(src.p(), ss, ref.p(), rs, sse.p());
            else { unsigned v = ((drv_variance_fn)f)(src.p(), ss, ref.p(), rs, sse.p()); if (cmp_ret) r.ret(v); }
        });
    } else {
        // highbd: pointers are CONVERT_TO_BYTEPTR(uint16_t*); bit depth per P(3) (10 for highbd_10_*, 8 for highbd_8_*)
        int bd = r.P(3) ? r.P(3) : 10; long long mx = (1 << bd) - 1;
        In<uint16_t> src((size_t)ss * h, 64, so), ref((size_t)rs * h, 64, ro);
        src.fill(r, 0, mx, "src"); ref.fill(r, 0, mx, "ref");
        const uint8_t *s8 = (const uint8_t *)(((uintptr_t)src.p()) >> 1), *r8 = (const uint8_t *)(((uintptr_t)ref.p()) >> 1);
        r.exec([&](AnyFn f) {
            if (is_void) ((drv_variance_void_fn)f)(s8, ss, r8, rs, sse.p());
            else { unsigned v = ((drv_variance_fn)f)(s8, ss, r8, rs, sse.p()); if (cmp_ret) r.ret(v); }
        });
    }
}
static void drv_variance(Run &r) { drv_variance_impl(r, false); }
static void drv_variance_void(Run &r) { drv_variance_impl(r, true); }

// ---- OBMC: pre 8-bit, wsrc/mask int32 arrays of w*h (stride w) ---------------------------------------------------------
// mask in [0,4096]; wsrc = src*4096 - q*(4096-mask) with src,q 8-bit  (calc_target_weighted_pred, EbEncInterPrediction.c)
static void obmc_inputs(Run &r, int w, int h, In<int32_t> &wsrc, In<int32_t> &mask) {
    size_t n = (size_t)w * h;
    std::vector<int32_t> m(n), s(n), q(n);
    r.fill(m.data(), n, 0, 4096, "mask"); r.fill(s.data(), n, 0, 255, "wsrc_src"); r.fill(q.data(), n, 0, 255, "wsrc_pred");
    // margins: zero mask / zero wsrc (never read by a correct kernel)
    memset(wsrc.lo(), 0, wsrc.total() * 4); memset(mask.lo(), 0, mask.total() * 4);
    for (size_t i = 0; i < n; i++) { mask[i] = m[i]; wsrc[i] = s[i] * 4096 - q[i] * (4096 - m[i]); }
}
typedef unsigned int (*drv_obmc_sad_fn)(const uint8_t *, int, const int32_t *, const int32_t *);
static void drv_obmc_sad(Run &r) {
    int w = r.P(0), h = r.P(1);
    int ps = pick_stride(r, w);
    In<uint8_t> pre((size_t)ps * h, 64, (size_t)r.pick(0, 63));
    pre.fill(r, 0, 255, "pre");
    In<int32_t> wsrc((size_t)w * h), mask((size_t)w * h);
    obmc_inputs(r, w, h, wsrc, mask);
    r.note("w", w); r.note("h", h); r.note("pre_stride", ps);
    r.exec([&](AnyFn f) { r.ret(((drv_obmc_sad_fn)f)(pre.p(), ps, wsrc.p(), mask.p())); });
}
typedef unsigned int (*drv_obmc_variance_fn)(const uint8_t *, int, const int32_t *, const int32_t *, unsigned int *);
static void drv_obmc_variance(Run &r) {
    int w = r.P(0), h = r.P(1);
    int ps = pick_stride(r, w);
    In<uint8_t> pre((size_t)ps * h, 64, (size_t)r.pick(0, 63));
    pre.fill(r, 0, 255, "pre");
    In<int32_t> wsrc((size_t)w * h), mask((size_t)w * h);
    obmc_inputs(r, w, h, wsrc, mask);
    Out<unsigned int> sse(r, "sse", 1);
    r.note("w", w); r.note("h", h); r.note("pre_stride", ps);
    r.exec([&](AnyFn f) { r.ret(((drv_obmc_variance_fn)f)(pre.p(), ps, wsrc.p(), mask.p(), sse.p())); });
}
typedef unsigned int (*drv_obmc_subpel_variance_fn)(const uint8_t *, int, int, int, const int32_t *, const int32_t *, unsigned int *);
static void drv_obmc_subpel_variance(Run &r) {
    int w = r.P(0), h = r.P(1);
    int ps = pick_stride(r, w + 1);
    int xo = (int)r.pick(0, 7), yo = (int)r.pick(0, 7);   // sp(x) = x & 7 in av1me.c
    In<uint8_t> pre((size_t)ps * (h + 1) + 1, 64, (size_t)r.pick(0, 63));
    pre.fill(r, 0, 255, "pre");
    In<int32_t> wsrc((size_t)w * h), mask((size_t)w * h);
    obmc_inputs(r, w, h, wsrc, mask);
    Out<unsigned int> sse(r, "sse", 1);
    r.note("w", w); r.note("h", h); r.note("pre_stride", ps); r.note("xoffset", xo); r.note("yoffset", yo);
    r.exec([&](AnyFn f) { r.ret(((drv_obmc_subpel_variance_fn)f)(pre.p(), ps, xo, yo, wsrc.p(), mask.p(), sse.p())); });
}

}  // namespace c07
