// Family drivers: intra predictors (dc/v/h/smooth/paeth lbd + hbd, directional z1/z2/z3, filter-intra, edge filter / upsample, CfL).
#pragma once
#include "kernels_lib.h"

namespace c07 {

// Edge arrays as the callers build them (EbEncIntraPrediction.c / EbDecIntraPrediction.c): DECLARE_ALIGNED(16, T, data[MAX_TX_SIZE*2+32]),
// row = data + 16 -> 16-byte aligned pointer, 16 readable elements before, 2*64+16 after.
template <class T> struct EdgeBuf {
    Mem m; T *ptr;
    EdgeBuf() { m.alloc((64 * 2 + 32 + 64) * sizeof(T)); ptr = (T *)m.p + 16; }   // (T*)m.p is 64-aligned, +16 elements keeps 16-byte alignment
    T *p() { return ptr; }
    size_t total() const { return 64 * 2 + 32; }
    void fill(Run &r, long long lo, long long hi, const char *what) { r.fill((T *)m.p, total(), lo, hi, what); }
};

// dst of a predictor: a transform-block origin inside a prediction/recon buffer -> offset multiple of min(w,4) pixels, stride multiple of 4 pixels.
static inline int intra_stride(Run &r, int w) { int k = (int)r.pick(0, 16); return (w < 4 ? 4 : w) + 4 * k; }

// ---- svt_aom_<mode>_predictor_WxH(dst, stride, above, left) ------------------------------------------------------------
typedef void (*drv_intra_lbd_fn)(uint8_t *, ptrdiff_t, const uint8_t *, const uint8_t *);
static void drv_intra_lbd(Run &r) {
    int w = r.P(0), h = r.P(1);
    int st = intra_stride(r, w), off = (int)r.pick(0, 15) * 4;
    EdgeBuf<uint8_t> above, left;
    above.fill(r, 0, 255, "above"); left.fill(r, 0, 255, "left");
    Out<uint8_t> dst(r, "dst", (size_t)st * h, off);
    dst.rect(w, h, st, true);
    r.note("w", w); r.note("h", h); r.note("stride", st);
    r.exec([&](AnyFn f) { ((drv_intra_lbd_fn)f)(dst.p(), st, above.p(), left.p()); });
}

// ---- svt_aom_highbd_<mode>_predictor_WxH(dst, stride, above, left, bd) -------------------------------------------------
typedef void (*drv_intra_hbd_fn)(uint16_t *, ptrdiff_t, const uint16_t *, const uint16_t *, int32_t);
static void drv_intra_hbd(Run &r) {
    int w = r.P(0), h = r.P(1);
    int bd = r.pick(0, 1) ? 10 : 8;    // the codec supports 8- and 10-bit only (16-bit pipeline may carry 8-bit content)
    long long mx = (1 << bd) - 1;
    int st = intra_stride(r, w), off = (int)r.pick(0, 15) * (w < 4 ? 2 : 4);
    EdgeBuf<uint16_t> above, left;
    above.fill(r, 0, mx, "above"); left.fill(r, 0, mx, "left");
    Out<uint16_t> dst(r, "dst", (size_t)st * h, off);
    dst.rect(w, h, st, true);
    r.note("w", w); r.note("h", h); r.note("stride", st); r.note("bd", bd);
    r.exec([&](AnyFn f) { ((drv_intra_hbd_fn)f)(dst.p(), st, above.p(), left.p(), bd); });
}

// ---- directional predictors --------------------------------------------------------------------------------------------
// p_angle = mode_to_angle_map[mode] + 3*angle_delta (delta -3..3) -> the angles below; dx/dy from eb_dr_intra_derivative exactly as
// get_dx()/get_dy() in EbIntraPrediction.c.  upsample_* only when use_intra_edge_upsample() can return 1 (bw+bh <= 16, 0 < |delta| < 40).
}  // namespace c07
extern "C" const uint16_t eb_dr_intra_derivative[90];   // EbIntraPrediction.c (the table get_dx()/get_dy() index)
namespace c07 {
#define k_dr_deriv eb_dr_intra_derivative
static inline int dr_dx(int a) { return (a > 0 && a < 90) ? k_dr_deriv[a] : (a > 90 && a < 180) ? k_dr_deriv[180 - a] : 1; }
static inline int dr_dy(int a) { return (a > 90 && a < 180) ? k_dr_deriv[a - 90] : (a > 180 && a < 270) ? k_dr_deriv[270 - a] : 1; }
static inline int pick_angle(Run &r, int zone) {
    static const int base[8] = {90, 180, 45, 135, 113, 157, 203, 67};
    std::vector<int> v;
    for (int b : base) for (int d = -3; d <= 3; d++) {
        int a = b + 3 * d; if (a == 90 || a == 180) continue;
        int z = a < 90 ? 1 : a < 180 ? 2 : 3;
        if (z == zone && a > 0 && a < 270) v.push_back(a);
    }
    return v[(size_t)r.pick(0, (long long)v.size() - 1)];
}
static inline int upsample_possible(int bs0, int bs1, int delta) { int d = delta < 0 ? -delta : delta; return d > 0 && d < 40 && bs0 + bs1 <= 16; }

typedef void (*drv_dr_z13_lbd_fn)(uint8_t *, ptrdiff_t, int32_t, int32_t, const uint8_t *, const uint8_t *, int32_t, int32_t, int32_t);
typedef void (*drv_dr_z2_lbd_fn)(uint8_t *, ptrdiff_t, int32_t, int32_t, const uint8_t *, const uint8_t *, int32_t, int32_t, int32_t, int32_t);
typedef void (*drv_dr_z13_hbd_fn)(uint16_t *, ptrdiff_t, int32_t, int32_t, const uint16_t *, const uint16_t *, int32_t, int32_t, int32_t, int32_t);
typedef void (*drv_dr_z2_hbd_fn)(uint16_t *, ptrdiff_t, int32_t, int32_t, const uint16_t *, const uint16_t *, int32_t, int32_t, int32_t, int32_t, int32_t);
template <class PIX> static void dr_common(Run &r, int zone, bool hbd) {
    int txs = (int)r.pick(0, TX_SIZES_ALL - 1); int bw = tx_size_wide[txs], bh = tx_size_high[txs];
    int bd = hbd ? (r.pick(0, 1) ? 10 : 8) : 8; long long mx = (1 << bd) - 1;
    int angle = pick_angle(r, zone), dx = dr_dx(angle), dy = dr_dy(angle);
    int ua = (zone != 3 && upsample_possible(bw, bh, angle - 90)) ? (int)r.pick(0, 1) : 0;
    int ul = (zone != 1 && upsample_possible(bh, bw, angle - 180)) ? (int)r.pick(0, 1) : 0;
    int st = intra_stride(r, bw), off = (int)r.pick(0, 15) * 4;
    EdgeBuf<PIX> above, left;
    above.fill(r, 0, mx, "above"); left.fill(r, 0, mx, "left");
    Out<PIX> dst(r, "dst", (size_t)st * bh, off);
    dst.rect(bw, bh, st, true);
    r.note("bw", bw); r.note("bh", bh); r.note("angle", angle); r.note("upsample_above", ua); r.note("upsample_left", ul); r.note("bd", bd); r.note("stride", st);
    r.exec([&](AnyFn f) {
        if (!hbd) {
            if (zone == 2) ((drv_dr_z2_lbd_fn)f)((uint8_t *)dst.p(), st, bw, bh, (const uint8_t *)above.p(), (const uint8_t *)left.p(), ua, ul, dx, dy);
            else ((drv_dr_z13_lbd_fn)f)((uint8_t *)dst.p(), st, bw, bh, (const uint8_t *)above.p(), (const uint8_t *)left.p(), zone == 1 ? ua : ul, dx, dy);
        } else {
            if (zone == 2) ((drv_dr_z2_hbd_fn)f)((uint16_t *)dst.p(), st, bw, bh, (const uint16_t *)above.p(), (const uint16_t *)left.p(), ua, ul, dx, dy, bd);
            else ((drv_dr_z13_hbd_fn)f)((uint16_t *)dst.p(), st, bw, bh, (const uint16_t *)above.p(), (const uint16_t *)left.p(), zone == 1 ? ua : ul, dx, dy, bd);
        }
    });
}
// P: zone
static void drv_dr_z13_lbd(Run &r) { dr_common<uint8_t>(r, r.P(0), false); }
static void drv_dr_z2_lbd(Run &r) { dr_common<uint8_t>(r, 2, false); }
static void drv_dr_z13_hbd(Run &r) { dr_common<uint16_t>(r, r.P(0), true); }
static void drv_dr_z2_hbd(Run &r) { dr_common<uint16_t>(r, 2, true); }

// ---- svt_av1_filter_intra_predictor(dst, stride, tx_size, above, left, mode) ---------------------------------------------
typedef void (*drv_filter_intra_fn)(uint8_t *, ptrdiff_t, TxSize, const uint8_t *, const uint8_t *, int32_t);
static void drv_filter_intra(Run &r) {
    std::vector<int> sizes; for (int i = 0; i < TX_SIZES_ALL; i++) if (tx_size_wide[i] <= 32 && tx_size_high[i] <= 32) sizes.push_back(i);   // filter intra: blocks <= 32x32
    int txs = sizes[(size_t)r.pick(0, (long long)sizes.size() - 1)]; int bw = tx_size_wide[txs], bh = tx_size_high[txs];
    int mode = (int)r.pick(0, 4);   // FILTER_INTRA_MODES = 5
    int st = intra_stride(r, bw), off = (int)r.pick(0, 15) * 4;
    EdgeBuf<uint8_t> above, left;
    above.fill(r, 0, 255, "above"); left.fill(r, 0, 255, "left");
    Out<uint8_t> dst(r, "dst", (size_t)st * bh, off);
    dst.rect(bw, bh, st, true);
    r.note("bw", bw); r.note("bh", bh); r.note("mode", mode); r.note("stride", st);
    r.exec([&](AnyFn f) { ((drv_filter_intra_fn)f)(dst.p(), st, (TxSize)txs, above.p(), left.p(), mode); });
}

// ---- svt_av1_filter_intra_edge[_high](p, sz, strength): in place on the caller's edge array ---------------------------------
typedef void (*drv_edge_filter_lbd_fn)(uint8_t *, int32_t, int32_t);
typedef void (*drv_edge_filter_hbd_fn)(uint16_t *, int32_t, int32_t);
template <class PIX> static void edge_filter_common(Run &r, bool hbd) {
    int bd = hbd ? (r.pick(0, 1) ? 10 : 8) : 8; long long mx = (1 << bd) - 1;
    // n_px = n_top_px + ab_le + (need_right ? txhpx : 0).  The edge filter only runs for directional modes, for which the callers force
    // need_above_left = 1, i.e. ab_le = 1 and p = row - 1.
    int n_px = 4 * (int)r.pick(1, 16), ab_le = 1, extra = 4 * (int)r.pick(0, 16);
    int sz = n_px + ab_le + extra, strength = (int)r.pick(0, 3);
    Out<PIX> arr(r, "edge", 64 * 2 + 32);              // the caller's whole array: row = data + 16
    arr.fill_init(r, 0, mx, "edge");
    // The SSE4.1 kernels (as in libaom) extend the edge in place: p[-1] = p[0] and p[sz..sz+15] = p[sz-1].  Both areas lie inside the
    // caller's array (16 before, 144 after the row) and are dead afterwards (the predictor reads at most n_px samples), so only the
    // samples the C reference defines, p[0..sz-1], are compared; the guard bands around the array stay strict.
    arr.mask.assign(arr.n, 0);
    for (int i = 0; i < sz; i++) arr.mask[(size_t)(16 - ab_le + i)] = 1;
    r.note("sz", sz); r.note("strength", strength); r.note("ab_le", ab_le); r.note("bd", bd);
    r.exec([&](AnyFn f) {
        if (!hbd) ((drv_edge_filter_lbd_fn)f)((uint8_t *)arr.p() + 16 - ab_le, sz, strength);
        else ((drv_edge_filter_hbd_fn)f)((uint16_t *)arr.p() + 16 - ab_le, sz, strength);
    });
}
static void drv_edge_filter_lbd(Run &r) { edge_filter_common<uint8_t>(r, false); }
static void drv_edge_filter_hbd(Run &r) { edge_filter_common<uint16_t>(r, true); }

// ---- svt_av1_upsample_intra_edge(p, sz): in place, writes p[-2 .. 2*sz-2] ------------------------------------------------------
typedef void (*drv_edge_upsample_lbd_fn)(uint8_t *, int32_t);
static void drv_edge_upsample_lbd(Run &r) {
    int sz = 4 * (int)r.pick(1, 4);                    // txw (+ txh) with txw + txh <= 16
    Out<uint8_t> arr(r, "edge", 64 * 2 + 32);
    arr.fill_init(r, 0, 255, "edge");
    // defined output of the C reference: p[-2 .. 2*sz-2]; the SSE4.1 kernel stores whole vectors past it, inside the caller's array
    arr.mask.assign(arr.n, 0);
    for (int i = -2; i <= 2 * sz - 2; i++) arr.mask[(size_t)(16 + i)] = 1;
    r.note("sz", sz);
    r.exec([&](AnyFn f) { ((drv_edge_upsample_lbd_fn)f)(arr.p() + 16, sz); });
}

// ---- CfL ---------------------------------------------------------------------------------------------------------------------------
static inline void pick_cfl_dims(Run &r, int &w, int &h) {
    static const int d[14][2] = {{4, 4}, {4, 8}, {4, 16}, {8, 4}, {8, 8}, {8, 16}, {8, 32}, {16, 4}, {16, 8}, {16, 16}, {16, 32}, {32, 8}, {32, 16}, {32, 32}};
    int k = (int)r.pick(0, 13); w = d[k][0]; h = d[k][1];
}
typedef void (*drv_cfl_predict_lbd_fn)(const int16_t *, uint8_t *, int32_t, uint8_t *, int32_t, int32_t, int32_t, int32_t, int32_t);
typedef void (*drv_cfl_predict_hbd_fn)(const int16_t *, uint16_t *, int32_t, uint16_t *, int32_t, int32_t, int32_t, int32_t, int32_t);
template <class PIX> static void cfl_predict_common(Run &r, bool hbd) {
    int w, h; pick_cfl_dims(r, w, h);
    int bd = hbd ? 10 : 8; long long mx = (1 << bd) - 1, acmax = mx * 8;     // callers pass the literal 8 / 10
    int alpha = (int)r.edge(-16, 16);
    int alias = (int)r.pick(0, 1);
    In<int16_t> ac(32 * 32, 64, (size_t)r.pick(0, 15));                     // pred_buf_q3[CFL_BUF_SQUARE], line stride CFL_BUF_LINE = 32
    ac.fill(r, -acmax, acmax, "pred_buf_q3");
    int ps = intra_stride(r, w), ds = alias ? ps : intra_stride(r, w);
    Out<PIX> pred(r, alias ? "pred=dst" : "pred", (size_t)ps * h, 4 * (size_t)r.pick(0, 15));
    pred.fill_init(r, 0, mx, "pred");
    // CfL = DC prediction + alpha * AC: the callers run the chroma DC predictor into `pred` first, so the w x h block is ONE value
    // (the AVX2 kernels broadcast pred[0]); only the bytes between w and the stride keep the drawn content.
    { long long dc = r.edge(0, mx); for (int y = 0; y < h; y++) for (int x = 0; x < w; x++) pred.initp()[(size_t)y * ps + x] = (PIX)dc; r.note("dc", dc); }
    std::unique_ptr<Out<PIX>> dst;
    if (alias) pred.rect(w, h, ps, true);
    else { dst.reset(new Out<PIX>(r, "dst", (size_t)ds * h, 4 * (size_t)r.pick(0, 15))); dst->rect(w, h, ds, true); }
    r.note("w", w); r.note("h", h); r.note("alpha_q3", alpha); r.note("bd", bd); r.note("alias", alias);
    r.exec([&](AnyFn f) {
        PIX *pp = pred.p(), *dp = alias ? pred.p() : dst->p();
        if (!hbd) ((drv_cfl_predict_lbd_fn)f)(ac.p(), (uint8_t *)pp, ps, (uint8_t *)dp, ds, alpha, bd, w, h);
        else ((drv_cfl_predict_hbd_fn)f)(ac.p(), (uint16_t *)pp, ps, (uint16_t *)dp, ds, alpha, bd, w, h);
    });
}
static void drv_cfl_predict_lbd(Run &r) { cfl_predict_common<uint8_t>(r, false); }
static void drv_cfl_predict_hbd(Run &r) { cfl_predict_common<uint16_t>(r, true); }

typedef void (*drv_cfl_luma_sub_lbd_fn)(const uint8_t *, int32_t, int16_t *, int32_t, int32_t);
typedef void (*drv_cfl_luma_sub_hbd_fn)(const uint16_t *, int32_t, int16_t *, int32_t, int32_t);
template <class PIX> static void cfl_luma_common(Run &r, bool hbd) {
    int cw, ch; pick_cfl_dims(r, cw, ch); int w = cw * 2, h = ch * 2;      // luma block of the chroma block
    long long mx = hbd ? 1023 : 255;
    int st = w + 8 * (int)r.pick(0, 8);
    In<PIX> in((size_t)st * h, 64, 4 * (size_t)r.pick(0, 15));
    in.fill(r, 0, mx, "luma");
    Out<int16_t> out(r, "output_q3", 32 * 32, (size_t)r.pick(0, 15));
    out.rect(cw, ch, 32, true);
    r.note("w", w); r.note("h", h); r.note("stride", st);
    r.exec([&](AnyFn f) {
        if (!hbd) ((drv_cfl_luma_sub_lbd_fn)f)((const uint8_t *)in.p(), st, out.p(), w, h);
        else ((drv_cfl_luma_sub_hbd_fn)f)((const uint16_t *)in.p(), st, out.p(), w, h);
    });
}
static void drv_cfl_luma_sub_lbd(Run &r) { cfl_luma_common<uint8_t>(r, false); }
static void drv_cfl_luma_sub_hbd(Run &r) { cfl_luma_common<uint16_t>(r, true); }

// svt_subtract_average(pred_buf_q3, width, height, round_offset, num_pel_log2): in place on the 32-wide CfL buffer
typedef void (*drv_subtract_average_fn)(int16_t *, int32_t, int32_t, int32_t, int32_t);
static void drv_subtract_average(Run &r) {
    int w, h; pick_cfl_dims(r, w, h);
    long long mx = r.pick(0, 1) ? 1023 * 8 : 255 * 8;
    Out<int16_t> buf(r, "pred_buf_q3", 32 * 32, (size_t)r.pick(0, 15));
    buf.fill_init(r, 0, mx, "pred_buf_q3");
    buf.rect(w, h, 32, true);
    int lg = 0; while ((1 << lg) < w * h) lg++;
    r.note("w", w); r.note("h", h);
    r.exec([&](AnyFn f) { ((drv_subtract_average_fn)f)(buf.p(), w, h, w * h / 2, lg); });
}

}  // namespace c07
