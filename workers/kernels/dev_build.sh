#!/bin/bash
# Developer helper: regenerate the table and (re)build the harness through the framework helper.
#   dev_build.sh [repo_root] [build_root]     -> prints the exe path (last line) ; build log: <build_root>/st/harness/kernels.log
REPO=${1:-/repo}
BROOT=${2:-/verif/.build}
OUT=$BROOT/st/harness/kernels_gen
mkdir -p "$OUT"
/usr/bin/python3 /verif/workers/kernels/gen_kernels.py "$REPO" "$OUT" > "$OUT.json" || exit 2
cd /verif && VERIF_REPO=$REPO VERIF_BUILD_ROOT=$BROOT nice -n 5 python3-vt -c "import sys; sys.path.insert(0,'lib'); import harness; print(harness.build('kernels', 'st', ['$OUT/kernels_gen.cc'], libs=('Enc',), cxx=True, extra=['-lrapidcheck']))"
