#!/usr/bin/env python3
"""C07 table generator.

    gen_kernels.py <repo_root> <out_dir> [--families <json>]

Parses the CURRENT tree's dispatch tables
    Source/Lib/Common/Codec/common_dsp_rtcd.{c,h}   and   Source/Lib/Encoder/Codec/aom_dsp_rtcd.{c,h}
(every SET_*(ptr, c_ref, simd...) line inside setup_*rtcd_internal; the macro -> ISA mapping is read from the #define SET_* lines
of the same file) and writes

    <out_dir>/kernels_table.json   every entry: pointer, C reference, [(isa, simd function)], C signature, family or null
    <out_dir>/kernels_gen.inc      C++ table included by kernels_main.cc, binding each entry with a family to its driver
    <out_dir>/kernels_gen.cc       translation unit to hand to harness.build(): defines C07_GEN_INC and includes kernels_main.cc;
                                   its mtime is bumped whenever the table changed or any harness source is newer, so that
                                   harness.build()'s mtime check rebuilds exactly when needed.

An entry without a family descriptor (or whose signature is not the one the family driver was written for) is listed as
"undecided" - never dropped.  Entries appearing / disappearing in the tree are simply reflected in the table.
"""
import json, os, re, sys

HERE = os.path.dirname(os.path.abspath(__file__))
TABLES = [("common", "Source/Lib/Common/Codec/common_dsp_rtcd"), ("enc", "Source/Lib/Encoder/Codec/aom_dsp_rtcd")]
QUALS = {"const", "volatile", "struct", "unsigned", "signed", "long", "short", "enum", "restrict", "__restrict"}
ISA_FLAG = {"mmx": "CPU_FLAGS_MMX", "sse": "CPU_FLAGS_SSE", "sse2": "CPU_FLAGS_SSE2", "sse3": "CPU_FLAGS_SSE3", "ssse3": "CPU_FLAGS_SSSE3",
            "sse4_1": "CPU_FLAGS_SSE4_1", "sse4_2": "CPU_FLAGS_SSE4_2", "avx": "CPU_FLAGS_AVX", "avx2": "CPU_FLAGS_AVX2", "avx512": "CPU_FLAGS_AVX512F"}


def strip_comments(s):
    s = re.sub(r"/\*.*?\*/", " ", s, flags=re.S)
    return re.sub(r"//[^\n]*", "", s)


def split_args(s):
    out, depth, cur = [], 0, ""
    for ch in s:
        if ch in "([": depth += 1
        if ch in ")]": depth -= 1
        if ch == "," and depth == 0:
            out.append(cur.strip()); cur = ""
        else:
            cur += ch
    if cur.strip(): out.append(cur.strip())
    return out


def norm_param(p):
    """drop the parameter name, normalise spacing:  'const uint8_t *src_ptr' -> 'const uint8_t *'"""
    p = " ".join(p.replace("*", " * ").replace("[", " [").split())
    if p == "void": return p
    m = re.match(r"^(.*?)(\s*(\[[^\]]*\]\s*)+)$", p)
    arr = ""
    if m: p, arr = m.group(1).strip(), re.sub(r"\s+", "", m.group(2))
    toks = p.split()
    if "(" in p:   # function-pointer / pointer-to-array parameter: keep verbatim
        return p + arr
    idents = [t for t in toks if re.match(r"^[A-Za-z_]\w*$", t) and t not in QUALS]
    if len(idents) >= 2 and re.match(r"^[A-Za-z_]\w*$", toks[-1]) and toks[-1] not in QUALS:
        toks = toks[:-1]
    elif len(idents) == 1 and toks[-1] == idents[0] and any(t in ("unsigned", "signed", "long", "short") for t in toks[:-1]) and idents[0] not in ("int", "char"):
        toks = toks[:-1]   # 'unsigned x'
    return " ".join(toks) + (" " + arr if arr else "")


def parse_tree(repo):
    entries, problems = [], []
    for tag, base in TABLES:
        cpath, hpath = os.path.join(repo, base + ".c"), os.path.join(repo, base + ".h")
        c, h = strip_comments(open(cpath).read()), strip_comments(open(hpath).read())
        macros = {}
        for m in re.finditer(r"#define\s+(SET_\w+)\(([^)]*)\)\s+SET_FUNCTIONS\(([^)]*)\)", c):
            formal = [a.strip() for a in m.group(2).split(",")]
            actual = [a.strip() for a in m.group(3).split(",")]
            macros[m.group(1)] = (formal, actual)
        fm = re.search(r"#define\s+SET_FUNCTIONS\(([^)]*)\)", c)
        slots = [a.strip() for a in fm.group(1).split(",")] if fm else ["ptr", "c", "mmx", "sse", "sse2", "sse3", "ssse3", "sse4_1", "sse4_2", "avx", "avx2", "avx512"]
        decl = {}
        for m in re.finditer(r"RTCD_EXTERN\s+([^;()]+?)\(\s*\*\s*(\w+)\s*\)\s*\(([^;]*?)\)\s*;", h, flags=re.S):
            ret = " ".join(m.group(1).replace("*", " * ").split())
            params = [norm_param(p) for p in split_args(" ".join(m.group(3).split()))]
            decl[m.group(2)] = (ret, params, " ".join(m.group(3).split()))
        k = c.find("_rtcd_internal(CPU_FLAGS flags)")
        body = c[k:] if k >= 0 else c
        # pointers assigned by hand (no C reference, e.g. svt_cdef_filter_block_8x8_16): cannot be checked differentially, but never hidden
        for m in re.finditer(r"if\s*\(\s*flags\s*&\s*(HAS_\w+)\s*\)\s*(\w+)\s*=\s*(\w+)\s*;", body):
            problems.append("manual assignment without C reference (not covered): %s = %s under %s" % (m.group(2), m.group(3), m.group(1)))
        for m in re.finditer(r"\b(SET_\w+)\s*\(([^;{}]*?)\)\s*;", body, flags=re.S):
            mac = m.group(1)
            if mac not in macros:
                problems.append("unknown macro %s in %s" % (mac, cpath)); continue
            args = [a.strip() for a in m.group(2).split(",")]
            formal, actual = macros[mac]
            if len(args) != len(formal):
                problems.append("arity mismatch %s(%s)" % (mac, m.group(2))); continue
            bind = dict(zip(formal, args))
            ptr, cref, variants = None, None, []
            for slot, a in zip(slots, actual):
                val = bind.get(a, None)
                if slot == "ptr": ptr = val
                elif slot == "c": cref = val
                elif val is not None and val != "0": variants.append((slot, val))
            d = decl.get(ptr)
            entries.append(dict(ptr=ptr, c_ref=cref, variants=variants, table=tag, macro=mac,
                                ret=d[0] if d else None, params=d[1] if d else None,
                                signature=("%s(%s)" % (d[0], ", ".join(d[1]))) if d else None, decl=d[2] if d else None))
    return entries, problems


def bind_families(entries, fam_path):
    fams = json.load(open(fam_path))["families"]
    for f in fams: f["_re"] = re.compile(f["pattern"])
    for e in entries:
        e["family"], e["driver"], e["P"], e["why_undecided"] = None, None, [], None
        if not e["variants"]:
            e["why_undecided"] = "c-only"; continue
        if e["signature"] is None:
            e["why_undecided"] = "no RTCD_EXTERN declaration found"; continue
        for f in fams:
            m = f["_re"].match(e["ptr"])
            if not m: continue
            if f.get("c_ref_pattern") and not re.match(f["c_ref_pattern"], e["c_ref"]): continue
            if e["signature"] not in f["signatures"]:
                e["why_undecided"] = "signature differs from family %s: %s" % (f["name"], e["signature"]); continue
            P = []
            for p in f.get("params", []):
                if isinstance(p, dict):      # {"$n": {"text": int, ...}}: map the text of a regex group to a number
                    (g, table), = p.items()
                    P.append(int(table[m.group(int(g[1:])) or ""]))
                elif isinstance(p, str) and p.startswith("$"): P.append(int(m.group(int(p[1:]))))
                else: P.append(int(p))
            e["family"], e["driver"], e["P"], e["why_undecided"] = f["name"], f["driver"], P, None
            break
        if e["family"] is None and e["why_undecided"] is None: e["why_undecided"] = "no family descriptor"
    return fams


def emit_inc(entries):
    L = ["// GENERATED by gen_kernels.py - do not edit.  One C07_ENTRY per dispatch-table entry that has a family driver.",
         "// Symbols are bound by linker name (asm label) so that no SIMD header has to be visible; types come from the rtcd headers.", ""]
    syms = {}
    def sym(name, weak):
        if name not in syms:
            syms[name] = "c07sym_%d" % len(syms)
            L.append('extern "C" void %s(void) __asm__("%s")%s;' % (syms[name], name, " __attribute__((weak))" if weak else ""))
        return syms[name]
    cov = [e for e in entries if e["family"]]
    for e in cov:
        sym(e["c_ref"], False)
        for isa, fn in e["variants"]: sym(fn, True)
    L.append("")
    L.append("static void c07_register_entries(std::vector<c07::Entry> &T) {")
    for e in cov:
        L.append("    static_assert(std::is_same<decltype(::%s), c07::%s_fn>::value, \"signature of %s is not the one driver %s was written for\");"
                 % (e["ptr"], e["driver"], e["ptr"], e["driver"]))
        vs = ", ".join('{"%s", "%s", %s}' % (fn, isa, syms[fn]) for isa, fn in e["variants"])
        L.append('    T.push_back(c07::Entry{"%s", "%s", "%s", "%s", %s, {%s}, c07::%s, {%s}});'
                 % (e["ptr"], e["c_ref"], e["family"], e["table"], syms[e["c_ref"]], vs, e["driver"], ", ".join(str(p) for p in e["P"])))
    L.append("}")
    L.append("")
    L.append("static const char *const c07_undecided[] = {")
    for e in entries:
        if not e["family"] and e["variants"]: L.append('    "%s",' % e["ptr"])
    L.append("    nullptr};")
    L.append("static const char *const c07_c_only[] = {")
    for e in entries:
        if not e["variants"]: L.append('    "%s",' % e["ptr"])
    L.append("    nullptr};")
    L.append("static const int c07_entries_total = %d;" % len(entries))
    return "\n".join(L) + "\n"


def write_if_changed(path, text):
    if os.path.exists(path) and open(path).read() == text: return False
    tmp = path + ".tmp%d" % os.getpid()
    open(tmp, "w").write(text); os.replace(tmp, path)
    return True


def main():
    if len(sys.argv) < 3:
        print(__doc__); sys.exit(2)
    repo, out = sys.argv[1], sys.argv[2]
    fam_path = os.path.join(os.path.dirname(os.path.dirname(HERE)), "oracles", "c07_families.json")
    if "--families" in sys.argv: fam_path = sys.argv[sys.argv.index("--families") + 1]
    os.makedirs(out, exist_ok=True)
    entries, problems = parse_tree(repo)
    bind_families(entries, fam_path)
    table = dict(repo=repo, entries=[{k: v for k, v in e.items() if k != "decl"} for e in entries], problems=problems)
    ch1 = write_if_changed(os.path.join(out, "kernels_table.json"), json.dumps(table, indent=1) + "\n")
    inc = os.path.join(out, "kernels_gen.inc")
    ch2 = write_if_changed(inc, emit_inc(entries))
    tu = os.path.join(out, "kernels_gen.cc")
    tu_text = '// GENERATED: translation unit for harness.build()\n#define C07_GEN_INC "%s"\n#include "%s"\n' % (os.path.abspath(inc), os.path.join(HERE, "kernels_main.cc"))
    ch3 = write_if_changed(tu, tu_text)
    newest = max([os.path.getmtime(os.path.join(HERE, f)) for f in os.listdir(HERE) if f.endswith((".h", ".cc", ".inc", ".py"))] + [os.path.getmtime(fam_path), os.path.getmtime(inc)])
    if not ch3 and os.path.getmtime(tu) < newest: os.utime(tu, None)
    with_var = [e for e in entries if e["variants"]]
    cov = [e for e in with_var if e["family"]]
    print(json.dumps(dict(entries_total=len(entries), entries_with_simd=len(with_var), entries_covered=len(cov), c_only=len(entries) - len(with_var),
                          undecided=[e["ptr"] for e in with_var if not e["family"]], problems=problems, changed=bool(ch1 or ch2 or ch3),
                          tu=tu, inc=inc)))


if __name__ == "__main__":
    main()
