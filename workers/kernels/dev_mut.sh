#!/bin/bash
# Developer helper for sensitivity runs in the scratch worktree.
#   dev_mut.sh <tag> <file relative to worktree> <sed expression> <--only regex> [per-entry]
# Applies the mutation, rebuilds the harness against the worktree, runs 3 seeds on the selected entries, replays the fail file, reverts.
WT=/tmp/wt/c07build
TAG=$1; FILE=$2; SEDX=$3; ONLY=$4; N=${5:-200}
cd $WT || exit 2
git -C $WT checkout -- . >/dev/null 2>&1
sed -i -E "$SEDX" "$FILE"
echo "== mutation diff"; git -C $WT diff --stat | tail -2; git -C $WT diff | grep -E '^[-+][^-+]' | head -6
bash /verif/workers/kernels/dev_build.sh $WT $WT/_vb > /tmp/c07/$TAG.build 2>&1 || { echo BUILD FAILED; tail -5 /tmp/c07/$TAG.build; grep -E "error" $WT/_vb/st/build.log | tail -5; git -C $WT checkout -- .; exit 2; }
EXE=$WT/_vb/st/harness/kernels
for SEED in 1 2 3; do
  RC_PARAMS="seed=$SEED" nice -n 5 $EXE gen /tmp/c07/$TAG.$SEED.fail --per-entry $N --only "$ONLY" > /tmp/c07/$TAG.$SEED.out 2> /tmp/c07/$TAG.$SEED.err
  echo "seed $SEED exit=$?"
  tail -1 /tmp/c07/$TAG.$SEED.out | /usr/bin/python3 -c '
import sys,json
d=json.loads(sys.stdin.read())
print("  cases",d["cases"],"entries_run",d["entries_run"],"failures",len(d["failures"]))
for f in d["failures"][:4]: print("  FAIL after",f.get("after"),f["key"],"|",f["what"][:160],"| txt:",f["txt"][:140])
'
  grep -E "Falsifiable after" /tmp/c07/$TAG.$SEED.err | head -3
  if [ -s /tmp/c07/$TAG.$SEED.fail ]; then echo -n "  replay: "; $EXE replay /tmp/c07/$TAG.$SEED.fail | tail -1 | cut -c1-300; fi
done
git -C $WT checkout -- .
