#!/bin/bash
# Developer helper: dev_run.sh <tag> <seed> <per-entry> [--only <regex>] [exe]   -> compact summary on stdout, full output in /tmp/c07/<tag>.*
TAG=$1; SEED=$2; N=$3; shift 3
EXE=${C07_EXE:-/verif/.build/st/harness/kernels}
mkdir -p /tmp/c07
S=$(date +%s.%N)
RC_PARAMS="seed=$SEED" nice -n 5 $EXE gen /tmp/c07/$TAG.fail --per-entry $N "$@" > /tmp/c07/$TAG.out 2> /tmp/c07/$TAG.err
RCODE=$?
E=$(date +%s.%N)
echo "exit=$RCODE secs=$(echo "$E - $S" | bc)"
tail -1 /tmp/c07/$TAG.out | /usr/bin/python3 -c '
import sys,json
try:
    d=json.loads(sys.stdin.read())
except Exception as e:
    print("no final json:",e); sys.exit(0)
print("cases",d.get("cases"),"nontrivial",d.get("nontrivial"),"run",d.get("entries_run"),"covered",d.get("entries_covered"),"/",d.get("entries_with_simd"),"undecided",len(d.get("undecided",[])))
print("per_isa",d.get("per_isa",{}).get("variants"))
print("skipped",{k:v for k,v in d.get("classes",{}).items() if k.startswith("skipped")})
for f in d.get("failures",[]): print("FAIL",f["key"],"|",f["what"][:300],"| txt:",f["txt"][:200])
'
grep -E "ERROR: AddressSanitizer|SUMMARY|Assertion|aborted" /tmp/c07/$TAG.err /tmp/c07/$TAG.out | head -5
