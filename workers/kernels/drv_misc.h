// Family drivers: motion-estimation SAD helpers, picture operators (residual / average / distortion / pack / unpack / copy),
// quantizers, entropy helpers, misc.
#pragma once
#include "kernels_lib.h"
#include "EbDefinitions.h"
#include "drv_block.h"
#include "drv_txfm.h"
#include "EbCabacContextModel.h"

extern "C" {
int16_t svt_av1_dc_quant_qtx(int32_t qindex, int32_t delta, AomBitDepth bit_depth);
int16_t svt_av1_ac_quant_qtx(int32_t qindex, int32_t delta, AomBitDepth bit_depth);
int32_t get_qzbin_factor(int32_t q, AomBitDepth bit_depth);
void    invert_quant(int16_t *quant, int16_t *shift, int32_t d);
}

namespace c07 {

// ---- svt_nxm_sad_kernel / svt_nxm_sad_kernel_sub_sampled / sad_16b_kernel (src, sstride, ref, rstride, height, width) -> SAD ----------
// P: 0 = svt_nxm_sad_kernel (ME: SB rows/cols, width multiple of 8 <= 64, height multiple of 4 <= 64),
//    1 = svt_nxm_sad_kernel_sub_sampled / sad_16b_kernel (mode decision: any AV1 block size incl. 4:2:0 chroma planes)
typedef uint32_t (*drv_nxm_sad_fn)(const uint8_t *, uint32_t, const uint8_t *, uint32_t, uint32_t, uint32_t);
typedef uint32_t (*drv_nxm_sad16_fn)(uint16_t *, uint32_t, uint16_t *, uint32_t, uint32_t, uint32_t);
template <class PIX> static void nxm_sad_common(Run &r, int kind, bool hbd) {
    long long mx = hbd ? 1023 : 255;
    int w, h;
    if (kind == 0) { w = 8 * (int)r.pick(1, 8); h = 4 * (int)r.pick(1, 16); }
    else { int bs = (int)r.pick(0, BlockSizeS_ALL - 1), chroma = (int)r.pick(0, 1); w = block_size_wide[bs]; h = block_size_high[bs]; if (chroma) { w = w > 4 ? w >> 1 : 4; h = h > 4 ? h >> 1 : 4; } }
    int dbl = kind == 0 ? (int)r.pick(0, 1) : 0;           // ME passes stride << subsample_sad
    int ss = pick_stride(r, w) << dbl, rs = pick_stride(r, w) << dbl;
    In<PIX> src((size_t)ss * h, 64, 4 * (size_t)r.pick(0, 15)), ref((size_t)rs * h, 64, (size_t)r.pick(0, 63));
    src.fill(r, 0, mx, "src"); ref.fill(r, 0, mx, "ref");
    r.note("w", w); r.note("h", h); r.note("src_stride", ss); r.note("ref_stride", rs);
    r.exec([&](AnyFn f) {
        if (!hbd) r.ret(((drv_nxm_sad_fn)f)((const uint8_t *)src.p(), ss, (const uint8_t *)ref.p(), rs, h, w));
        else r.ret(((drv_nxm_sad16_fn)f)((uint16_t *)src.p(), ss, (uint16_t *)ref.p(), rs, h, w));
    });
}
static void drv_nxm_sad(Run &r) { nxm_sad_common<uint8_t>(r, r.P(0), false); }
static void drv_nxm_sad16(Run &r) { nxm_sad_common<uint16_t>(r, 1, true); }

// ---- picture analysis: 8x8 means (EbPictureAnalysisProcess.c) ------------------------------------------------------------------------------
typedef uint64_t (*drv_mean_sq_8x8_fn)(uint8_t *, uint32_t, uint32_t, uint32_t);
static void drv_mean_sq_8x8(Run &r) {
    int st = 8 + 8 * (int)r.pick(0, 16);
    In<uint8_t> in((size_t)st * 8, 64, 8 * (size_t)r.pick(0, 7));
    in.fill(r, 0, 255, "samples");
    r.note("stride", st);
    r.exec([&](AnyFn f) { r.ret((long long)((drv_mean_sq_8x8_fn)f)(in.p(), st, 8, 8)); });   // callers pass (.., stride_y, 8, 8) only
}
typedef uint64_t (*drv_sub_mean_8x8_fn)(uint8_t *, uint16_t);
static void drv_sub_mean_8x8(Run &r) {
    int st = 8 + 4 * (int)r.pick(0, 32);                               // chroma stride
    In<uint8_t> in((size_t)st * 8, 64, 4 * (size_t)r.pick(0, 15));
    in.fill(r, 0, 255, "samples");
    r.note("stride", st);
    r.exec([&](AnyFn f) { r.ret((long long)((drv_sub_mean_8x8_fn)f)(in.p(), (uint16_t)st)); });
}
typedef void (*drv_interm_var_four8x8_fn)(uint8_t *, uint16_t, uint64_t *, uint64_t *);
static void drv_interm_var_four8x8(Run &r) {
    int st = 32 + 8 * (int)r.pick(0, 16);
    In<uint8_t> in((size_t)st * 8, 64, 8 * (size_t)r.pick(0, 7));
    in.fill(r, 0, 255, "samples");
    Out<uint64_t> mean(r, "mean_of8x8_blocks", 4), msq(r, "mean_of_squared8x8_blocks", 4);
    r.note("stride", st);
    r.exec([&](AnyFn f) { ((drv_interm_var_four8x8_fn)f)(in.p(), (uint16_t)st, mean.p(), msq.p()); });
}
typedef int (*drv_haar_ac_sad_fn)(uint8_t *, int, int);
static void drv_haar_ac_sad(Run &r) {
    int st = pick_stride(r, 8, 8);
    In<uint8_t> in((size_t)st * 8, 64, 8 * (size_t)r.pick(0, 7));
    in.fill(r, 0, 255, "input");
    r.exec([&](AnyFn f) { r.ret(((drv_haar_ac_sad_fn)f)(in.p(), st, 0)); });                  // firstpass.c: hbd = 0
}
typedef uint32_t (*drv_variance_highbd_fn)(const uint16_t *, int, const uint16_t *, int, int, int, uint32_t *);
static void drv_variance_highbd(Run &r) {
    int w = r.pick(0, 1) ? 32 : 16, h = w;                             // temporal filter: 16x16 and 32x32 blocks
    int as = pick_stride(r, w), bs = pick_stride(r, w);
    In<uint16_t> a((size_t)as * h, 64, (size_t)r.pick(0, 31)), b((size_t)bs * h, 64, (size_t)r.pick(0, 31));
    a.fill(r, 0, 1023, "a"); b.fill(r, 0, 1023, "b");
    Out<uint32_t> sse(r, "sse", 1);
    r.note("w", w);
    r.exec([&](AnyFn f) { r.ret(((drv_variance_highbd_fn)f)(a.p(), as, b.p(), bs, w, h, sse.p())); });
}

// ---- open-loop ME: SAD bookkeeping kernels -----------------------------------------------------------------------------------------------------
static inline uint32_t pick_me_mv(Run &r) { int y = (int)r.pick(-1024, 1023), x = (int)r.pick(-1024, 1023); return ((uint32_t)(uint16_t)(y * 4) << 16) | (uint16_t)(x * 4); }
static void fill_best(Run &r, uint32_t *p, size_t n, const char *what) {
    // running best SADs: MAX_SAD_VALUE (128*128*255, EbMotionEstimation.h) from svt_initialize_buffer_32bits(p_sb_best_sad, 21, 1, MAX_SAD_VALUE),
    // real SAD magnitudes afterwards.  (The SIMD kernels compare as signed 32 bit: values >= 2^31 are outside the callers' domain.)
    int mode = (int)r.pick(0, 2);
    if (mode == 0) for (size_t i = 0; i < n; i++) p[i] = 128u * 128u * 255u;
    else r.fill(p, n, 0, mode == 1 ? 64 * 64 * 255 : 2000, what);
}
typedef void (*drv_ext_sad_8x8_16x16_fn)(uint8_t *, uint32_t, uint8_t *, uint32_t, uint32_t *, uint32_t *, uint32_t *, uint32_t *, uint32_t, uint32_t *, uint32_t *, EbBool);
static void drv_ext_sad_8x8_16x16(Run &r) {
    int ss = pick_stride(r, 16, 8), rs = pick_stride(r, 16);
    int sub = (int)r.pick(0, 1);
    In<uint8_t> src((size_t)ss * 16, 64, 8 * (size_t)r.pick(0, 7)), ref((size_t)rs * 16, 64, (size_t)r.pick(0, 63));
    src.fill(r, 0, 255, "src"); ref.fill(r, 0, 255, "ref");
    Out<uint32_t> b8(r, "p_best_sad_8x8", 4), b16(r, "p_best_sad_16x16", 1), m8(r, "p_best_mv8x8", 4), m16(r, "p_best_mv16x16", 1), s16(r, "p_sad16x16", 1), s8(r, "p_sad8x8", 4);
    fill_best(r, b8.initp(), 4, "best8"); fill_best(r, b16.initp(), 1, "best16");
    uint32_t mv = pick_me_mv(r);
    r.note("sub_sad", sub);
    r.exec([&](AnyFn f) { ((drv_ext_sad_8x8_16x16_fn)f)(src.p(), ss, ref.p(), rs, b8.p(), b16.p(), m8.p(), m16.p(), mv, s16.p(), s8.p(), (EbBool)sub); });
}
typedef void (*drv_ext_sad_32x32_64x64_fn)(uint32_t *, uint32_t *, uint32_t *, uint32_t *, uint32_t *, uint32_t, uint32_t *);
static void drv_ext_sad_32x32_64x64(Run &r) {
    In<uint32_t> s16(16, 64, 0);
    s16.fill(r, 0, 16 * 16 * 255, "p_sad16x16");
    Out<uint32_t> b32(r, "p_best_sad_32x32", 4), b64(r, "p_best_sad_64x64", 1), m32(r, "p_best_mv32x32", 4), m64(r, "p_best_mv64x64", 1), s32(r, "p_sad32x32", 4);
    fill_best(r, b32.initp(), 4, "best32"); fill_best(r, b64.initp(), 1, "best64");
    uint32_t mv = pick_me_mv(r);
    r.exec([&](AnyFn f) { ((drv_ext_sad_32x32_64x64_fn)f)(s16.p(), b32.p(), b64.p(), m32.p(), m64.p(), mv, s32.p()); });
}
typedef void (*drv_ext_all_sad_8x8_16x16_fn)(uint8_t *, uint32_t, uint8_t *, uint32_t, uint32_t, uint32_t *, uint32_t *, uint32_t *, uint32_t *, uint32_t (*)[8], uint32_t (*)[8], EbBool);
static void drv_ext_all_sad_8x8_16x16(Run &r) {
    int ss = pick_stride(r, 64, 8), rs = pick_stride(r, 64 + 8);      // whole 64x64 SB against 8 horizontally adjacent search positions
    int sub = (int)r.pick(0, 1);
    In<uint8_t> src((size_t)ss * 64, 64, 8 * (size_t)r.pick(0, 7)), ref((size_t)rs * 64 + 8, 64, (size_t)r.pick(0, 63));
    src.fill(r, 0, 255, "src"); ref.fill(r, 0, 255, "ref");
    Out<uint32_t> b8(r, "p_best_sad_8x8", 64), b16(r, "p_best_sad_16x16", 16), m8(r, "p_best_mv8x8", 64), m16(r, "p_best_mv16x16", 16), e16(r, "p_eight_sad16x16", 16 * 8), e8(r, "p_eight_sad8x8", 64 * 8);
    fill_best(r, b8.initp(), 64, "best8"); fill_best(r, b16.initp(), 16, "best16");
    uint32_t mv = pick_me_mv(r);
    r.note("sub_sad", sub);
    r.exec([&](AnyFn f) { ((drv_ext_all_sad_8x8_16x16_fn)f)(src.p(), ss, ref.p(), rs, mv, b8.p(), b16.p(), m8.p(), m16.p(), (uint32_t(*)[8])e16.p(), (uint32_t(*)[8])e8.p(), (EbBool)sub); });
}
typedef void (*drv_ext_eight_sad_32x32_64x64_fn)(uint32_t (*)[8], uint32_t *, uint32_t *, uint32_t *, uint32_t *, uint32_t, uint32_t (*)[8]);
static void drv_ext_eight_sad_32x32_64x64(Run &r) {
    In<uint32_t> s16(16 * 8, 64, 0);
    s16.fill(r, 0, 16 * 16 * 255, "p_sad16x16");
    Out<uint32_t> b32(r, "p_best_sad_32x32", 4), b64(r, "p_best_sad_64x64", 1), m32(r, "p_best_mv32x32", 4), m64(r, "p_best_mv64x64", 1), s32(r, "p_sad32x32", 4 * 8);
    fill_best(r, b32.initp(), 4, "best32"); fill_best(r, b64.initp(), 1, "best64");
    uint32_t mv = pick_me_mv(r);
    r.exec([&](AnyFn f) { ((drv_ext_eight_sad_32x32_64x64_fn)f)((uint32_t(*)[8])s16.p(), b32.p(), b64.p(), m32.p(), m64.p(), mv, (uint32_t(*)[8])s32.p()); });
}
// svt_sad_loop_kernel(src, sstride, ref, rstride, block_h, block_w, &best_sad, &x_center, &y_center, src_stride_raw, area_w, area_h)
typedef void (*drv_sad_loop_fn)(uint8_t *, uint32_t, uint8_t *, uint32_t, uint32_t, uint32_t, uint64_t *, int16_t *, int16_t *, uint32_t, int16_t, int16_t);
static void drv_sad_loop(Run &r) {
    // HME level 2 / 1 / 0 = SB of the full / quarter / sixteenth picture.  Picture dimensions are multiples of 8, so SB width and height at the
    // picture edges are multiples of 8 / 4 / 2 (<= 64 / 32 / 16); SUB_SAD_SEARCH halves the height (and doubles the strides).  Odd heights thus
    // only occur with widths <= 16 (the wider AVX2/AVX-512 paths step two rows at a time).
    int level = (int)r.pick(0, 2), unit = 8 >> level;
    int sub = (int)r.pick(0, 1);
    int bw = unit * (int)r.pick(1, 8), bh = (unit * (int)r.pick(1, 8)) >> sub;
    int aw = r.pick(0, 1) ? 16 * (int)r.pick(1, 4) : (int)r.pick(1, 15);   // "search_area_width < 16 ? search_area_width : search_area_width & ~0x0F"
    int ah = (int)r.pick(1, 16);
    int raw = bw + aw + 16 + (int)r.pick(0, 64), rs = raw << sub, ss = pick_stride(r, bw) << sub;
    In<uint8_t> src((size_t)ss * bh, 64, 2 * (size_t)r.pick(0, 31)), ref((size_t)raw * ah + (size_t)rs * bh + 64, 64, (size_t)r.pick(0, 63));
    // mild domain (C07_MILD, used to keep searching behind the listed 16-bit-accumulator saturation finding): bound the sample range so that
    // no SAD of this block can exceed 65535
    int maxv = 255;
    if (r.mild) { int lim = 65535 / (bw * bh); maxv = lim < 255 ? (lim < 1 ? 1 : lim) : 255; }
    src.fill(r, 0, maxv, "src"); ref.fill(r, 0, maxv, "ref");
    Out<uint64_t> best(r, "best_sad", 1); Out<int16_t> xc(r, "x_search_center", 1), yc(r, "y_search_center", 1);
    r.note("block_w", bw); r.note("block_h", bh); r.note("area_w", aw); r.note("area_h", ah); r.note("sub", sub);
    r.exec([&](AnyFn f) { ((drv_sad_loop_fn)f)(src.p(), ss, ref.p(), rs, bh, bw, best.p(), xc.p(), yc.p(), raw, (int16_t)aw, (int16_t)ah); });
}

// ---- palette k-means (palette.c; only dim 1 is reachable, dim 2 exercised by analogy) ---------------------------------------------------------
typedef void (*drv_calc_indices_fn)(const int *, const int *, uint8_t *, int, int);
typedef void (*drv_k_means_fn)(const int *, int *, uint8_t *, int, int, int);
static void palette_common(Run &r, int dim, bool kmeans) {
    int mx = r.pick(0, 1) ? 1023 : 255;
    int rows = 8 * (int)r.pick(1, 8), cols = 8 * (int)r.pick(1, 8), n = rows * cols;     // visible part of an 8x8 .. 64x64 block
    int k = (int)r.pick(2, 8);                                                          // PALETTE_MIN_SIZE .. PALETTE_MAX_SIZE
    In<int> data((size_t)n * dim, 64, 0);
    data.fill(r, 0, mx, "data");
    Out<int> cent(r, "centroids", (size_t)k * dim, 0);
    if (r.pick(0, 1)) { int lb = (int)r.pick(0, mx), ub = (int)r.pick(lb, mx); for (int i = 0; i < k * dim; i++) cent.initp()[i] = lb + (2 * (i / dim) + 1) * (ub - lb) / k / 2; }   // palette.c initial guess
    else cent.fill_init(r, 0, mx, "centroids");
    Out<uint8_t> idx(r, "indices", (size_t)n, 0);
    r.note("n", n); r.note("k", k); r.note("dim", dim);
    r.exec([&](AnyFn f) {
        if (kmeans) ((drv_k_means_fn)f)(data.p(), cent.p(), idx.p(), n, k, 50);         // max_itr = 50
        else ((drv_calc_indices_fn)f)(data.p(), cent.p(), idx.p(), n, k);
    });
}
static void drv_calc_indices(Run &r) { palette_common(r, r.P(0), false); }
static void drv_k_means(Run &r) { palette_common(r, r.P(0), true); }

// svt_av1_get_gradient_hist(src, stride, rows, cols, hist[8]): accumulates into a zero-initialised histogram
typedef void (*drv_gradient_hist_fn)(const uint8_t *, int, int, int, uint64_t *);
static void drv_gradient_hist(Run &r) {
    // angle_estimation() - the only caller - is itself never called: domain = the maintainers' test (AV1 block sizes; the AVX2 kernel
    // handles cols == 4, 8 or a multiple of 16 only)
    int bs = (int)r.pick(0, BlockSizeS_ALL - 1), rows = block_size_high[bs], cols = block_size_wide[bs];
    int st = pick_stride(r, cols);
    In<uint8_t> src((size_t)st * rows, 64, 4 * (size_t)r.pick(0, 15));
    src.fill(r, 0, 255, "src");
    Out<uint64_t> hist(r, "hist", 8);
    memset(hist.initp(), 0, 8 * sizeof(uint64_t));
    r.note("rows", rows); r.note("cols", cols);
    r.exec([&](AnyFn f) { ((drv_gradient_hist_fn)f)(src.p(), st, rows, cols, hist.p()); });
}

// Block dimensions as the encoder's geometry produces them: an AV1 block size, optionally its 4:2:0 chroma plane (MAX(4, dim >> 1)).
static inline void pick_block_dims(Run &r, int &w, int &h, bool allow_chroma = true) {
    int bs = (int)r.pick(0, BlockSizeS_ALL - 1), chroma = allow_chroma ? (int)r.pick(0, 1) : 0;
    w = block_size_wide[bs]; h = block_size_high[bs];
    if (chroma) { w = w > 4 ? w >> 1 : 4; h = h > 4 ? h >> 1 : 4; }
}

// ---- residual / subtract ------------------------------------------------------------------------------------------------------------
typedef void (*drv_residual8_fn)(uint8_t *, uint32_t, uint8_t *, uint32_t, int16_t *, uint32_t, uint32_t, uint32_t);
typedef void (*drv_residual16_fn)(uint16_t *, uint32_t, uint16_t *, uint32_t, int16_t *, uint32_t, uint32_t, uint32_t);
template <class PIX> static void residual_common(Run &r, bool hbd) {
    long long mx = hbd ? 1023 : 255;
    int w, h; pick_block_dims(r, w, h);
    int is = pick_stride(r, w, 4), ps = pick_stride(r, w, 4), rs = pick_stride(r, w, 4);
    In<PIX> in((size_t)is * h, 64, 4 * (size_t)r.pick(0, 15)), pred((size_t)ps * h, 64, 4 * (size_t)r.pick(0, 15));
    in.fill(r, 0, mx, "input"); pred.fill(r, 0, mx, "pred");
    Out<int16_t> res(r, "residual", (size_t)rs * h, 4 * (size_t)r.pick(0, 15));
    res.rect(w, h, rs, true);
    r.note("w", w); r.note("h", h);
    r.exec([&](AnyFn f) {
        if (!hbd) ((drv_residual8_fn)f)((uint8_t *)in.p(), is, (uint8_t *)pred.p(), ps, res.p(), rs, w, h);
        else ((drv_residual16_fn)f)((uint16_t *)in.p(), is, (uint16_t *)pred.p(), ps, res.p(), rs, w, h);
    });
}
static void drv_residual8(Run &r) { residual_common<uint8_t>(r, false); }
static void drv_residual16(Run &r) { residual_common<uint16_t>(r, true); }

typedef void (*drv_subtract_block_fn)(int, int, int16_t *, ptrdiff_t, const uint8_t *, ptrdiff_t, const uint8_t *, ptrdiff_t);
typedef void (*drv_subtract_block_hbd_fn)(int, int, int16_t *, ptrdiff_t, const uint8_t *, ptrdiff_t, const uint8_t *, ptrdiff_t, int);
template <class PIX> static void subtract_common(Run &r, bool hbd) {
    long long mx = hbd ? 1023 : 255;
    int w, h; pick_block_dims(r, w, h, false);
    if (r.pick(0, 7) == 0) { w = 16; h = 16; }                 // rate control / ME: 16x16 macroblocks, stride 16
    int ss = pick_stride(r, w), ps = r.pick(0, 1) ? w : pick_stride(r, w);
    In<PIX> src((size_t)ss * h, 64, 4 * (size_t)r.pick(0, 15)), pred((size_t)ps * h, 64, 0);
    src.fill(r, 0, mx, "src"); pred.fill(r, 0, mx, "pred");
    Out<int16_t> diff(r, "diff", (size_t)w * h, 0);            // diff_stride = bw
    r.note("rows", h); r.note("cols", w);
    r.exec([&](AnyFn f) {
        if (!hbd) ((drv_subtract_block_fn)f)(h, w, diff.p(), w, (const uint8_t *)src.p(), ss, (const uint8_t *)pred.p(), ps);
        else ((drv_subtract_block_hbd_fn)f)(h, w, diff.p(), w, (const uint8_t *)src.p(), ss, (const uint8_t *)pred.p(), ps, 10);
    });
}
static void drv_subtract_block(Run &r) { subtract_common<uint8_t>(r, false); }
static void drv_subtract_block_hbd(Run &r) { subtract_common<uint16_t>(r, true); }

// ---- svt_aom_sse / svt_aom_highbd_sse(a, a_stride, b, b_stride, width, height) -> int64 ------------------------------------------------
typedef int64_t (*drv_aom_sse_fn)(const uint8_t *, int, const uint8_t *, int, int, int);
template <class PIX> static void aom_sse_common(Run &r, bool hbd) {
    long long mx = hbd ? 1023 : 255;
    int w, h; pick_block_dims(r, w, h, false);
    int as = pick_stride(r, w), bs = pick_stride(r, w);
    In<PIX> a((size_t)as * h, 64, 4 * (size_t)r.pick(0, 15)), b((size_t)bs * h, 64, (size_t)r.pick(0, 31));
    a.fill(r, 0, mx, "a"); b.fill(r, 0, mx, "b");
    r.note("w", w); r.note("h", h);
    r.exec([&](AnyFn f) { r.ret((long long)((drv_aom_sse_fn)f)((const uint8_t *)a.p(), as, (const uint8_t *)b.p(), bs, w, h)); });
}
static void drv_aom_sse(Run &r) { aom_sse_common<uint8_t>(r, false); }
typedef drv_aom_sse_fn drv_aom_sse_hbd_fn;
static void drv_aom_sse_hbd(Run &r) { aom_sse_common<uint16_t>(r, true); }

// ---- spatial / 16-bit full distortion: (input, input_offset, in_stride, recon, recon_offset, recon_stride, w, h) -> uint64 ---------------
typedef uint64_t (*drv_spatial_dist_fn)(uint8_t *, uint32_t, uint32_t, uint8_t *, int32_t, uint32_t, uint32_t, uint32_t);
template <class PIX> static void spatial_dist_common(Run &r, bool hbd) {
    long long mx = hbd ? 1023 : 255;
    int w = 4 * (int)r.pick(1, 40), h = 4 * (int)r.pick(1, 16);     // cropped transform / block / picture widths: multiples of 4
    int is = pick_stride(r, w, 4), rs = pick_stride(r, w, 4);
    int io = 4 * (int)r.pick(0, 31), ro = 4 * (int)r.pick(0, 31);
    In<PIX> in((size_t)is * h + io, 64, 0), rec((size_t)rs * h + ro, 64, 0);
    in.fill(r, 0, mx, "input"); rec.fill(r, 0, mx, "recon");
    r.note("w", w); r.note("h", h); r.note("in_stride", is); r.note("recon_stride", rs);
    r.exec([&](AnyFn f) { r.ret((long long)((drv_spatial_dist_fn)f)((uint8_t *)in.p(), io, is, (uint8_t *)rec.p(), ro, rs, w, h)); });
}
static void drv_spatial_dist(Run &r) { spatial_dist_common<uint8_t>(r, false); }
typedef drv_spatial_dist_fn drv_spatial_dist16_fn;
static void drv_spatial_dist16(Run &r) { spatial_dist_common<uint16_t>(r, true); }

// ---- conversions / pack / unpack ---------------------------------------------------------------------------------------------------------
typedef void (*drv_convert_8to16_fn)(uint8_t *, uint32_t, uint16_t *, uint32_t, uint32_t, uint32_t);
static void drv_convert_8to16(Run &r) {
    int w = 4 * (int)r.pick(1, 32), h = 2 * (int)r.pick(1, 64);   // SB width/height at picture edges, chroma >> 1
    int ss = pick_stride(r, w, 4), ds = pick_stride(r, w, 4);
    In<uint8_t> src((size_t)ss * h, 64, 4 * (size_t)r.pick(0, 15));
    src.fill(r, 0, 255, "src");
    Out<uint16_t> dst(r, "dst", (size_t)ds * h, 4 * (size_t)r.pick(0, 15));
    dst.rect(w, h, ds, true);
    r.note("w", w); r.note("h", h);
    r.exec([&](AnyFn f) { ((drv_convert_8to16_fn)f)(src.p(), ss, dst.p(), ds, w, h); });
}
typedef void (*drv_convert_16to8_fn)(uint16_t *, uint32_t, uint8_t *, uint32_t, uint32_t, uint32_t);
static void drv_convert_16to8(Run &r) {
    int w = 4 * (int)r.pick(1, 32), h = 2 * (int)r.pick(1, 64);
    int ss = pick_stride(r, w, 4), ds = pick_stride(r, w, 4);
    In<uint16_t> src((size_t)ss * h, 64, 4 * (size_t)r.pick(0, 15));
    src.fill(r, 0, 255, "src");                                   // documented precondition: 16-bit buffer holding 8-bit content
    Out<uint8_t> dst(r, "dst", (size_t)ds * h, 4 * (size_t)r.pick(0, 15));
    dst.rect(w, h, ds, true);
    r.note("w", w); r.note("h", h);
    r.exec([&](AnyFn f) { ((drv_convert_16to8_fn)f)(src.p(), ss, dst.p(), ds, w, h); });
}
// svt_pack2d_16_bit_src_mul4(in8, in8_stride, inn, out16, inn_stride, out_stride, w, h): out = (in8 << 2) | (inn >> 6)
typedef void (*drv_pack2d_fn)(uint8_t *, uint32_t, uint8_t *, uint16_t *, uint32_t, uint32_t, uint32_t, uint32_t);
static void drv_pack2d(Run &r) {
    int w = 4 * (int)r.pick(1, 40), h = 2 * (int)r.pick(1, 32);   // pack2d_src(): kernel only when (w & 3) == 0 && (h & 1) == 0
    int s8 = pick_stride(r, w, 4), sn = pick_stride(r, w, 4), so = pick_stride(r, w, 4);
    In<uint8_t> in8((size_t)s8 * h, 64, 4 * (size_t)r.pick(0, 15)), inn((size_t)sn * h, 64, 4 * (size_t)r.pick(0, 15));
    in8.fill(r, 0, 255, "in8");
    { std::vector<uint8_t> t(inn.total()); r.fill(t.data(), t.size(), 0, 3, "inn2"); for (size_t i = 0; i < t.size(); i++) inn.lo()[i] = (uint8_t)(t[i] << 6); }   // 2 LSBs stored in bits 7:6
    Out<uint16_t> out(r, "out16", (size_t)so * h, 4 * (size_t)r.pick(0, 15));
    out.rect(w, h, so, true);
    r.note("w", w); r.note("h", h);
    r.exec([&](AnyFn f) { ((drv_pack2d_fn)f)(in8.p(), s8, inn.p(), out.p(), sn, so, w, h); });
}
// svt_un_pack2d_16_bit_src_mul4(in16, in_stride, out8, outn, out8_stride, outn_stride, w, h)
typedef void (*drv_unpack2d_fn)(uint16_t *, uint32_t, uint8_t *, uint8_t *, uint32_t, uint32_t, uint32_t, uint32_t);
static void drv_unpack2d(Run &r) {
    int w = 4 * (int)r.pick(1, 40), h = 2 * (int)r.pick(1, 32);
    int si = pick_stride(r, w, 4), s8 = pick_stride(r, w, 4), sn = pick_stride(r, w, 4);
    In<uint16_t> in((size_t)si * h, 64, 4 * (size_t)r.pick(0, 15));
    in.fill(r, 0, 1023, "in16");
    Out<uint8_t> o8(r, "out8", (size_t)s8 * h, 4 * (size_t)r.pick(0, 15)), on(r, "outn", (size_t)sn * h, 4 * (size_t)r.pick(0, 15));
    o8.rect(w, h, s8, true); on.rect(w, h, sn, true);
    r.note("w", w); r.note("h", h);
    r.exec([&](AnyFn f) { ((drv_unpack2d_fn)f)(in.p(), si, o8.p(), on.p(), s8, sn, w, h); });
}
// svt_compressed_packmsb(in8, in8_stride, inn(4 px per byte), out16, inn_stride, out_stride, w, h): compressed_pack_sb() calls it for w == 32 | 64 only
typedef void (*drv_compressed_packmsb_fn)(uint8_t *, uint32_t, uint8_t *, uint16_t *, uint32_t, uint32_t, uint32_t, uint32_t);
static void drv_compressed_packmsb(Run &r) {
    int w = r.pick(0, 1) ? 64 : 32, h = 2 * (int)r.pick(1, 32);
    int s8 = pick_stride(r, w, 8), sn = w / 4 + 4 * (int)r.pick(0, 4), so = pick_stride(r, w, 8);
    In<uint8_t> in8((size_t)s8 * h, 64, 8 * (size_t)r.pick(0, 7)), inn((size_t)sn * h, 64, 4 * (size_t)r.pick(0, 7));
    in8.fill(r, 0, 255, "in8"); inn.fill(r, 0, 255, "inn");
    Out<uint16_t> out(r, "out16", (size_t)so * h, 8 * (size_t)r.pick(0, 7));
    out.rect(w, h, so, true);
    r.note("w", w); r.note("h", h);
    r.exec([&](AnyFn f) { ((drv_compressed_packmsb_fn)f)(in8.p(), s8, inn.p(), out.p(), sn, so, w, h); });
}

// ---- transform-domain distortion: result[0] = sum (c - r)^2, result[1] = sum c^2 -----------------------------------------------------------
typedef void (*drv_full_dist32_fn)(int32_t *, uint32_t, int32_t *, uint32_t, uint64_t *, uint32_t, uint32_t);
typedef void (*drv_full_dist32_cbf0_fn)(int32_t *, uint32_t, uint64_t *, uint32_t, uint32_t);
static void full_dist32_common(Run &r, bool cbf0) {
    // picture_full_distortion32_bits(): w,h = transform dims clamped to 32 (luma) / chroma transform dims, both strides == w
    static const int d[4] = {4, 8, 16, 32};
    int w = d[(int)r.pick(0, 3)], h = d[(int)r.pick(0, 3)];
    if (w * 4 < h) h = w * 4; if (h * 4 < w) w = h * 4;
    int bd = r.pick(0, 1) ? 10 : 8;
    In<int32_t> c((size_t)w * h, 64, 0), q((size_t)w * h, 64, 0);
    memset(c.lo(), 0, c.total() * 4); memset(q.lo(), 0, q.total() * 4);
    if (!make_coeffs(r, w, h, DCT_DCT, bd, 0, c.p(), false)) return;
    memcpy(q.p(), c.p(), (size_t)w * h * 4);
    shape_coeffs(r, w, h, DCT_DCT, bd, q.p());                 // the de-quantised version of the same block
    Out<uint64_t> res(r, "distortion_result", 2);
    r.note("w", w); r.note("h", h); r.note("bd", bd);
    r.exec([&](AnyFn f) {
        if (cbf0) ((drv_full_dist32_cbf0_fn)f)(c.p(), w, res.p(), w, h);
        else ((drv_full_dist32_fn)f)(c.p(), w, q.p(), w, res.p(), w, h);
    });
}
static void drv_full_dist32(Run &r) { full_dist32_common(r, false); }
static void drv_full_dist32_cbf0(Run &r) { full_dist32_common(r, true); }

// ---- small helpers ---------------------------------------------------------------------------------------------------------------------------
typedef void (*drv_memcpy_fn)(void *, void const *, size_t);
static void drv_memcpy(Run &r) {
    size_t n = (size_t)(r.pick(0, 3) == 0 ? r.pick(0, 8192) : r.pick(0, 300));
    In<uint8_t> src(n, 64, (size_t)r.pick(0, 63));
    src.fill(r, 0, 255, "src");
    Out<uint8_t> dst(r, "dst", n, (size_t)r.pick(0, 63));
    r.note("size", (long long)n);
    r.exec([&](AnyFn f) { ((drv_memcpy_fn)f)(dst.p(), src.p(), n); });
}
typedef uint32_t (*drv_log2f_fn)(uint32_t);
static void drv_log2f(Run &r) {
    // callers pass non-zero block sizes / variances; powers of two and their neighbours are the interesting values
    int k = (int)r.pick(0, 31); long long base = 1LL << k, x = base + r.pick(-1, 1);
    if (r.pick(0, 3) == 0) x = r.pick(1, 0xffffffffLL);
    if (x < 1) x = 1; if (x > 0xffffffffLL) x = 0xffffffffLL;
    r.nontrivial = x > 1; r.note("x", x);
    r.exec([&](AnyFn f) { r.ret(((drv_log2f_fn)f)((uint32_t)x)); });
}
typedef void (*drv_init_buffer32_fn)(uint32_t *, uint32_t, uint32_t, uint32_t);
static void drv_init_buffer32(Run &r) {
    int c128 = (int)r.pick(1, 64), c32 = (int)r.pick(0, 3);      // callers: (21, 1, MAX_SAD_VALUE), (64, 0, 1)
    long long v = r.edge(0, 0xffffffffLL);
    Out<uint32_t> buf(r, "buffer", (size_t)c128 * 4 + c32, (size_t)r.pick(0, 3));
    r.nontrivial = true; r.note("count128", c128); r.note("count32", c32);
    r.exec([&](AnyFn f) { ((drv_init_buffer32_fn)f)(buf.p(), c128, c32, (uint32_t)v); });
}
typedef int64_t (*drv_calc_frame_error_fn)(const uint8_t *const, int, const uint8_t *const, int, int, int);
static void drv_calc_frame_error(Run &r) {
    int w = (int)r.pick(1, 80), h = (int)r.pick(1, 40);          // warp_error(): min(32, remaining) blocks; svt_av1_frame_error(): whole frame
    int rs = r.pick(0, 1) ? 32 + (w > 32 ? w : 0) : pick_stride(r, w), ds = pick_stride(r, w);
    if (rs < w) rs = w;
    In<uint8_t> ref((size_t)rs * h, 64, (size_t)r.pick(0, 31)), dst((size_t)ds * h, 64, (size_t)r.pick(0, 31));
    ref.fill(r, 0, 255, "ref"); dst.fill(r, 0, 255, "dst");
    r.note("w", w); r.note("h", h);
    r.exec([&](AnyFn f) { r.ret((long long)((drv_calc_frame_error_fn)f)(ref.p(), rs, dst.p(), w, h, ds)); });
}

// ---- quantizers ------------------------------------------------------------------------------------------------------------------------------
// One row of the Quants / Dequants tables exactly as svt_av1_build_quantizer() fills it for (qindex, bit depth, delta 0):
// [0] = DC, [1..7] = AC repeated to SIMD width, 16-byte aligned.
struct QRow { int16_t zbin[8], round[8], quant[8], shift[8], dequant[8], round_fp[8], quant_fp[8]; };
static void build_qrow(QRow &t, int q, int bd) {
    const int qzbin_factor = get_qzbin_factor(q, (AomBitDepth)bd), qrounding_factor = q == 0 ? 64 : 48;
    for (int i = 0; i < 2; i++) {
        int d = i == 0 ? svt_av1_dc_quant_qtx(q, 0, (AomBitDepth)bd) : svt_av1_ac_quant_qtx(q, 0, (AomBitDepth)bd);
        invert_quant(&t.quant[i], &t.shift[i], d);
        t.quant_fp[i] = (int16_t)((1 << 16) / d);
        t.round_fp[i] = (int16_t)((64 * d) >> 7);
        t.zbin[i] = (int16_t)((qzbin_factor * d + 64) >> 7);
        t.round[i] = (int16_t)((qrounding_factor * d) >> 7);
        t.dequant[i] = (int16_t)d;
    }
    for (int i = 2; i < 8; i++) { t.zbin[i] = t.zbin[1]; t.round[i] = t.round[1]; t.quant[i] = t.quant[1]; t.shift[i] = t.shift[1]; t.dequant[i] = t.dequant[1]; t.round_fp[i] = t.round_fp[1]; t.quant_fp[i] = t.quant_fp[1]; }
}
static const int k_tx_scale_tab[TX_SIZES_ALL] = {0, 0, 0, 1, 2, 0, 0, 0, 0, 1, 1, 2, 2, 0, 0, 0, 0, 1, 1};   // EbFullLoop.h av1_get_tx_scale_tab

typedef void (*drv_quantize_b_fn)(const TranLow *, intptr_t, const int16_t *, const int16_t *, const int16_t *, const int16_t *, TranLow *, TranLow *, const int16_t *, uint16_t *, const int16_t *, const int16_t *, const QmVal *, const QmVal *, const int32_t);
typedef void (*drv_quantize_fp_fn)(const TranLow *, intptr_t, const int16_t *, const int16_t *, const int16_t *, const int16_t *, TranLow *, TranLow *, const int16_t *, uint16_t *, const int16_t *, const int16_t *);
typedef void (*drv_quantize_fp_hbd_fn)(const TranLow *, intptr_t, const int16_t *, const int16_t *, const int16_t *, const int16_t *, TranLow *, TranLow *, const int16_t *, uint16_t *, const int16_t *, const int16_t *, int16_t);
// kind: 0 quantize_b (8-bit), 1 highbd_quantize_b, 2 fp (log_scale 0), 3 fp_32x32 (1), 4 fp_64x64 (2), 5 highbd_fp
static void quantize_common(Run &r, int kind) {
    std::vector<int> sizes;
    for (int t = 0; t < TX_SIZES_ALL; t++) {
        int ls = k_tx_scale_tab[t];
        if (kind == 2 && ls != 0) continue; if (kind == 3 && ls != 1) continue; if (kind == 4 && ls != 2) continue;
        sizes.push_back(t);
    }
    int txs = sizes[(size_t)r.pick(0, (long long)sizes.size() - 1)], w = tx_size_wide[txs], h = tx_size_high[txs], ls = k_tx_scale_tab[txs];
    int n = av1_get_max_eob((TxSize)txs);
    int hbd = kind == 1 || kind == 5;
    int bd = hbd ? (r.pick(0, 1) ? 10 : 8) : 8;                    // highbd kernels also serve 8-bit content in the 16-bit pipeline
    int type = pick_tx_type(r, w, h);
    int q = (int)r.edge(0, 255);
    In<int16_t> tab(sizeof(QRow) / 2, 64, 0);                     // 16-byte aligned rows (64-byte aligned here; each member is 16 bytes)
    memset(tab.lo(), 0, tab.total() * 2);
    QRow *T = (QRow *)tab.p(); build_qrow(*T, q, bd);
    In<int32_t> coef((size_t)w * h, 64, 16 * (size_t)r.pick(0, 3));   // coefficient buffers: 32-byte aligned (buffer_y + txb_1d_offset)
    memset(coef.lo(), 0, coef.total() * 4);
    if (!make_coeffs(r, w, h, type, bd, 0, coef.p(), true)) return;
    Out<int32_t> qc(r, "qcoeff", (size_t)n, 16 * (size_t)r.pick(0, 3)), dq(r, "dqcoeff", (size_t)n, 16 * (size_t)r.pick(0, 3));
    Out<uint16_t> eob(r, "eob", 1);
    const int16_t *scan = av1_scan_orders[txs][type].scan, *iscan = av1_scan_orders[txs][type].iscan;
    r.note("tx_size", txs); r.note("n_coeffs", n); r.note("log_scale", ls); r.note("bd", bd); r.note("qindex", q); r.note("tx_type", type);
    r.exec([&](AnyFn f) {
        if (kind <= 1) ((drv_quantize_b_fn)f)(coef.p(), n, T->zbin, T->round, T->quant, T->shift, qc.p(), dq.p(), T->dequant, eob.p(), scan, iscan, nullptr, nullptr, ls);
        else if (kind <= 4) ((drv_quantize_fp_fn)f)(coef.p(), n, T->zbin, T->round_fp, T->quant_fp, T->shift, qc.p(), dq.p(), T->dequant, eob.p(), scan, iscan);
        else ((drv_quantize_fp_hbd_fn)f)(coef.p(), n, T->zbin, T->round_fp, T->quant_fp, T->shift, qc.p(), dq.p(), T->dequant, eob.p(), scan, iscan, (int16_t)ls);
    });
}
static void drv_quantize_b(Run &r) { quantize_common(r, r.P(0)); }
static void drv_quantize_fp(Run &r) { quantize_common(r, 2 + r.P(0)); }
static void drv_quantize_fp_hbd(Run &r) { quantize_common(r, 5); }

// ---- entropy-coding helpers ----------------------------------------------------------------------------------------------------------------
typedef void (*drv_txb_init_levels_fn)(const TranLow *const, const int32_t, const int32_t, uint8_t *const);
static void drv_txb_init_levels(Run &r) {
    int txs = (int)r.pick(0, TX_SIZES_ALL - 1);
    int w = tx_size_wide[txs] > 32 ? 32 : tx_size_wide[txs], h = tx_size_high[txs] > 32 ? 32 : tx_size_high[txs];   // get_txb_wide_tab / get_txb_high_tab
    In<int32_t> coef((size_t)w * h, 64, 16 * (size_t)r.pick(0, 3));
    // quantised levels: the highbd quantisers have no int16 clamp, |qcoeff| reaches (2^17 << log_scale) / 4 = 131071 at qindex 0, 10 bit.
    // mild domain (C07_MILD): levels that fit int16.
    long long lim = r.mild ? 32767 : 131071;
    coef.fill(r, -lim, lim, "qcoeff");
    Out<uint8_t> lv(r, "levels_buf", TX_PAD_2D, 0);
    int stride = w + TX_PAD_HOR;
    // Compared: the padded level map, rows -TX_PAD_TOP .. height + TX_PAD_BOTTOM - 1.  The trailing TX_PAD_END (16 bytes) exists only so that
    // vector loads of the consumers stay inside the array; the C reference happens to zero it, the AVX2 kernel leaves it alone, no consumer
    // uses its value (the maintainers' EncodeTxbAsmTest excludes it as well).
    lv.only_prefix((size_t)(h + TX_PAD_VER) * stride);
    r.note("w", w); r.note("h", h);
    r.exec([&](AnyFn f) { ((drv_txb_init_levels_fn)f)(coef.p(), w, h, lv.p() + TX_PAD_TOP * stride); });
}
typedef void (*drv_get_nz_map_contexts_fn)(const uint8_t *const, const int16_t *const, const uint16_t, const TxSize, const TxClass, int8_t *const);
static void drv_get_nz_map_contexts(Run &r) {
    AnyFn init = find_cref("svt_av1_txb_init_levels");
    if (!init) { r.skip("no svt_av1_txb_init_levels"); return; }
    int txs = (int)r.pick(0, TX_SIZES_ALL - 1), tw = tx_size_wide[txs], th = tx_size_high[txs];
    int w = tw > 32 ? 32 : tw, h = th > 32 ? 32 : th;
    int type = pick_tx_type(r, tw, th);
    const int16_t *scan = av1_scan_orders[txs][type].scan;
    int eob = (int)r.pick(1, w * h);
    In<int32_t> coef((size_t)w * h, 64, 0);
    coef.fill(r, -300, 300, "qcoeff");
    memset(coef.lo(), 0, (size_t)((char *)coef.p() - (char *)coef.lo()));
    for (int i = eob; i < w * h; i++) coef[scan[i]] = 0;
    if (coef[scan[eob - 1]] == 0) coef[scan[eob - 1]] = 1;             // eob = last non-zero position + 1
    In<uint8_t> lv(TX_PAD_2D, 64, 0);
    memset(lv.lo(), 0, lv.total());
    int stride = w + TX_PAD_HOR;
    ((drv_txb_init_levels_fn)init)(coef.p(), w, h, lv.p() + TX_PAD_TOP * stride);
    Out<int8_t> ctx(r, "coeff_contexts", (size_t)w * h, 0);             // DECLARE_ALIGNED(16, int8_t, coeff_contexts[MAX_TX_SQUARE])
    ctx.mask.assign(ctx.n, 0);
    for (int i = 0; i < eob; i++) ctx.mask[(size_t)scan[i]] = 1;        // the C reference writes only coeff_contexts[scan[i]], i < eob
    r.note("tx_size", txs); r.note("tx_type", type); r.note("eob", eob);
    r.exec([&](AnyFn f) { ((drv_get_nz_map_contexts_fn)f)(lv.p() + TX_PAD_TOP * stride, scan, (uint16_t)eob, (TxSize)txs, tx_type_to_class[type], ctx.p()); });
}
typedef int (*drv_aom_satd_fn)(const TranLow *, int);
static void drv_aom_satd(Run &r) {
    static const int ls[7] = {16, 32, 64, 128, 256, 512, 1024};        // av1_get_max_eob() values; 256 for the 16x16 hadamard callers
    int n = ls[(int)r.pick(0, 6)];
    In<int32_t> c((size_t)n, 64, 8 * (size_t)r.pick(0, 7));
    c.fill(r, -32640, 32640, "coeff");                                  // "coeff: 16 bits, dynamic range [-32640, 32640]" (common_dsp_rtcd.c)
    r.note("length", n);
    r.exec([&](AnyFn f) { r.ret(((drv_aom_satd_fn)f)(c.p(), n)); });
}
typedef int64_t (*drv_block_error_fn)(const TranLow *, const TranLow *, intptr_t, int64_t *);
static void drv_block_error(Run &r) {
    int n = 256;                                                        // only caller: TPL, 16x16 hadamard coefficients and their svt_av1_quantize_fp() output
    In<int32_t> c((size_t)n, 64, 0), d((size_t)n, 64, 0);
    c.fill(r, -8160, 8160, "coeff");
    std::vector<int32_t> e((size_t)n); r.fill(e.data(), (size_t)n, -1828, 1828, "quant_error");
    memset(d.lo(), 0, d.total() * 4);
    for (int i = 0; i < n; i++) d[i] = c[i] + e[(size_t)i];
    Out<int64_t> ssz(r, "ssz", 1);
    r.exec([&](AnyFn f) { r.ret((long long)((drv_block_error_fn)f)(c.p(), d.p(), n, ssz.p())); });
}

// ---- kernels without a caller in the library: the maintainers' unit-test domain (test/PictureOperatorTest.cc, test/PackUnPackTest.cc) ---------
typedef void (*drv_picture_average_fn)(EbByte, uint32_t, EbByte, uint32_t, EbByte, uint32_t, uint32_t, uint32_t);
static void drv_picture_average(Run &r) {
    static const int ws[7] = {4, 8, 16, 24, 32, 48, 64};
    int w = ws[(int)r.pick(0, 6)], h = 2 * (int)r.pick(1, 32);
    int s0 = pick_stride(r, w, 4), s1 = pick_stride(r, w, 4), ds = pick_stride(r, w, 4);
    In<uint8_t> a((size_t)s0 * h, 64, 4 * (size_t)r.pick(0, 7)), b((size_t)s1 * h, 64, 4 * (size_t)r.pick(0, 7));
    a.fill(r, 0, 255, "src0"); b.fill(r, 0, 255, "src1");
    Out<uint8_t> dst(r, "dst", (size_t)ds * h, 4 * (size_t)r.pick(0, 7));
    dst.rect(w, h, ds, true);
    r.note("w", w); r.note("h", h);
    r.exec([&](AnyFn f) { ((drv_picture_average_fn)f)(a.p(), s0, b.p(), s1, dst.p(), ds, w, h); });
}
typedef void (*drv_picture_average_1line_fn)(EbByte, EbByte, EbByte, uint32_t);
static void drv_picture_average_1line(Run &r) {
    static const int ws[7] = {4, 8, 16, 24, 32, 48, 64};
    int w = ws[(int)r.pick(0, 6)];
    In<uint8_t> a(64, 64, 0), b(64, 64, 0);
    a.fill(r, 0, 255, "src0"); b.fill(r, 0, 255, "src1");
    Out<uint8_t> dst(r, "dst", 64, 0);
    dst.only_prefix((size_t)w);                                   // the SSE2 kernel rounds the width up (12 / 64 bytes); only [0, w) is defined
    r.note("w", w);
    r.exec([&](AnyFn f) { ((drv_picture_average_1line_fn)f)(a.p(), b.p(), dst.p(), w); });
}
typedef void (*drv_unpack_avg_fn)(uint16_t *, uint32_t, uint16_t *, uint32_t, uint8_t *, uint32_t, uint32_t, uint32_t);
typedef void (*drv_unpack_avg_safe_sub_fn)(uint16_t *, uint32_t, uint16_t *, uint32_t, uint8_t *, uint32_t, EbBool, uint32_t, uint32_t);
static void unpack_avg_common(Run &r, bool safe_sub) {
    static const int ws[5] = {4, 8, 16, 32, 64};
    int w = ws[(int)r.pick(safe_sub ? 1 : 0, 4)], h = 2 * (int)r.pick(1, 32);
    int s0 = pick_stride(r, w, 8), s1 = pick_stride(r, w, 8), ds = pick_stride(r, w, 8);
    In<uint16_t> a((size_t)s0 * h, 64, 0), b((size_t)s1 * h, 64, 0);
    a.fill(r, 0, 1023, "ref16_l0"); b.fill(r, 0, 1023, "ref16_l1");
    Out<uint8_t> dst(r, "dst", (size_t)ds * h, 0);
    dst.rect(w, h, ds, true);
    r.note("w", w); r.note("h", h);
    r.exec([&](AnyFn f) {
        if (!safe_sub) ((drv_unpack_avg_fn)f)(a.p(), s0, b.p(), s1, dst.p(), ds, w, h);
        else ((drv_unpack_avg_safe_sub_fn)f)(a.p(), s0, b.p(), s1, dst.p(), ds, EB_FALSE, w, h);
    });
}
static void drv_unpack_avg(Run &r) { unpack_avg_common(r, false); }
static void drv_unpack_avg_safe_sub(Run &r) { unpack_avg_common(r, true); }
typedef void (*drv_un_pack8_fn)(uint16_t *, uint32_t, uint8_t *, uint32_t, uint32_t, uint32_t);
static void drv_un_pack8(Run &r) {
    int w = 4 * (int)r.pick(1, 32), h = 2 * (int)r.pick(1, 32);
    int si = pick_stride(r, w, 4), so = pick_stride(r, w, 4);
    In<uint16_t> in((size_t)si * h, 64, 0);
    in.fill(r, 0, 65535, "in16");
    Out<uint8_t> out(r, "out8", (size_t)so * h, 0);
    out.rect(w, h, so, true);
    r.note("w", w); r.note("h", h);
    r.exec([&](AnyFn f) { ((drv_un_pack8_fn)f)(in.p(), si, out.p(), so, w, h); });
}
typedef void (*drv_c_pack_fn)(const uint8_t *, uint32_t, uint8_t *, uint32_t, uint8_t *, uint32_t, uint32_t);
static void drv_c_pack(Run &r) {
    int w = r.pick(0, 1) ? 64 : 32; static const int hs32[4] = {8, 16, 32, 64}, hs64[3] = {16, 32, 64};
    int h = w == 32 ? hs32[(int)r.pick(0, 3)] : hs64[(int)r.pick(0, 2)];
    int is = 128, os = 32;
    In<uint8_t> in((size_t)is * h, 64, 0); In<uint8_t> cache(256, 64, 0);
    in.fill(r, 0, 255, "inn_bit_buffer"); memset(cache.lo(), 0, cache.total());
    Out<uint8_t> out(r, "in_compn_bit_buffer", (size_t)os * h, 0);
    out.rect(w / 4, h, os, true);
    r.note("w", w); r.note("h", h);
    r.exec([&](AnyFn f) { ((drv_c_pack_fn)f)(in.p(), is, out.p(), os, cache.p(), w, h); });
}

}  // namespace c07
