// Family drivers: motion-estimation SAD helpers, picture operators (residual / average / distortion / pack / unpack / copy),
// quantizers, entropy helpers, misc.
#pragma once
#include "kernels_lib.h"
#include "EbDefinitions.h"
#include "drv_block.h"

namespace c07 {

// ---- svt_nxm_sad_kernel / svt_nxm_sad_kernel_sub_sampled / sad_16b_kernel (src, sstride, ref, rstride, height, width) -> SAD ----------
// P: 0 = svt_nxm_sad_kernel (ME: SB rows/cols, width multiple of 8 <= 64, height multiple of 4 <= 64),
//    1 = svt_nxm_sad_kernel_sub_sampled / sad_16b_kernel (mode decision: any AV1 block size incl. 4:2:0 chroma planes)
typedef uint32_t (*drv_nxm_sad_fn)(const uint8_t *, uint32_t, const uint8_t *, uint32_t, uint32_t, uint32_t);
typedef uint32_t (*drv_nxm_sad16_fn)(uint16_t *, uint32_t, uint16_t *, uint32_t, uint32_t, uint32_t);
template <class PIX> static void nxm_sad_common(Run &r, int kind, bool hbd) {
    long long mx = hbd ? 1023 : 255;
    int w, h;
    if (kind == 0) { w = 8 * (int)r.pick(1, 8); h = 4 * (int)r.pick(1, 16); }
    else { int bs = (int)r.pick(0, BlockSizeS_ALL - 1), chroma = (int)r.pick(0, 1); w = block_size_wide[bs]; h = block_size_high[bs]; if (chroma) { w = w > 4 ? w >> 1 : 4; h = h > 4 ? h >> 1 : 4; } }
    int dbl = kind == 0 ? (int)r.pick(0, 1) : 0;           // ME passes stride << subsample_sad
    int ss = pick_stride(r, w) << dbl, rs = pick_stride(r, w) << dbl;
    In<PIX> src((size_t)ss * h, 64, 4 * (size_t)r.pick(0, 15)), ref((size_t)rs * h, 64, (size_t)r.pick(0, 63));
    src.fill(r, 0, mx, "src"); ref.fill(r, 0, mx, "ref");
    r.note("w", w); r.note("h", h); r.note("src_stride", ss); r.note("ref_stride", rs);
    r.exec([&](AnyFn f) {
        if (!hbd) r.ret(((drv_nxm_sad_fn)f)((const uint8_t *)src.p(), ss, (const uint8_t *)ref.p(), rs, h, w));
        else r.ret(((drv_nxm_sad16_fn)f)((uint16_t *)src.p(), ss, (uint16_t *)ref.p(), rs, h, w));
    });
}
static void drv_nxm_sad(Run &r) { nxm_sad_common<uint8_t>(r, r.P(0), false); }
static void drv_nxm_sad16(Run &r) { nxm_sad_common<uint16_t>(r, 1, true); }

}  // namespace c07
