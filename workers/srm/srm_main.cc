// C23: system resource manager under a harness-OWNED schedule.
//
// Real pthreads run generated programs against the real svt_* SRM API.  The H1 hook (svt_verif_sync_cb, called at the top of every
// svt_post_semaphore / svt_block_on_semaphore / svt_release_mutex / svt_block_on_mutex) serialises them with a token: only the token holder
// runs; at every sync point the holder parks and the generated schedule picks the next thread among the ENABLED ones.  Enabledness comes from
// shadow semaphore counts / mutex owners maintained from the very same hook calls.  An explicit reference model (pool / posted FIFO / holders /
// live counts) is compared with the API results and with a snapshot of the real queues after every step.
//
//   srm gen <failfile>      generated search (RC_PARAMS="seed=N max_success=M max_size=S")
//   srm replay <file>       re-run the one case whose `txt` line is in <file>
//   srm trace <file>        validate an H2 event trace of a real encode against the same model invariants
#include <rapidcheck.h>
#include <cerrno>
#include <csetjmp>
#include <csignal>
#include <cstdint>
#include <cstdio>
#include <cstdlib>
#include <cstring>
#include <ctime>
#include <map>
#include <memory>
#include <set>
#include <sstream>
#include <string>
#include <vector>
#include <pthread.h>
#include <sched.h>
#include <semaphore.h>
#include <unistd.h>
#include "srm_shim.h"

extern "C" void (*svt_verif_sync_cb)(int kind, void *handle);
extern "C" const char *__asan_default_options() { return "detect_leaks=0:abort_on_error=0"; }   // aborted cases leak their SRM on purpose

int trace_main(const char *path);   // srm_trace.cc

namespace {

// ---------------------------------------------------------------------------------------------------------------- case + text form
struct Op { char k; int a; int b; };
// producer ops: E get_empty | I<slot>,<n> inc_live_count | P<slot>,<keep> post_full keeping <keep> refs | R<slot>,<m> release m times (0 = all)
//               D<slot> release_disable | T<slot> retire = release_enable + "if (live_count == 0) release" (ResourceCoordination idiom)
// consumer ops: F get_full | N get_full_non_blocking (executed only when c == 1, as the real callers) | I | R
struct Case {
    int n = 1, p = 1, c = 1;
    int ctl = -1;                                  // -1: svt_shutdown_process only as rescue at the end; k>=0: issued once >= k sync points elapsed
    std::vector<std::vector<Op>> prog;             // p producer programs then c consumer programs
    std::vector<int> sched;                        // consumed (mod #enabled) at every sync point with >= 2 enabled threads
};

std::string dump_txt(const Case &c) {
    std::ostringstream s;
    s << "v1 n=" << c.n << " p=" << c.p << " c=" << c.c << " ctl=" << c.ctl;
    for (auto &pr : c.prog) {
        s << " |";
        for (auto &o : pr) {
            s << " " << o.k;
            if (o.k == 'I' || o.k == 'P' || o.k == 'R') s << o.a << "," << o.b;
            else if (o.k == 'D' || o.k == 'T') s << o.a;
        }
    }
    s << " | S";
    for (int v : c.sched) s << " " << v;
    return s.str();
}
bool parse_txt(const std::string &txt, Case &c) {
    std::vector<std::string> sec; std::string cur;
    for (char ch : txt) { if (ch == '|') { sec.push_back(cur); cur.clear(); } else if (ch != '\n' && ch != '\r') cur += ch; }
    sec.push_back(cur);
    if (sec.size() < 2) return false;
    if (sscanf(sec[0].c_str(), " v1 n=%d p=%d c=%d ctl=%d", &c.n, &c.p, &c.c, &c.ctl) != 4) return false;
    if (c.n < 1 || c.n > 6 || c.p < 1 || c.p > 3 || c.c < 1 || c.c > 3) return false;
    if ((int)sec.size() != 1 + c.p + c.c + 1) return false;
    for (int i = 0; i < c.p + c.c; i++) {
        std::istringstream is(sec[1 + i]); std::string t; std::vector<Op> pr;
        while (is >> t) {
            Op o{t[0], 0, 0};
            if (o.k == 'I' || o.k == 'P' || o.k == 'R') { if (sscanf(t.c_str() + 1, "%d,%d", &o.a, &o.b) != 2) return false; }
            else if (o.k == 'D' || o.k == 'T') { if (sscanf(t.c_str() + 1, "%d", &o.a) != 1) return false; }
            else if (o.k != 'E' && o.k != 'F' && o.k != 'N') return false;
            if (o.a < 0 || o.b < 0) return false;
            bool prod = i < c.p;
            if (prod && (o.k == 'F' || o.k == 'N')) return false;
            if (!prod && (o.k == 'E' || o.k == 'P' || o.k == 'D' || o.k == 'T')) return false;
            pr.push_back(o);
        }
        c.prog.push_back(pr);
    }
    std::istringstream is(sec.back()); std::string t; is >> t; if (t != "S") return false;
    int v; while (is >> v) c.sched.push_back(v < 0 ? -v : v);
    return true;
}

// ---------------------------------------------------------------------------------------------------------------- run-time structures
enum { K_POST = 1, K_WAIT = 2, K_UNLOCK = 3, K_LOCK = 4, K_STEPS = 102, K_LATE = 101 };   // 1..4 = kinds passed by EbThreads.c
enum { ST_NEW, ST_RUN, ST_SYNC, ST_DONE };
enum { M_POOL, M_OUT, M_POSTED };
const int MAX_STEPS = 20000;

struct Held { int obj; int refs; bool owner; bool active; };
struct Part {                                       // one participant: producer 'P', consumer 'C' or the controller 'X' (= main thread)
    int id = 0; char role = 'P'; int fifo = 0;
    sem_t go; pthread_t th{}; jmp_buf jb;
    int st = ST_NEW; int pk = 0; void *ph = nullptr;
    bool in_call = false; char cur = 0; int cur_obj = -1, cur_arg = 0, cur_seq = -1; bool lin_done = true; bool blocked_now = false;
    std::vector<Held> held; bool got_shutdown = false;
};
struct MObj { int st = M_POOL; unsigned live = 0; bool enabled = true; int seq = -1; int inflight = 0; bool post_returned = false; };

struct Stats {
    int steps = 0, contended = 0, blockE = 0, blockF = 0, ops = 0, skipped = 0, posts = 0, gets_full = 0, nb_null = 0, nb_obj = 0,
        shutdown_ret = 0, maxlive = 0, conc_release = 0, disables = 0, drained = 0, switches = 0;
    bool rescued = false, early = false, starved = false, sched_exhausted = false;
};
struct Run {
    const Case *cs = nullptr; void *res = nullptr; ShimIds ids{}; int nw = 0;
    std::vector<std::unique_ptr<Part>> parts;       // workers 0..nw-1, controller nw
    std::map<void *, int> sem, mtx;                 // shadow: semaphore count / mutex owner (-1 free)
    MObj M[SHIM_MAX_OBJ]; int next_seq = 0; int fifo_last_seq[SHIM_MAX_FIFO]; bool sd_called = false, sd_done = false;
    size_t sp = 0; volatile bool active = false, stop = false;
    std::string fkey, fwhat; bool herr = false;     // herr: the harness itself is inconsistent (never reported as a library failure)
    Stats st;
    Part &ctl() { return *parts[nw]; }
};
Run *G = nullptr;
thread_local Part *tl_me = nullptr;
bool g_verbose = false;                            // replay mode: print every scheduling step and API call/return

std::string hname(void *h) {
    Run &R = *G;
    for (int s = 0; s < 2; s++) {
        if (h == R.ids.qmutex[s]) return s ? "full_queue.mutex" : "empty_queue.mutex";
        for (int f = 0; f < SHIM_MAX_FIFO; f++) {
            if (h && h == R.ids.fsem[s][f]) return std::string(s ? "consumer" : "producer") + std::to_string(f) + ".sem";
            if (h && h == R.ids.fmutex[s][f]) return std::string(s ? "consumer" : "producer") + std::to_string(f) + ".mutex";
        }
    }
    return "?";
}

void park(Part &me) {
    while (sem_wait(&me.go) == -1 && errno == EINTR) {}
    if (G->stop) longjmp(me.jb, 1);
}
void wake(int id) { sem_post(&G->parts[id]->go); }
[[noreturn]] void bail(Part &me) {
    if (me.role != 'X') sem_post(&G->ctl().go);
    longjmp(me.jb, 1);
}
[[noreturn]] void fail(Part &me, const std::string &key, const std::string &what) {
    if (G->fkey.empty()) { G->fkey = key; G->fwhat = what; }
    G->stop = true;
    bail(me);
}
[[noreturn]] void harness_error(Part &me, const std::string &what) { G->herr = true; fail(me, "harness-inconsistency", what); }

std::string pname(const Part &t) { return std::string(1, t.role == 'P' ? 'p' : t.role == 'C' ? 'c' : 'x') + std::to_string(t.fifo); }
std::string sname(int st) { return st == M_POOL ? "in the empty pool" : st == M_OUT ? "held" : "posted"; }

int total_refs(int x) {
    int t = G->M[x].st == M_POSTED ? G->M[x].inflight : 0;
    for (auto &p : G->parts) for (auto &h : p->held) if (h.obj == x) t += h.refs;
    return t;
}
std::string holders(int x) {
    std::string s;
    for (auto &p : G->parts) for (auto &h : p->held) if (h.obj == x && (h.refs > 0 || h.active)) s += (s.empty() ? "" : ",") + pname(*p);
    return s.empty() ? "nobody" : s;
}

// ---------------------------------------------------------------------------------------------------------------- oracle: state check
// Compared after every step (each sync point and each API return) while every other thread is parked.
bool g_no_whitebox = false;                        // SRM_NO_WHITEBOX=1 (diagnostic): only the API-level oracle, to measure what it catches alone
void check_state(Part &me) {
    if (g_no_whitebox) return;
    Run &R = *G; ShimSnap s; shim_snap(R.res, &s);
    const int n = R.ids.n;
    if (s.bad) fail(me, "corrupt-queue", "queue/fifo structure holds a foreign pointer, a cycle or more entries than objects (code " + std::to_string(s.bad) + ")");
    int cnt[SHIM_MAX_OBJ] = {0}, side_of[SHIM_MAX_OBJ];
    for (int i = 0; i < n; i++) side_of[i] = -1;
    for (int sd = 0; sd < 2; sd++) {
        for (int k = 0; k < s.oq_len[sd]; k++) { cnt[s.oq[sd][k]]++; side_of[s.oq[sd][k]] = sd; }
        int nf = sd ? R.ids.c : R.ids.p;
        for (int f = 0; f < nf; f++) for (int k = 0; k < s.fl_len[sd][f]; k++) { cnt[s.fl[sd][f][k]]++; side_of[s.fl[sd][f][k]] = sd; }
    }
    int in_calls = 0; for (auto &p : R.parts) if (p->in_call) in_calls++;
    int none = 0;
    for (int x = 0; x < n; x++) {
        MObj &m = R.M[x];
        if (cnt[x] > 1) fail(me, "conservation-dup", "object " + std::to_string(x) + " is queued " + std::to_string(cnt[x]) + " times");
        if (m.st == M_OUT) {
            if (cnt[x]) fail(me, "conservation-held-queued", "object " + std::to_string(x) + " is held by " + holders(x) + " (neither posted nor released to live 0) but sits in the " + (side_of[x] ? "full" : "empty") + " side queues");
        } else if (m.st == M_POOL) {
            if (cnt[x] && side_of[x] == 1) fail(me, "conservation-side", "object " + std::to_string(x) + " was released to the empty pool but sits on the full side");
            if (!cnt[x]) none++;
        } else {
            if (cnt[x] && side_of[x] == 0) fail(me, "conservation-side", "object " + std::to_string(x) + " was posted but sits on the empty side");
            if (!cnt[x]) none++;
        }
        if (m.st != M_POOL) {
            if (s.live[x] != m.live) fail(me, "live-mismatch", "object " + std::to_string(x) + ": live_count " + std::to_string(s.live[x]) + ", model " + std::to_string(m.live));
            if ((s.enable[x] != 0) != m.enabled) fail(me, "enable-mismatch", "object " + std::to_string(x) + ": release_enable " + std::to_string(s.enable[x]) + ", model " + std::to_string(m.enabled));
        }
    }
    if (none > in_calls)   // an object may be in transit (popped, not yet pushed/returned) only inside a running API call, one per call
        fail(me, "conservation-lost", std::to_string(none) + " pooled/posted object(s) are in no queue while only " + std::to_string(in_calls) + " API call(s) are in progress");
    // posting order: full object queue is ordered by posting sequence, so is every consumer fifo, and everything assigned is older than everything waiting
    int last = -1, min_fq = 1 << 30;
    for (int k = 0; k < s.oq_len[1]; k++) { int x = s.oq[1][k]; if (R.M[x].st != M_POSTED) continue; if (R.M[x].seq < last) fail(me, "order-queue", "full queue not in posting order at object " + std::to_string(x)); last = R.M[x].seq; if (R.M[x].seq < min_fq) min_fq = R.M[x].seq; }
    for (int f = 0; f < R.ids.c; f++) {
        last = -1;
        for (int k = 0; k < s.fl_len[1][f]; k++) {
            int x = s.fl[1][f][k]; if (R.M[x].st != M_POSTED) continue;
            if (R.M[x].seq < last) fail(me, "order-consumer", "consumer fifo " + std::to_string(f) + " not in posting order at object " + std::to_string(x));
            last = R.M[x].seq;
            if (R.M[x].seq > min_fq) fail(me, "order-assign", "object " + std::to_string(x) + " (post #" + std::to_string(R.M[x].seq) + ") was assigned to consumer " + std::to_string(f) + " before the earlier post #" + std::to_string(min_fq));
        }
    }
    // a fifo's semaphore counts the objects in its list (+1 for the shutdown post): a larger count lets a consumer wake up and pop an empty
    // list; at quiescence (no API call in progress anywhere) a smaller count means an object nobody will be woken for
    for (int sd = 0; sd < 2; sd++) for (int f = 0; f < (sd ? R.ids.c : R.ids.p); f++) {
        if (s.fsemv[sd][f] > s.fl_len[sd][f] + s.fquit[sd][f])
            fail(me, "sem-exceeds-fifo", std::string(sd ? "consumer" : "producer") + " fifo " + std::to_string(f) + ": semaphore count " + std::to_string(s.fsemv[sd][f]) + " but only " + std::to_string(s.fl_len[sd][f]) + " object(s) queued (a waiter can wake up with nothing to take)");
        // (not after shutdown: every get then consumes a count without popping - the queued objects are abandoned by design)
        if (in_calls == 0 && !s.fquit[sd][f] && s.fsemv[sd][f] < s.fl_len[sd][f])
            fail(me, "sem-below-fifo", std::string(sd ? "consumer" : "producer") + " fifo " + std::to_string(f) + ": " + std::to_string(s.fl_len[sd][f]) + " object(s) queued but semaphore count " + std::to_string(s.fsemv[sd][f]) + " with no call in progress (lost wake-up)");
    }
    for (int f = 0; f < R.ids.p; f++) if (s.fquit[0][f]) fail(me, "quit-flag", "producer fifo has quit_signal set");
    for (int f = 0; f < R.ids.c; f++) if (s.fquit[1][f] && !R.sd_called) fail(me, "quit-flag", "consumer fifo has quit_signal set without svt_shutdown_process");
    for (int sd = 0; sd < 2; sd++) for (int f = 0; f < (sd ? R.ids.c : R.ids.p); f++)
        if (R.sem[R.ids.fsem[sd][f]] != s.fsemv[sd][f]) harness_error(me, "shadow semaphore count " + std::to_string(R.sem[R.ids.fsem[sd][f]]) + " != sem_getvalue " + std::to_string(s.fsemv[sd][f]));
}

// ---------------------------------------------------------------------------------------------------------------- scheduler
bool enabled(const Part &t) {
    Run &R = *G;
    if (t.st == ST_NEW) return t.role != 'X';
    if (t.st != ST_SYNC) return false;
    switch (t.pk) {
    case K_POST: case K_UNLOCK: return true;
    case K_WAIT: return R.sem[t.ph] > 0;
    case K_LOCK: { auto it = R.mtx.find(t.ph); return it == R.mtx.end() || it->second < 0; }
    case K_STEPS: return R.st.steps >= R.cs->ctl;
    default: return false;   // K_LATE: only when nothing else can run
    }
}
int pick_next(Part &me) {
    Run &R = *G; std::vector<int> en;
    if (enabled(me)) en.push_back(me.id);
    for (auto &p : R.parts) if (p->id != me.id && enabled(*p)) en.push_back(p->id);
    for (auto &p : R.parts)
        if (p->st == ST_SYNC && p->pk == K_WAIT && p->in_call && !p->blocked_now && !enabled(*p)) {
            p->blocked_now = true;
            if (p->cur == 'E') R.st.blockE++; else if (p->cur == 'F') R.st.blockF++;
        }
    if (en.empty()) {
        Part &x = R.ctl();
        if (x.st == ST_SYNC && (x.pk == K_LATE || x.pk == K_STEPS)) return x.id;
        // the controller itself is stuck inside svt_shutdown_process or inside the final drain and nobody can run
        if (x.st == ST_SYNC && x.pk == K_LOCK) fail(me, "deadlock-mutex", "controller blocked on a mutex held by " + (R.mtx[x.ph] >= 0 ? pname(*R.parts[R.mtx[x.ph]]) : std::string("?")) + " inside " + (x.cur == 'S' ? "svt_shutdown_process" : "the final drain") + "; no thread can run");
        if (x.st == ST_SYNC && x.pk == K_WAIT) fail(me, x.cur == 'E' ? "lost-object-empty" : "lost-object-full", std::string("final drain: the model says an object is available on the ") + (x.cur == 'E' ? "empty" : "full") + " side but the get blocks with every thread finished");
        harness_error(me, "no thread enabled and controller not waiting");
    }
    int pick = 0;
    if (en.size() >= 2) {
        R.st.contended++;
        if (R.sp < R.cs->sched.size()) pick = R.cs->sched[R.sp++] % (int)en.size(); else R.st.sched_exhausted = true;
    }
    return en[pick];
}

void model_lin(Part &me);

void apply_grant(Part &me) {                      // me was chosen and is enabled: account for the primitive it is about to execute
    Run &R = *G;
    switch (me.pk) {
    case K_POST: R.sem[me.ph]++; break;
    case K_WAIT: R.sem[me.ph]--; break;
    case K_LOCK:
        R.mtx[me.ph] = me.id;
        if (me.in_call && !me.lin_done) {
            // every mutating API call is one critical section of one queue lock: its effect is ordered by the acquisition of that lock
            void *want = (me.cur == 'P') ? R.ids.qmutex[1] : (me.cur == 'R' || me.cur == 'I' || me.cur == 'D' || me.cur == 'e' || me.cur == 't') ? R.ids.qmutex[0] : nullptr;
            if (want && want == me.ph) model_lin(me);
        }
        break;
    case K_UNLOCK: {
        auto it = R.mtx.find(me.ph);
        if (it == R.mtx.end() || it->second != me.id) fail(me, "unlock-not-owner", pname(me) + " releases a mutex it does not hold");
        it->second = -1; break; }
    default: break;
    }
}
void sync_point(Part &me, int kind, void *h) {
    Run &R = *G;
    if (++R.st.steps > MAX_STEPS) harness_error(me, "step limit exceeded");
    const int my_step = R.st.steps;
    me.pk = kind; me.ph = h; me.st = ST_SYNC;
    if ((kind == K_WAIT || kind == K_POST) && R.sem.find(h) == R.sem.end()) { int v = 0; sem_getvalue((sem_t *)h, &v); R.sem[h] = v; }   // a semaphore the ctor did not show us
    check_state(me);
    int nx = pick_next(me);
    if (nx != me.id) { R.st.switches++; wake(nx); park(me); }
    me.st = ST_RUN;
    if (g_verbose) {
        static const char *kn[] = {"", "post", "wait", "unlock", "lock"};
        printf("  run %s: %s %s (in %c; reached this sync point as #%d)\n", pname(me).c_str(), kn[kind], hname(h).c_str(), me.cur ? me.cur : '-', my_step);
    }
    apply_grant(me);
}
void sync_cb(int kind, void *h) {
    Part *me = tl_me;
    if (!me || !G || !G->active || kind < K_POST || kind > K_LOCK) return;   // ctor/dtor time, cond-var kinds: not schedule points
    sync_point(*me, kind, h);
}

// ---------------------------------------------------------------------------------------------------------------- model transitions
Held *find_held(Part &me, int x) { for (auto &h : me.held) if (h.obj == x) return &h; return nullptr; }
void to_pool(Part &me, int x) {
    if (total_refs(x) != 0) harness_error(me, "object " + std::to_string(x) + " returns to the pool with outstanding references");
    G->M[x].st = M_POOL;
}
void model_lin(Part &me) {                         // executed by the calling thread at its linearisation point (or at return as a fallback)
    Run &R = *G; me.lin_done = true;
    int x = me.cur_obj; if (x < 0) return;
    MObj &m = R.M[x]; Held *h = find_held(me, x);
    switch (me.cur) {
    case 'P':
        if (!h || m.st != M_OUT) harness_error(me, "post of an object not held");
        m.st = M_POSTED; m.seq = R.next_seq++; m.inflight = h->refs - me.cur_arg; h->refs = me.cur_arg; h->owner = false; m.post_returned = false; me.cur_seq = m.seq;
        break;
    case 'R':
        if (!h || h->refs < 1 || m.st == M_POOL) harness_error(me, "release without a reference");
        h->refs--; m.live = m.live ? m.live - 1 : 0;
        if (m.live == 0 && m.enabled) to_pool(me, x);
        break;
    case 't':                                      // the release inside "retire": made because live_count was read as 0
        if (!h || m.st == M_POOL) harness_error(me, "retire-release of a pooled object");
        if (h->refs > 0) h->refs--;
        m.live = m.live ? m.live - 1 : 0;
        if (m.live == 0 && m.enabled) to_pool(me, x);
        break;
    case 'I': {
        if (!h || m.st == M_POOL) harness_error(me, "inc_live_count without a handle");
        int before = total_refs(x);
        if (m.live == 0) h->refs += me.cur_arg - before; else h->refs += me.cur_arg;
        m.live += (unsigned)me.cur_arg;
        if ((int)m.live > R.st.maxlive) R.st.maxlive = (int)m.live;
        if (total_refs(x) != (int)m.live) harness_error(me, "reference accounting broke at inc_live_count");
        break; }
    case 'D': if (!h) harness_error(me, "disable without a handle"); m.enabled = false; h->active = true; break;
    case 'e': if (!h) harness_error(me, "enable without a handle"); m.enabled = true; h->active = false; break;
    default: break;
    }
}
void op_begin(Part &me, char k, int obj, int arg) {
    if (g_verbose) printf("%s: call %c obj=%d arg=%d\n", pname(me).c_str(), k, obj, arg);
    me.in_call = true; me.cur = k; me.cur_obj = obj; me.cur_arg = arg; me.lin_done = false; me.blocked_now = false; me.cur_seq = -1; G->st.ops++; }
void op_end(Part &me) {
    // lock discipline (the mechanism the property names): a mutating call takes effect inside the critical section of ITS queue's lockout mutex
    // (post: full queue; release / inc_live_count / enable / disable: empty queue).  If the call returns without ever having acquired that
    // mutex, its queue update ran unprotected against concurrent callers - a data race the token scheduler cannot show by interleaving,
    // because the unprotected region contains no schedule point.
    if (!me.lin_done && me.cur_obj >= 0 && (me.cur == 'P' || me.cur == 'R' || me.cur == 'I' || me.cur == 'D' || me.cur == 'e' || me.cur == 't'))
        fail(me, "lock-discipline", pname(me) + ": call '" + std::string(1, me.cur) + "' returned without acquiring the " + (me.cur == 'P' ? "full" : "empty") + "-queue lockout mutex that must protect its queue update");
    if (!me.lin_done) model_lin(me);
    if (g_verbose) {
        std::string hs; for (auto &h : me.held) hs += " obj" + std::to_string(h.obj) + "x" + std::to_string(h.refs) + (h.owner ? "o" : "") + (h.active ? "a" : "");
        printf("%s: return from %c; holds:%s%s\n", pname(me).c_str(), me.cur, hs.c_str(), me.got_shutdown ? " [shutdown seen]" : "");
    }
    me.in_call = false; me.cur = 0; check_state(me);
}

void do_get_empty(Part &me) {
    Run &R = *G; int x = -1;
    op_begin(me, 'E', -1, 0);
    int e = shim_get_empty(R.res, me.fifo, &x);
    if (e != shim_err_none()) fail(me, "get-empty-error", "svt_get_empty_object returned error " + std::to_string(e));
    if (x < 0) fail(me, x == -1 ? "get-null" : "foreign-object", "svt_get_empty_object returned " + std::string(x == -1 ? "NULL" : "a wrapper that is not in the pool array"));
    MObj &m = R.M[x];
    if (m.st != M_POOL) fail(me, "dup-holder", "svt_get_empty_object handed object " + std::to_string(x) + " to " + pname(me) + " while it is " + sname(m.st) + " (holders: " + holders(x) + ")");
    if (shim_live(R.res, x) != 0) fail(me, "get-empty-state", "object " + std::to_string(x) + " handed out with live_count " + std::to_string(shim_live(R.res, x)));
    m.st = M_OUT; m.live = 0; m.enabled = true; m.inflight = 0;
    me.held.push_back(Held{x, 1, true, false});
    op_end(me);
}
void do_get_full(Part &me, bool nb) {
    Run &R = *G; int x = -1;
    bool after_sd = R.sd_done; int avail = 0;
    for (int i = 0; i < R.ids.n; i++) if (R.M[i].st == M_POSTED && R.M[i].post_returned) avail++;
    op_begin(me, nb ? 'N' : 'F', -1, 0);
    int e = nb ? shim_get_full_nb(R.res, me.fifo, &x) : shim_get_full(R.res, me.fifo, &x);
    R.st.gets_full++;
    if (e == shim_err_shutdown()) {
        if (nb) fail(me, "nb-shutdown", "svt_get_full_object_non_blocking returned EB_NoErrorFifoShutdown");
        if (!R.sd_called) fail(me, "shutdown-spurious", "svt_get_full_object returned EB_NoErrorFifoShutdown but svt_shutdown_process was never called");
        if (x != -1) fail(me, "shutdown-object", "EB_NoErrorFifoShutdown together with an object");
        me.got_shutdown = true; R.st.shutdown_ret++;
    } else if (e == shim_err_none()) {
        if (x == -2) fail(me, "foreign-object", "get_full returned a wrapper that is not in the pool array");
        if (x == -1) {
            if (!nb) fail(me, "get-null", "blocking svt_get_full_object returned NULL without EB_NoErrorFifoShutdown");
            if (avail > 0 && !R.sd_called && R.ids.c == 1)
                fail(me, "nb-null-while-available", "non-blocking get returned NULL although " + std::to_string(avail) + " object(s) had been completely posted before the call and this is the only consumer");
            R.st.nb_null++;
        } else {
            MObj &m = R.M[x];
            if (after_sd) fail(me, "shutdown-missed", "get_full called after svt_shutdown_process had returned still delivered object " + std::to_string(x));
            if (m.st != M_POSTED) fail(me, "dup-holder", "get_full handed object " + std::to_string(x) + " to " + pname(me) + " while it is " + sname(m.st) + " (holders: " + holders(x) + ")");
            if (m.seq < R.fifo_last_seq[me.fifo]) fail(me, "order-consumer", "consumer fifo " + std::to_string(me.fifo) + " received post #" + std::to_string(m.seq) + " after post #" + std::to_string(R.fifo_last_seq[me.fifo]));
            R.fifo_last_seq[me.fifo] = m.seq;
            m.st = M_OUT; me.held.push_back(Held{x, m.inflight, false, false}); m.inflight = 0;
            if (nb) R.st.nb_obj++;
        }
    } else fail(me, "get-full-error", "get_full returned error " + std::to_string(e));
    op_end(me);
}
void do_post(Part &me, int x, int keep) {
    op_begin(me, 'P', x, keep); G->st.posts++;
    shim_post_full(G->res, x);
    if (!me.lin_done) model_lin(me);
    if (G->M[x].st == M_POSTED && G->M[x].seq == me.cur_seq) G->M[x].post_returned = true;
    op_end(me);
}
void do_release(Part &me, int x, char kind = 'R') {
    for (auto &p : G->parts) if (p->id != me.id && p->in_call && (p->cur == 'R' || p->cur == 't') && p->cur_obj == x) G->st.conc_release++;
    op_begin(me, kind, x, 0); shim_release(G->res, x); op_end(me);
}
void do_inc(Part &me, int x, int n) { op_begin(me, 'I', x, n); shim_inc_live(G->res, x, (unsigned)n); op_end(me); }
void do_disable(Part &me, int x) { op_begin(me, 'D', x, 0); G->st.disables++; shim_release_disable(G->res, x); op_end(me); }
void do_retire(Part &me, int x) {
    op_begin(me, 'e', x, 0); shim_release_enable(G->res, x); op_end(me);
    if (shim_live(G->res, x) == 0) do_release(me, x, 't');   // "if (prev_scs_wrapper_ptr->live_count == 0) svt_release_object(prev)"
}
void do_shutdown(Part &me) {
    op_begin(me, 'S', -1, 0); G->sd_called = true;
    shim_shutdown(G->res);
    G->sd_done = true; op_end(me);
}
void prune(Part &me) { for (size_t i = 0; i < me.held.size();) if (me.held[i].refs == 0 && !me.held[i].active) me.held.erase(me.held.begin() + i); else i++; }

// eligibility = what real callers do: post/disable only by the thread that dequeued the empty object and still owns it, inc/release only with a
// reference (or as the owner of a release-disabled object), never release the implicit reference of a disabled object, one thread per fifo.
int pick_slot(Part &me, char k, int a) {
    std::vector<int> el;
    for (size_t i = 0; i < me.held.size(); i++) {
        const Held &h = me.held[i]; bool ok = false;
        switch (k) {
        case 'I': ok = h.refs >= 1 || h.active; break;
        case 'P': ok = h.owner && !h.active && h.refs >= 1; break;
        case 'R': ok = h.refs >= 1 && !(h.active && G->M[h.obj].live == 0); break;
        case 'D': ok = h.owner && !h.active && h.refs >= 1; break;
        case 'T': ok = h.active; break;
        }
        if (ok) el.push_back((int)i);
    }
    return el.empty() ? -1 : el[a % (int)el.size()];
}
void run_program(Part &me) {
    const std::vector<Op> &pr = G->cs->prog[me.id];
    for (const Op &o : pr) {
        prune(me);
        if (o.k == 'E') { do_get_empty(me); continue; }
        if (o.k == 'F' || o.k == 'N') {
            if (me.got_shutdown || (o.k == 'N' && G->ids.c != 1)) { G->st.skipped++; continue; }   // a kernel exits on shutdown; NB only on single-consumer SRMs
            do_get_full(me, o.k == 'N'); continue;
        }
        int i = pick_slot(me, o.k, o.a);
        if (i < 0) { G->st.skipped++; continue; }
        int x = me.held[i].obj, refs = me.held[i].refs;
        switch (o.k) {
        case 'I': do_inc(me, x, 1 + o.b % 3); break;
        case 'P': do_post(me, x, o.b % refs); break;
        case 'R': { int m = o.b == 0 ? refs : 1 + (o.b - 1) % refs; for (int k = 0; k < m; k++) do_release(me, x); break; }
        case 'D': do_disable(me, x); break;
        case 'T': do_retire(me, x); break;
        }
    }
    // a kernel eventually retires / releases everything it still references
    for (;;) {
        prune(me);
        if (me.held.empty()) break;
        int x = me.held[0].obj;
        if (me.held[0].active) do_retire(me, x);
        else do_release(me, x);
    }
}
// Worker threads are created once and reused by every case (thread creation under ASan costs more than a whole schedule).
struct PoolThread { pthread_t th; sem_t job, done; Part *part = nullptr; };
PoolThread g_pool[SHIM_MAX_FIFO * 2];
int g_pool_n = 0;
void *pool_main(void *arg) {
    PoolThread *pt = (PoolThread *)arg;
    for (;;) {
        while (sem_wait(&pt->job) == -1 && errno == EINTR) {}
        Part *me = pt->part; tl_me = me;
        if (setjmp(me->jb) == 0) {
            park(*me);
            me->st = ST_RUN;
            run_program(*me);
            me->st = ST_DONE;
            check_state(*me);
            wake(pick_next(*me));
        }
        tl_me = nullptr;
        sem_post(&pt->done);
    }
    return nullptr;
}
void pool_start(int i, Part *p) {
    while (g_pool_n <= i) {
        PoolThread &pt = g_pool[g_pool_n];
        sem_init(&pt.job, 0, 0); sem_init(&pt.done, 0, 0);
        pthread_attr_t at; pthread_attr_init(&at); pthread_attr_setstacksize(&at, 512 * 1024);
        if (pthread_create(&pt.th, &at, pool_main, &pt) != 0) { fprintf(stderr, "srm: cannot create worker thread\n"); _exit(3); }
        pthread_attr_destroy(&at);
        g_pool_n++;
    }
    g_pool[i].part = p; sem_post(&g_pool[i].job);
}
void pool_wait(int i) { while (sem_wait(&g_pool[i].done) == -1 && errno == EINTR) {} }
void ctl_wait(Part &me, int kind) {                // controller-only pseudo sync points (no library primitive behind them)
    me.pk = kind; me.ph = nullptr; me.st = ST_SYNC;
    int nx = pick_next(me);
    if (nx != me.id) { wake(nx); park(me); }
    me.st = ST_RUN;
}
void ctl_body(Part &me) {
    Run &R = *G;
    if (R.cs->ctl >= 0) { ctl_wait(me, K_STEPS); R.st.early = true; do_shutdown(me); }
    for (;;) {
        ctl_wait(me, K_LATE);                      // returns only when no worker can run
        std::vector<Part *> bc, bp;
        for (int i = 0; i < R.nw; i++) {
            Part &t = *R.parts[i];
            if (t.st == ST_DONE) continue;
            if (t.st != ST_SYNC) harness_error(me, "worker neither done nor parked at late analysis");
            if (t.pk == K_LOCK) fail(me, "deadlock-mutex", pname(t) + " blocked forever on a mutex held by " + (R.mtx[t.ph] >= 0 ? pname(*R.parts[R.mtx[t.ph]]) : std::string("?")) + "; no thread can run");
            if (t.pk != K_WAIT) harness_error(me, "parked worker is enabled at late analysis");
            (t.role == 'C' ? bc : bp).push_back(&t);
        }
        int posted = 0, pool = 0;
        for (int x = 0; x < R.ids.n; x++) { if (R.M[x].st == M_POSTED) posted++; if (R.M[x].st == M_POOL) pool++; }
        if (!bc.empty()) {
            if (R.sd_done) fail(me, "shutdown-no-wake", pname(*bc[0]) + " still blocked in svt_get_full_object after svt_shutdown_process returned");
            if (posted > 0) fail(me, "lost-wakeup-full", pname(*bc[0]) + " blocked in svt_get_full_object with every other thread idle although " + std::to_string(posted) + " posted object(s) are undelivered");
            R.st.rescued = true; do_shutdown(me);   // model-predicted starvation: end it the way svt_av1_enc_deinit does
            continue;
        }
        if (!bp.empty()) {
            if (pool > 0) fail(me, "lost-wakeup-empty", pname(*bp[0]) + " blocked in svt_get_empty_object with every other thread idle although " + std::to_string(pool) + " object(s) are in the empty pool");
            R.st.starved = true; return;            // producers wait for objects nobody will release: inevitable for this program
        }
        // everybody finished: every pooled object must be obtainable again, every undelivered post must be deliverable in order
        for (int k = 0; k < pool; k++) { do_get_empty(me); R.st.drained++; }
        if (!R.sd_called) for (int k = 0; k < posted; k++) { do_get_full(me, false); R.st.drained++; }
        return;
    }
}

// ---------------------------------------------------------------------------------------------------------------- one case
struct Outcome { std::string key, what; bool herr = false; Stats st; };

Outcome run_case(const Case &c) {
    Outcome out;
    Run *R = new Run(); G = R; R->cs = &c;
    R->res = shim_new(c.n, c.p, c.c);
    if (!R->res) { out.key = "harness-inconsistency"; out.what = "cannot construct SRM"; out.herr = true; G = nullptr; delete R; return out; }
    shim_ids(R->res, &R->ids);
    for (int s = 0; s < 2; s++) {
        R->mtx[R->ids.qmutex[s]] = -1;
        for (int f = 0; f < (s ? c.c : c.p); f++) { int v = 0; sem_getvalue((sem_t *)R->ids.fsem[s][f], &v); R->sem[R->ids.fsem[s][f]] = v; R->mtx[R->ids.fmutex[s][f]] = -1; }
    }
    for (int i = 0; i < SHIM_MAX_FIFO; i++) R->fifo_last_seq[i] = -1;
    R->nw = c.p + c.c;
    for (int i = 0; i <= R->nw; i++) {
        auto p = std::make_unique<Part>(); p->id = i;
        p->role = i < c.p ? 'P' : i < R->nw ? 'C' : 'X'; p->fifo = i < c.p ? i : i < R->nw ? i - c.p : 0;
        sem_init(&p->go, 0, 0); R->parts.push_back(std::move(p));
    }
    for (int i = 0; i < R->nw; i++) pool_start(i, R->parts[i].get());
    Part &x = R->ctl(); x.st = ST_RUN;
    svt_verif_sync_cb = sync_cb; tl_me = &x; R->active = true;
    if (setjmp(x.jb) == 0) { check_state(x); ctl_body(x); check_state(x); }
    R->stop = true; R->active = false; tl_me = nullptr;
    for (int i = 0; i < R->nw; i++) wake(i);
    for (int i = 0; i < R->nw; i++) pool_wait(i);
    svt_verif_sync_cb = nullptr;
    if (R->fkey.empty()) shim_delete(R->res);     // after a failure the queues may be corrupt / locked: leak them
    for (auto &p : R->parts) sem_destroy(&p->go);
    out.key = R->fkey; out.what = R->fwhat; out.herr = R->herr; out.st = R->st;
    G = nullptr; delete R;
    return out;
}

// ---------------------------------------------------------------------------------------------------------------- generator
// Every random choice is a rapidcheck draw.  To keep generation cheap and shrinking local, each thread program is decoded from its own
// fixed-size tape of ints in [0,1000) (round r reads the window tape[1+7r .. 7+7r]), so shrinking one thread never shifts another one.
Case gen_case() {
    using namespace rc;
    auto tape = [](size_t n) { return *gen::container<std::vector<int>>(n, gen::resize(100, gen::inRange(0, 1000))); };
    std::vector<int> h = tape(8);
    Case c; c.n = 1 + h[0] % 6; c.p = 1 + h[1] % 3; c.c = 1 + h[2] % 3;
    c.ctl = h[3] % 10 < 7 ? -1 : h[4] % 200;
    for (int t = 0; t < c.p; t++) {
        std::vector<int> T = tape(1 + 7 * 5); std::vector<Op> pr; int rounds = 1 + T[0] % 5;
        for (int r = 0; r < rounds; r++) {
            const int *w = &T[1 + 7 * r]; int k = w[0] % 100;
            if (k < 45) { pr.push_back({'E', 0, 0}); pr.push_back({'P', w[1] % 3, 0}); }
            else if (k < 62) { pr.push_back({'E', 0, 0}); pr.push_back({'I', w[1] % 3, w[2] % 3}); pr.push_back({'P', w[3] % 3, w[4] % 3}); if (w[5] % 2) pr.push_back({'R', w[6] % 3, w[5] % 3}); }
            else if (k < 70) { pr.push_back({'E', 0, 0}); if (w[1] % 2) pr.push_back({'I', w[2] % 3, w[3] % 3}); pr.push_back({'R', w[4] % 3, 0}); }
            else if (k < 78) { pr.push_back({'E', 0, 0}); pr.push_back({'E', 0, 0}); pr.push_back({'P', w[1] % 3, 0}); pr.push_back({'P', w[2] % 3, 0}); }
            else if (k < 86) { pr.push_back({'E', 0, 0}); pr.push_back({'D', w[1] % 3, 0}); pr.push_back({'I', w[2] % 3, w[3] % 3}); pr.push_back({'R', w[4] % 3, w[5] % 3}); if (w[6] % 2) pr.push_back({'I', w[6] % 3, w[1] % 3}); pr.push_back({'T', 0, 0}); }
            else { const char ks[] = {'E', 'I', 'P', 'R', 'D', 'T'}; pr.push_back({ks[w[1] % 6], w[2] % 3, w[3] % 4}); }
        }
        c.prog.push_back(pr);
    }
    for (int t = 0; t < c.c; t++) {
        std::vector<int> T = tape(1 + 7 * 6); std::vector<Op> pr; int rounds = 1 + T[0] % 6;
        for (int r = 0; r < rounds; r++) {
            const int *w = &T[1 + 7 * r]; int k = w[0] % 100; char g = (c.c == 1 && w[1] % 100 < 40) ? 'N' : 'F';
            if (k < 55) { pr.push_back({g, 0, 0}); pr.push_back({'R', w[2] % 3, 0}); }
            else if (k < 67) { pr.push_back({g, 0, 0}); pr.push_back({'I', w[2] % 3, w[3] % 3}); pr.push_back({'R', w[4] % 3, w[5] % 4}); }
            else if (k < 82) pr.push_back({g, 0, 0});
            else if (k < 92) pr.push_back({'R', w[2] % 3, w[3] % 4});
            else { const char ks[] = {'F', 'I', 'R'}; pr.push_back({ks[w[2] % 3], w[3] % 3, w[4] % 4}); }
        }
        c.prog.push_back(pr);
    }
    const int stays[] = {20, 50, 80}; int stay = stays[h[5] % 3]; int L = h[6] % 301;
    c.sched = *gen::container<std::vector<int>>((size_t)L, gen::resize(100, gen::inRange(0, 100)));
    for (int &v : c.sched) v = v < stay ? 0 : 1 + v % 6;
    return c;
}

uint64_t fnv(const std::string &s) { uint64_t h = 1469598103934665603ULL; for (unsigned char ch : s) { h ^= ch; h *= 1099511628211ULL; } return h; }
std::string jesc(const std::string &s) { std::string o; for (char ch : s) { if (ch == '"' || ch == '\\') { o += '\\'; o += ch; } else if ((unsigned char)ch < 32) o += ' '; else o += ch; } return o; }

void write_fail(const char *path, const std::string &key, const std::string &what, const Case &c) {
    FILE *f = fopen(path, "w"); if (!f) return;
    fprintf(f, "{\"key\": \"%s\", \"what\": \"%s\", \"txt\": \"%s\"}\n", jesc(key).c_str(), jesc(what).c_str(), jesc(dump_txt(c)).c_str());
    fclose(f);
}
void on_alarm(int) { static const char m[] = "\n{\"key\": \"harness-hang\", \"what\": \"case did not finish within the watchdog time (token lost or a primitive the shadow does not know blocked)\"}\n"; ssize_t r = write(1, m, sizeof(m) - 1); (void)r; _exit(3); }

// The threads are fully serialised, so keeping them on one CPU avoids cross-CPU wake-up latency (3-4x throughput).  Every 250 cases the
// affinity is opened for one case so that the kernel can move the process away from a CPU that became busy.  Results never depend on it.
cpu_set_t g_all_cpus; bool g_pin = false;
void pin_threads(const cpu_set_t *cs) {
    pthread_setaffinity_np(pthread_self(), sizeof *cs, cs);
    for (int i = 0; i < g_pool_n; i++) pthread_setaffinity_np(g_pool[i].th, sizeof *cs, cs);
}
void pin_here() { if (!g_pin) return; int cpu = sched_getcpu(); if (cpu < 0) return; cpu_set_t cs; CPU_ZERO(&cs); CPU_SET(cpu, &cs); pin_threads(&cs); }
void pin_open() { if (g_pin) pin_threads(&g_all_cpus); }
void pin_init() { g_pin = !getenv("SRM_NO_PIN") && sched_getaffinity(0, sizeof g_all_cpus, &g_all_cpus) == 0; pin_here(); }
}  // namespace

int main(int argc, char **argv) {
    const char *mode = argc > 1 ? argv[1] : "gen";
    const char *file = argc > 2 ? argv[2] : "/dev/null";
    setvbuf(stdout, nullptr, _IOLBF, 0);
    signal(SIGALRM, on_alarm);
    pin_init();
    g_no_whitebox = getenv("SRM_NO_WHITEBOX") != nullptr;
    if (!strcmp(mode, "trace")) return trace_main(file);
    if (!strcmp(mode, "replay")) {
        FILE *f = fopen(file, "r"); std::string txt; char buf[4096]; size_t r;
        if (f) { while ((r = fread(buf, 1, sizeof buf, f)) > 0) txt.append(buf, r); fclose(f); }
        Case c;
        // accept either the bare txt line or the whole fail-file JSON line
        size_t k = txt.find("\"txt\": \""); if (k != std::string::npos) { txt = txt.substr(k + 8); size_t e = txt.find('"'); if (e != std::string::npos) txt = txt.substr(0, e); }
        if (!f || !parse_txt(txt, c)) { printf("{\"key\": \"bad-replay-file\", \"what\": \"cannot parse replay text\"}\n"); return 2; }
        alarm(60);
        g_verbose = !getenv("SRM_QUIET");
        Outcome o = run_case(c);
        printf("steps=%d contended=%d blocked_empty=%d blocked_full=%d rescued=%d starved=%d early_shutdown=%d\n", o.st.steps, o.st.contended, o.st.blockE, o.st.blockF, o.st.rescued, o.st.starved, o.st.early);
        printf("{\"key\": \"%s\", \"what\": \"%s\"}\n", jesc(o.key).c_str(), jesc(o.what).c_str());
        return o.herr ? 3 : o.key.empty() ? 0 : 1;
    }
    if (strcmp(mode, "gen")) { fprintf(stderr, "usage: srm gen <failfile> | replay <file> | trace <file>\n"); return 2; }

    long cases = 0, nontrivial = 0; bool have_fail = false, herr = false;
    const bool real_file = strncmp(file, "/dev/", 5) != 0;   // never pre-write / remove device nodes
    std::set<uint64_t> keys; std::map<std::string, long> cls; std::vector<std::string> samples;
    long tot_steps = 0, tot_ops = 0, tot_skipped = 0, tot_switch = 0; double t_gen = 0, t_run = 0;   // timing is reported only, never used for a decision
    bool ok = rc::check("SRM: safe hand-out, posting order, wake-ups, shutdown (owned schedule)", [&] {
        timespec t0, t1, t2; clock_gettime(CLOCK_MONOTONIC, &t0);
        Case c = gen_case();
        clock_gettime(CLOCK_MONOTONIC, &t1);
        if (!have_fail && real_file) write_fail(file, "crash", "the process died (sanitizer report / signal) while executing this case; see stderr", c);
        alarm(120);
        if (cases % 250 == 249) pin_open(); else if (cases % 250 == 0) pin_here();
        Outcome o = run_case(c);
        alarm(0);
        clock_gettime(CLOCK_MONOTONIC, &t2);
        t_gen += (t1.tv_sec - t0.tv_sec) + 1e-9 * (t1.tv_nsec - t0.tv_nsec); t_run += (t2.tv_sec - t1.tv_sec) + 1e-9 * (t2.tv_nsec - t1.tv_nsec);
        cases++; tot_steps += o.st.steps; tot_ops += o.st.ops; tot_skipped += o.st.skipped; tot_switch += o.st.switches;
        if (!o.key.empty()) {
            have_fail = true; if (o.herr) herr = true;
            write_fail(file, o.key, o.what, c);    // rapidcheck shrinks: the last write is the minimal case
            RC_FAIL(o.key + ": " + o.what);
        }
        const Stats &s = o.st; bool nt = s.contended >= 1 && (s.blockE + s.blockF) >= 1;
        cls[s.starved ? "end_starved_producer" : "end_finished"]++;
        if (s.rescued) cls["rescue_shutdown"]++;
        if (s.early) cls["early_shutdown"]++;
        if (s.shutdown_ret) cls["consumer_saw_shutdown"]++;
        if (s.blockF) cls["blocked_get_full"]++;
        if (s.blockE) cls["blocked_get_empty"]++;
        if (s.contended) cls["contended"]++;
        if (s.contended >= 50) cls["contended_50plus"]++;
        if (s.nb_null || s.nb_obj) cls["non_blocking_get"]++;
        if (s.nb_obj) cls["non_blocking_got_object"]++;
        if (s.maxlive >= 2) cls["live_count_2plus"]++;
        if (s.conc_release) cls["concurrent_release_same_object"]++;
        if (s.disables) cls["release_disable_used"]++;
        if (s.drained) cls["drained_at_end"]++;
        if (s.sched_exhausted) cls["schedule_exhausted"]++;
        cls["objects_" + std::to_string(c.n)]++; cls["producers_" + std::to_string(c.p)]++; cls["consumers_" + std::to_string(c.c)]++;
        if (nt) {
            nontrivial++; std::string t = dump_txt(c);
            if (keys.size() < 30000) keys.insert(fnv(t));
            if (samples.size() < 4 && t.size() < 420)
                samples.push_back("{\"txt\": \"" + jesc(t) + "\", \"steps\": " + std::to_string(s.steps) + ", \"contended\": " + std::to_string(s.contended) + ", \"blocked_full\": " + std::to_string(s.blockF) + ", \"blocked_empty\": " + std::to_string(s.blockE) + "}");
        }
    });
    if (ok && !have_fail && real_file) remove(file);            // drop the pre-written "crash" record of the last (successful) case
    printf("{\"cases\": %ld, \"nontrivial\": %ld, \"keys\": [", cases, nontrivial);
    { size_t i = 0; for (uint64_t k : keys) { printf("%s\"%llx\"", i ? ", " : "", (unsigned long long)k); i++; } }
    printf("], \"classes\": {");
    { size_t i = 0; for (auto &kv : cls) { printf("%s\"%s\": %ld", i ? ", " : "", kv.first.c_str(), kv.second); i++; } }
    printf("}, \"samples\": [");
    for (size_t i = 0; i < samples.size(); i++) printf("%s%s", i ? ", " : "", samples[i].c_str());
    printf("], \"sync_points\": %ld, \"api_calls\": %ld, \"skipped_ops\": %ld, \"context_switches\": %ld, \"gen_seconds\": %.2f, \"run_seconds\": %.2f, \"ok\": %d, \"harness_inconsistency\": %d}\n",
           tot_steps, tot_ops, tot_skipped, tot_switch, t_gen, t_run, ok ? 1 : 0, herr ? 1 : 0);
    return ok ? 0 : herr ? 3 : 1;   // 3: the harness contradicted itself (never a verdict about the library)
}
