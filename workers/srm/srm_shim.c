/* C23 harness shim: constructs a real EbSystemResource and exposes the real API through indices (see srm_shim.h). */
#include <stdlib.h>
#include <string.h>
#include <semaphore.h>
#include "EbSystemResourceManager.h"
#include "EbThreads.h"
#include "srm_shim.h"

typedef struct {
    EbDctor dctor;
    int     payload;
} ShimObj;

static EbErrorType shim_obj_creator(EbPtr *object_dbl_ptr, EbPtr init) {
    (void)init;
    ShimObj *o = (ShimObj *)calloc(1, sizeof(*o));
    if (!o)
        return EB_ErrorInsufficientResources;
    *object_dbl_ptr = o;
    return EB_ErrorNone;
}
static void shim_obj_destroyer(EbPtr p) { free(p); }

/* The top-level object is allocated/freed by hand (what EB_NEW / EB_DELETE do minus the optional allocation bookkeeping), so the shim
 * does not depend on whether the library objects were compiled with or without NDEBUG (DEBUG_MEMORY_USAGE). */
void *shim_new(int n, int p, int c) {
    if (n < 1 || n > SHIM_MAX_OBJ || p < 1 || p > SHIM_MAX_FIFO || c < 1 || c > SHIM_MAX_FIFO)
        return NULL;
    EbSystemResource *res = (EbSystemResource *)calloc(1, sizeof(*res));
    if (!res)
        return NULL;
    if (svt_system_resource_ctor(res, (uint32_t)n, (uint32_t)p, (uint32_t)c, shim_obj_creator, NULL, shim_obj_destroyer) != EB_ErrorNone) {
        if (res->dctor)
            res->dctor(res);
        free(res);
        return NULL;
    }
    return res;
}
void shim_delete(void *r) {
    EbSystemResource *res = (EbSystemResource *)r;
    if (!res)
        return;
    if (res->dctor)
        res->dctor(res);
    free(res);
}

static EbMuxingQueue *side_q(EbSystemResource *res, int side) { return side ? res->full_queue : res->empty_queue; }

void shim_ids(void *r, ShimIds *ids) {
    EbSystemResource *res = (EbSystemResource *)r;
    memset(ids, 0, sizeof(*ids));
    ids->n = (int)res->object_total_count;
    ids->p = (int)res->empty_queue->process_total_count;
    ids->c = (int)res->full_queue->process_total_count;
    for (int s = 0; s < 2; s++) {
        EbMuxingQueue *q = side_q(res, s);
        ids->qmutex[s]   = q->lockout_mutex;
        for (uint32_t i = 0; i < q->process_total_count && i < SHIM_MAX_FIFO; i++) {
            ids->fsem[s][i]   = q->process_fifo_ptr_array[i]->counting_semaphore;
            ids->fmutex[s][i] = q->process_fifo_ptr_array[i]->lockout_mutex;
        }
    }
}

static int obj_index(EbSystemResource *res, const EbObjectWrapper *w) {
    if (!w)
        return -1;
    for (uint32_t i = 0; i < res->object_total_count; i++)
        if (res->wrapper_ptr_pool[i] == w)
            return (int)i;
    return -2;
}
static int fifo_index(EbMuxingQueue *q, const EbFifo *f) {
    if (!f)
        return -1;
    for (uint32_t i = 0; i < q->process_total_count; i++)
        if (q->process_fifo_ptr_array[i] == f)
            return (int)i;
    return -2;
}

void shim_snap(void *r, ShimSnap *s) {
    EbSystemResource *res = (EbSystemResource *)r;
    memset(s, 0, sizeof(*s));
    for (int side = 0; side < 2; side++) {
        EbMuxingQueue *   q  = side_q(res, side);
        EbCircularBuffer *ob = q->object_queue, *pb = q->process_queue;
        for (uint32_t k = 0; k < ob->buffer_total_count; k++) {
            EbPtr e = ob->array_ptr[(ob->head_index + k) % ob->buffer_total_count];
            if (!e)
                continue;
            int ix = obj_index(res, (EbObjectWrapper *)e);
            if (ix < 0 || s->oq_len[side] >= SHIM_MAX_OBJ) { s->bad = 1; continue; }
            s->oq[side][s->oq_len[side]++] = ix;
        }
        for (uint32_t k = 0; k < pb->buffer_total_count; k++) {
            EbPtr e = pb->array_ptr[(pb->head_index + k) % pb->buffer_total_count];
            if (!e)
                continue;
            int ix = fifo_index(q, (EbFifo *)e);
            if (ix < 0 || s->pq_len[side] >= SHIM_MAX_FIFO) { s->bad = 2; continue; }
            s->pq[side][s->pq_len[side]++] = ix;
        }
        for (uint32_t f = 0; f < q->process_total_count && f < SHIM_MAX_FIFO; f++) {
            EbFifo *ff = q->process_fifo_ptr_array[f];
            s->fquit[side][f] = ff->quit_signal ? 1 : 0;
            int v = 0;
            sem_getvalue((sem_t *)ff->counting_semaphore, &v);
            s->fsemv[side][f] = v;
            int guard = 0;
            for (EbObjectWrapper *w = ff->first_ptr; w; w = w->next_ptr) {
                int ix = obj_index(res, w);
                if (ix < 0 || ++guard > SHIM_MAX_OBJ) { s->bad = 3; break; }
                s->fl[side][f][s->fl_len[side][f]++] = ix;
            }
        }
    }
    for (uint32_t i = 0; i < res->object_total_count && i < SHIM_MAX_OBJ; i++) {
        s->live[i]   = res->wrapper_ptr_pool[i]->live_count;
        s->enable[i] = res->wrapper_ptr_pool[i]->release_enable ? 1 : 0;
    }
}

int shim_get_empty(void *r, int fifo, int *obj) {
    EbSystemResource *res = (EbSystemResource *)r;
    EbObjectWrapper * w   = NULL;
    EbErrorType       e   = svt_get_empty_object(svt_system_resource_get_producer_fifo(res, (uint32_t)fifo), &w);
    *obj                  = obj_index(res, w);
    return (int)e;
}
int shim_get_full(void *r, int fifo, int *obj) {
    EbSystemResource *res = (EbSystemResource *)r;
    EbObjectWrapper * w   = NULL;
    EbErrorType       e   = svt_get_full_object(svt_system_resource_get_consumer_fifo(res, (uint32_t)fifo), &w);
    *obj                  = obj_index(res, w);
    return (int)e;
}
int shim_get_full_nb(void *r, int fifo, int *obj) {
    EbSystemResource *res = (EbSystemResource *)r;
    EbObjectWrapper * w   = NULL;
    EbErrorType       e   = svt_get_full_object_non_blocking(svt_system_resource_get_consumer_fifo(res, (uint32_t)fifo), &w);
    *obj                  = obj_index(res, w);
    return (int)e;
}
int shim_post_full(void *r, int obj) { return (int)svt_post_full_object(((EbSystemResource *)r)->wrapper_ptr_pool[obj]); }
int shim_release(void *r, int obj) { return (int)svt_release_object(((EbSystemResource *)r)->wrapper_ptr_pool[obj]); }
int shim_inc_live(void *r, int obj, unsigned n) {
    return (int)svt_object_inc_live_count(((EbSystemResource *)r)->wrapper_ptr_pool[obj], n);
}
int shim_release_enable(void *r, int obj) { return (int)svt_object_release_enable(((EbSystemResource *)r)->wrapper_ptr_pool[obj]); }
int shim_release_disable(void *r, int obj) { return (int)svt_object_release_disable(((EbSystemResource *)r)->wrapper_ptr_pool[obj]); }
int shim_shutdown(void *r) { return (int)svt_shutdown_process((EbSystemResource *)r); }
unsigned shim_live(void *r, int obj) { return ((EbSystemResource *)r)->wrapper_ptr_pool[obj]->live_count; }
int shim_err_none(void) { return (int)EB_ErrorNone; }
int shim_err_shutdown(void) { return (int)EB_NoErrorFifoShutdown; }
