/* C23 harness: plain-C view of one EbSystemResource for the C++ scheduler/model (srm_main.cc).
 * All knowledge of the library's structs lives in srm_shim.c; objects and fifos are exchanged as small indices. */
#ifndef SRM_SHIM_H
#define SRM_SHIM_H
#ifdef __cplusplus
extern "C" {
#endif

#define SHIM_MAX_OBJ 8
#define SHIM_MAX_FIFO 4

typedef struct {
    int   n, p, c;
    void *qmutex[2];                     /* [0] empty queue lock, [1] full queue lock */
    void *fsem[2][SHIM_MAX_FIFO];        /* [side][fifo] counting semaphore handle     */
    void *fmutex[2][SHIM_MAX_FIFO];      /* [side][fifo] lockout mutex handle          */
} ShimIds;

typedef struct {
    int      oq_len[2], oq[2][SHIM_MAX_OBJ + 2];                 /* object queue, head first (object indices)        */
    int      pq_len[2], pq[2][SHIM_MAX_FIFO + 2];                /* process queue, head first (fifo indices)         */
    int      fl_len[2][SHIM_MAX_FIFO], fl[2][SHIM_MAX_FIFO][SHIM_MAX_OBJ + 2]; /* per fifo linked list, head first */
    int      fquit[2][SHIM_MAX_FIFO], fsemv[2][SHIM_MAX_FIFO];
    unsigned live[SHIM_MAX_OBJ];
    int      enable[SHIM_MAX_OBJ];
    int      bad;                                                /* !=0: foreign pointer / cycle / overlong list    */
} ShimSnap;

void *shim_new(int n, int p, int c);
void  shim_delete(void *res);
void  shim_ids(void *res, ShimIds *ids);
void  shim_snap(void *res, ShimSnap *s);

/* real API calls; objects are returned as indices into wrapper_ptr_pool: -1 = NULL, -2 = pointer not in the pool */
int      shim_get_empty(void *res, int fifo, int *obj);              /* returns the EbErrorType as int */
int      shim_get_full(void *res, int fifo, int *obj);
int      shim_get_full_nb(void *res, int fifo, int *obj);
int      shim_post_full(void *res, int obj);
int      shim_release(void *res, int obj);
int      shim_inc_live(void *res, int obj, unsigned n);
int      shim_release_enable(void *res, int obj);
int      shim_release_disable(void *res, int obj);
int      shim_shutdown(void *res);
unsigned shim_live(void *res, int obj);                              /* the unlocked read ResourceCoordination does */
int      shim_err_none(void);
int      shim_err_shutdown(void);

#ifdef __cplusplus
}
#endif
#endif
