// C23(b): validate an H2 event trace (SVT_VERIF_SRM_TRACE=<file>, one "op res obj fifo live flag tid" line per event, written by
// svt_verif_srm_trace_flush in EbSystemResourceManager.c) against the SRM reference model:
//   * single holder / conservation: every object is at any time in exactly one of {pool, assigned to one producer fifo, out, posted, assigned to
//     one consumer fifo}; every event must be legal in the object's current state (a got_* of an object that is out = duplication, ...)
//   * FIFO assignment: on a full queue the assigned object is always the oldest posted one; every fifo hands out in assignment order
//   * live counts: release decrements (saturating at 0), inc never decreases; the object returns to the pool (op 12) exactly when a release
//     leaves live 0 with release enabled, and never otherwise
//   * shutdown: a consumer fifo delivers no object after its shutdown event; a shutdown return needs a shutdown
// ops: 1 post_full 2 assign 3 got_empty 4 got_full 5 release 6 inc_live 7 shutdown 8 got_shutdown 9 request 10 enable 11 disable 12 pooled
#include <cstdint>
#include <cstdio>
#include <cstring>
#include <deque>
#include <map>
#include <set>
#include <string>
#include <vector>

namespace {
struct Ev { int op; uint64_t res, obj, fifo; uint32_t live; int flag; uint32_t tid; long line; };
enum { POOL, ASG_E, OUT, POSTED, ASG_F };
struct TObj { int st = POOL; uint64_t fifo = 0; uint32_t live = 0; bool enabled = true; bool pending_pool = false; uint64_t eq = 0; };
struct TFifo { std::deque<uint64_t> list; long requests = 0, assigned = 0; bool quit = false; };
uint64_t ptr(const char *s) { return (!strcmp(s, "(nil)") || !strcmp(s, "0")) ? 0 : strtoull(s, nullptr, 16); }
const char *stn(int s) { static const char *n[] = {"in the pool", "assigned to a producer fifo", "out (held)", "posted", "assigned to a consumer fifo"}; return n[s]; }
}  // namespace

int trace_main(const char *path) {
    FILE *f = fopen(path, "r");
    if (!f) { printf("{\"events\": 0, \"resources\": 0, \"what\": \"cannot open trace\", \"key\": \"bad-trace-file\"}\n"); return 2; }
    std::vector<Ev> ev; char line[512]; long ln = 0; bool overflow = false, malformed = false;
    while (fgets(line, sizeof line, f)) {
        ln++;
        if (!strncmp(line, "OVERFLOW", 8)) { overflow = true; continue; }
        char a[64], b[64], c[64]; Ev e{}; e.line = ln;
        if (sscanf(line, "%d %63s %63s %63s %u %d %u", &e.op, a, b, c, &e.live, &e.flag, &e.tid) != 7) { malformed = true; continue; }
        e.res = ptr(a); e.obj = ptr(b); e.fifo = ptr(c); ev.push_back(e);
    }
    fclose(f);
    // queue typing: a queue pointer is an empty queue if it carries empty-side events, a full queue if it carries full-side events
    std::set<uint64_t> eq, fq;
    for (auto &e : ev) {
        if (e.op == 1 || e.op == 4 || e.op == 7 || e.op == 8) fq.insert(e.res);
        if (e.op == 3 || e.op == 5 || e.op == 6 || e.op == 10 || e.op == 11 || e.op == 12) eq.insert(e.res);
    }
    std::map<uint64_t, TObj> objs; std::map<uint64_t, TFifo> fifos; std::map<uint64_t, std::deque<uint64_t>> posted;   // per full queue, posting order
    std::string what, key; long bad_line = 0;
    auto viol = [&](const Ev &e, const char *k, const std::string &w) { if (what.empty()) { key = k; what = w; bad_line = e.line; } };
    char buf[256];
    std::map<int, long> opcount;
    for (auto &e : ev) {
        if (!what.empty()) break;
        opcount[e.op]++;
        if (eq.count(e.res) && fq.count(e.res)) { viol(e, "queue-type", "one queue pointer carries both empty-side and full-side events"); break; }
        TObj *o = nullptr;
        if (e.obj) {
            auto it = objs.find(e.obj);
            if (it == objs.end()) {
                // the constructor fills the pool without events: an object may first appear only where a pooled object can appear
                if (!(e.op == 2 && !fq.count(e.res))) { snprintf(buf, sizeof buf, "object %#llx first appears in op %d (not as a pooled object being assigned)", (unsigned long long)e.obj, e.op); viol(e, "unknown-object", buf); break; }
                it = objs.emplace(e.obj, TObj()).first;
            }
            o = &it->second;
            if (o->pending_pool && e.op != 12) { snprintf(buf, sizeof buf, "object %#llx: release left live 0 with release enabled but the object was not returned to the pool (next op %d)", (unsigned long long)e.obj, e.op); viol(e, "pool-missing", buf); break; }
        }
        TFifo *ff = e.fifo ? &fifos[e.fifo] : nullptr;
        switch (e.op) {
        case 9: if (ff) ff->requests++; break;
        case 2: {
            if (!o || !ff) { viol(e, "malformed", "assign without object/fifo"); break; }
            if (fq.count(e.res)) {
                auto &pq = posted[e.res];
                if (o->st != POSTED) { snprintf(buf, sizeof buf, "object %#llx assigned to a consumer fifo while %s", (unsigned long long)e.obj, stn(o->st)); viol(e, "assign-not-posted", buf); break; }
                if (pq.empty() || pq.front() != e.obj) { snprintf(buf, sizeof buf, "object %#llx assigned before the earlier posted %#llx", (unsigned long long)e.obj, (unsigned long long)(pq.empty() ? 0 : pq.front())); viol(e, "order-assign", buf); break; }
                pq.pop_front(); o->st = ASG_F;
            } else {
                if (o->st != POOL) { snprintf(buf, sizeof buf, "object %#llx assigned to a producer fifo while %s", (unsigned long long)e.obj, stn(o->st)); viol(e, "dup-holder", buf); break; }
                o->st = ASG_E; o->eq = e.res;
            }
            o->fifo = e.fifo; ff->list.push_back(e.obj); ff->assigned++;
            if (ff->assigned > ff->requests) { snprintf(buf, sizeof buf, "fifo %#llx got an object without a pending request", (unsigned long long)e.fifo); viol(e, "assign-without-request", buf); }
            break; }
        case 3: case 4: {
            if (!o || !ff) { viol(e, "malformed", "got without object/fifo"); break; }
            int want = e.op == 3 ? ASG_E : ASG_F;
            if (o->st != want || o->fifo != e.fifo) { snprintf(buf, sizeof buf, "%s delivered object %#llx which is %s", e.op == 3 ? "get_empty" : "get_full", (unsigned long long)e.obj, stn(o->st)); viol(e, "dup-holder", buf); break; }
            if (ff->list.empty() || ff->list.front() != e.obj) { snprintf(buf, sizeof buf, "fifo %#llx delivered object %#llx out of assignment order", (unsigned long long)e.fifo, (unsigned long long)e.obj); viol(e, "order-consumer", buf); break; }
            if (e.op == 4 && ff->quit) { snprintf(buf, sizeof buf, "consumer fifo %#llx delivered an object after its shutdown", (unsigned long long)e.fifo); viol(e, "shutdown-missed", buf); break; }
            ff->list.pop_front(); o->st = OUT;
            if (e.op == 3) { o->live = 0; o->enabled = true; }
            break; }
        case 1:
            if (!o) { viol(e, "malformed", "post without object"); break; }
            if (o->st != OUT) { snprintf(buf, sizeof buf, "object %#llx posted while %s", (unsigned long long)e.obj, stn(o->st)); viol(e, "post-not-held", buf); break; }
            o->st = POSTED; posted[e.res].push_back(e.obj);
            break;
        case 6:
            if (!o) break;
            if (o->st == POOL || o->st == ASG_E) { snprintf(buf, sizeof buf, "inc_live_count on object %#llx which is %s", (unsigned long long)e.obj, stn(o->st)); viol(e, "inc-on-pooled", buf); break; }
            if (e.live < o->live) { snprintf(buf, sizeof buf, "inc_live_count lowered live of %#llx from %u to %u", (unsigned long long)e.obj, o->live, e.live); viol(e, "live-mismatch", buf); break; }
            o->live = e.live;
            break;
        case 5: {
            if (!o) break;
            if (o->st == POOL || o->st == ASG_E) { snprintf(buf, sizeof buf, "release of object %#llx which is already %s", (unsigned long long)e.obj, stn(o->st)); viol(e, "release-of-pooled", buf); break; }
            uint32_t want = o->live ? o->live - 1 : 0;
            if (e.live != want) { snprintf(buf, sizeof buf, "release of %#llx: live %u -> %u, model %u", (unsigned long long)e.obj, o->live, e.live, want); viol(e, "live-mismatch", buf); break; }
            if ((e.flag != 0) != o->enabled) { snprintf(buf, sizeof buf, "release of %#llx saw release_enable %d, model %d", (unsigned long long)e.obj, e.flag, (int)o->enabled); viol(e, "enable-mismatch", buf); break; }
            o->live = e.live;
            if (e.live == 0 && e.flag) o->pending_pool = true;
            break; }
        case 12:
            if (!o) break;
            if (!o->pending_pool) { snprintf(buf, sizeof buf, "object %#llx returned to the pool without a release that left live 0 with release enabled", (unsigned long long)e.obj); viol(e, "pool-without-live0", buf); break; }
            if (o->st != OUT) { snprintf(buf, sizeof buf, "object %#llx returned to the pool while %s", (unsigned long long)e.obj, stn(o->st)); viol(e, "pooled-while-queued", buf); break; }
            o->pending_pool = false; o->st = POOL;
            break;
        case 10: if (o) o->enabled = true; break;
        case 11: if (o) o->enabled = false; break;
        case 7: if (ff) ff->quit = true; break;
        case 8: if (ff && !ff->quit) { snprintf(buf, sizeof buf, "fifo %#llx returned shutdown without a shutdown event", (unsigned long long)e.fifo); viol(e, "shutdown-spurious", buf); } break;
        default: viol(e, "malformed", "unknown op"); break;
        }
    }
    if (what.empty() && !overflow)
        for (auto &kv : objs) if (kv.second.pending_pool) { key = "pool-missing"; snprintf(buf, sizeof buf, "object %#llx: last release left live 0 (enabled) but no return-to-pool event follows", (unsigned long long)kv.first); what = buf; break; }
    if (what.empty() && malformed) { key = "malformed"; what = "unparsable line(s) in the trace"; }
    long out = 0, pooled = 0, queued = 0;
    for (auto &kv : objs) { if (kv.second.st == OUT) out++; else if (kv.second.st == POOL || kv.second.st == ASG_E) pooled++; else queued++; }
    printf("ops:"); for (auto &kv : opcount) printf(" %d=%ld", kv.first, kv.second); printf("\n");
    std::string w; for (char ch : what) if (ch != '"' && ch != '\\') w += ch;
    printf("{\"events\": %zu, \"resources\": %zu, \"what\": \"%s\", \"key\": \"%s\", \"line\": %ld, \"objects\": %zu, \"full_queues\": %zu, \"end_out\": %ld, \"end_pooled\": %ld, \"end_posted\": %ld, \"overflow\": %d}\n",
           ev.size(), eq.size(), w.c_str(), key.c_str(), bad_line, objs.size(), fq.size(), out, pooled, queued, overflow ? 1 : 0);
    return what.empty() ? 0 : 1;
}
