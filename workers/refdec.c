/* refdec — independent reference decoders through dlopen (no headers on the image).
 * usage: refdec <aom|dav1d> <stream.tu> <out prefix> [start_tu]
 * Output: <out>.<dec>.yuv16 (Y,U,V tight, 16-bit LE samples per output picture) and <out>.<dec>.json
 * ABI facts (libaom 3.6.0 decoder ABI 22; dav1d 1.0.0) were validated by cross-agreement of the two decoders and the
 * SVT encoder's recon; `refdec selftest` in ./check re-validates them on every run. */
#define _GNU_SOURCE
#include <dlfcn.h>
#include <errno.h>
#include <stddef.h>
#include <stdint.h>
#include <stdio.h>
#include <stdlib.h>
#include <string.h>

typedef struct { uint8_t **tu; uint32_t *sz; int n; } TuList;
static int tulist_load(const char *path, TuList *l) {
    FILE *f = fopen(path, "rb");
    if (!f) return -1;
    l->n = 0; int cap = 64;
    l->tu = malloc(cap * sizeof(void *)); l->sz = malloc(cap * sizeof(uint32_t));
    uint8_t hdr[4];
    while (fread(hdr, 1, 4, f) == 4) {
        uint32_t s = hdr[0] | hdr[1] << 8 | hdr[2] << 16 | (uint32_t)hdr[3] << 24;
        if (l->n == cap) { cap *= 2; l->tu = realloc(l->tu, cap * sizeof(void *)); l->sz = realloc(l->sz, cap * sizeof(uint32_t)); }
        uint8_t *b = malloc(s ? s : 1);
        if (s && fread(b, 1, s, f) != s) { free(b); break; }
        l->tu[l->n] = b; l->sz[l->n] = s; l->n++;
    }
    fclose(f);
    return 0;
}
static void write_plane16(FILE *f, const uint8_t *p, long stride_bytes, int w, int h, int hbd) {
    uint16_t *row = malloc(sizeof(uint16_t) * (w > 0 ? w : 1));
    for (int y = 0; y < h; y++) {
        const uint8_t *s = p + (size_t)y * stride_bytes;
        if (hbd) for (int x = 0; x < w; x++) row[x] = s[2 * x] | (s[2 * x + 1] << 8);
        else for (int x = 0; x < w; x++) row[x] = s[x];
        fwrite(row, 2, w, f);
    }
    free(row);
}

/* ---------------- libaom ---------------- */
typedef struct { const char *name; void *iface; int err; const char *err_detail; long init_flags; void *config; void *priv; } AomCtx;
typedef struct { unsigned threads, w, h, allow_lowbitdepth; } AomDecCfg;
typedef struct {
    int fmt, cp, tc, mc, monochrome, csp, range;
    unsigned w, h, bit_depth, d_w, d_h, r_w, r_h, x_chroma_shift, y_chroma_shift;
    unsigned char *planes[3];
    int stride[3];
} AomImage;

static int run_aom(TuList *l, const char *out, int start) {
    char p[600];
    void *lib = dlopen("libaom.so.3", RTLD_NOW);
    snprintf(p, sizeof p, "%s.aom.json", out); FILE *jf = fopen(p, "w");
    if (!lib) { fprintf(jf, "{\"error\":\"dlopen\"}\n"); fclose(jf); return 2; }
    void *(*dx)(void) = dlsym(lib, "aom_codec_av1_dx");
    int (*init)(AomCtx *, void *, AomDecCfg *, long, int) = dlsym(lib, "aom_codec_dec_init_ver");
    int (*decode)(AomCtx *, const uint8_t *, size_t, void *) = dlsym(lib, "aom_codec_decode");
    AomImage *(*get_frame)(AomCtx *, void **) = dlsym(lib, "aom_codec_get_frame");
    int (*destroy)(AomCtx *) = dlsym(lib, "aom_codec_destroy");
    const char *(*errstr)(AomCtx *) = dlsym(lib, "aom_codec_error_detail");
    AomCtx ctx; memset(&ctx, 0, sizeof ctx);
    AomDecCfg cfg = {1, 0, 0, 1};
    int rc = init(&ctx, dx(), &cfg, 0, 22);
    fprintf(jf, "{\"rc_init\":%d,\"frames\":[", rc);
    snprintf(p, sizeof p, "%s.aom.yuv16", out); FILE *of = fopen(p, "wb");
    int nout = 0, nerr = 0; char firsterr[256] = "";
    if (rc == 0)
        for (int i = start; i < l->n; i++) {
            int r = decode(&ctx, l->tu[i], l->sz[i], NULL);
            if (r) { nerr++; if (!firsterr[0]) { const char *d = errstr ? errstr(&ctx) : NULL; snprintf(firsterr, sizeof firsterr, "tu %d rc %d %s", i, r, d ? d : ""); } }
            void *iter = NULL; AomImage *im;
            while ((im = get_frame(&ctx, &iter))) {
                int hbd = (im->fmt & 0x800) != 0;
                int cw = (im->d_w + im->x_chroma_shift) >> im->x_chroma_shift, ch = (im->d_h + im->y_chroma_shift) >> im->y_chroma_shift;
                write_plane16(of, im->planes[0], im->stride[0], im->d_w, im->d_h, hbd);
                if (!im->monochrome) {
                    write_plane16(of, im->planes[1], im->stride[1], cw, ch, hbd);
                    write_plane16(of, im->planes[2], im->stride[2], cw, ch, hbd);
                }
                fprintf(jf, "%s{\"tu\":%d,\"w\":%u,\"h\":%u,\"bd\":%u,\"mono\":%d}", nout ? "," : "", i, im->d_w, im->d_h, im->bit_depth, im->monochrome);
                nout++;
            }
        }
    for (char *c = firsterr; *c; c++) if (*c == '"' || *c == '\\' || *c < 32) *c = ' ';
    fprintf(jf, "],\"nerr\":%d,\"first_err\":\"%s\",\"done\":1}\n", nerr, firsterr);
    fclose(jf); fclose(of);
    if (rc == 0) destroy(&ctx);
    return 0;
}

/* ---------------- dav1d ---------------- */
typedef struct { const uint8_t *data; size_t sz; void *ref; uint8_t m[256]; } Dav1dDataX;
typedef struct { void *seq_hdr, *frame_hdr; void *data[3]; ptrdiff_t stride[2]; int w, h, layout, bpc; uint8_t rest[1024]; } Dav1dPictureX;
static void free_cb(const uint8_t *d, void *c) { (void)d; (void)c; }

static int run_dav1d(TuList *l, const char *out, int start) {
    char p[600];
    void *lib = dlopen("libdav1d.so.6", RTLD_NOW);
    snprintf(p, sizeof p, "%s.dav1d.json", out); FILE *jf = fopen(p, "w");
    if (!lib) { fprintf(jf, "{\"error\":\"dlopen\"}\n"); fclose(jf); return 2; }
    void (*defaults)(void *) = dlsym(lib, "dav1d_default_settings");
    int (*dopen)(void **, void *) = dlsym(lib, "dav1d_open");
    int (*wrap)(void *, const uint8_t *, size_t, void (*)(const uint8_t *, void *), void *) = dlsym(lib, "dav1d_data_wrap");
    int (*send)(void *, void *) = dlsym(lib, "dav1d_send_data");
    int (*getpic)(void *, void *) = dlsym(lib, "dav1d_get_picture");
    void (*unref)(void *) = dlsym(lib, "dav1d_picture_unref");
    void (*dclose)(void **) = dlsym(lib, "dav1d_close");
    void (*dunref)(void *) = dlsym(lib, "dav1d_data_unref");
    int *settings = calloc(1, 4096);
    defaults(settings);
    settings[0] = 1; settings[1] = 1; /* n_threads, max_frame_delay */
    void *c = NULL;
    int rc = dopen(&c, settings);
    fprintf(jf, "{\"rc_init\":%d,\"frames\":[", rc);
    snprintf(p, sizeof p, "%s.dav1d.yuv16", out); FILE *of = fopen(p, "wb");
    int nout = 0, nerr = 0;
    if (rc == 0) {
        for (int i = start; i <= l->n; i++) {
            Dav1dDataX d; memset(&d, 0, sizeof d);
            int have = 0;
            if (i < l->n) { if (wrap(&d, l->tu[i], l->sz[i], free_cb, NULL) == 0) have = 1; }
            int guard = 0;
            do {
                if (have && d.sz > 0) {
                    int r = send(c, &d);
                    if (r < 0 && r != -EAGAIN) { nerr++; dunref(&d); have = 0; }
                }
                for (;;) {
                    Dav1dPictureX pic; memset(&pic, 0, sizeof pic);
                    int r = getpic(c, &pic);
                    if (r < 0) { if (r != -EAGAIN) nerr++; break; }
                    int hbd = pic.bpc > 8;
                    int cw = (pic.w + 1) >> 1, ch = (pic.h + 1) >> 1;
                    write_plane16(of, pic.data[0], pic.stride[0], pic.w, pic.h, hbd);
                    if (pic.layout != 0) {
                        write_plane16(of, pic.data[1], pic.stride[1], cw, ch, hbd);
                        write_plane16(of, pic.data[2], pic.stride[1], cw, ch, hbd);
                    }
                    fprintf(jf, "%s{\"tu\":%d,\"w\":%d,\"h\":%d,\"bd\":%d,\"layout\":%d}", nout ? "," : "", i, pic.w, pic.h, pic.bpc, pic.layout);
                    nout++;
                    unref(&pic);
                }
            } while (have && d.sz > 0 && ++guard < 1000);
        }
        dclose(&c);
    }
    fprintf(jf, "],\"nerr\":%d,\"done\":1}\n", nerr);
    fclose(jf); fclose(of);
    return 0;
}

int main(int argc, char **argv) {
    if (argc < 4) { fprintf(stderr, "usage: refdec <aom|dav1d> <stream.tu> <out> [start_tu]\n"); return 5; }
    TuList l; if (tulist_load(argv[2], &l)) { fprintf(stderr, "cannot open %s\n", argv[2]); return 5; }
    int start = argc > 4 ? atoi(argv[4]) : 0;
    if (!strcmp(argv[1], "aom")) return run_aom(&l, argv[3], start);
    if (!strcmp(argv[1], "dav1d")) return run_dav1d(&l, argv[3], start);
    return 5;
}
