/* aomenc_gen — independent AV1 *encoder* (libaom 3.6.0 through dlopen, no headers on the image) used to produce test
 * streams for the decoder properties (C08/C09/C10) that use tools the SVT encoder does not emit.
 *
 * usage: aomenc_gen <out.tu> key=value ...
 *   w h bd frames cpu lag threads usage(0 good,1 rt) end_usage(0 vbr 1 cbr 2 cq 3 q) cq minq maxq bitrate kfmax kfmin
 *   tile_cols tile_rows(log2) tune_content(0 default 1 screen 2 film) grain(test vector 0..16) err_res superres_mode(0..4)
 *   superres_denom superres_kf_denom aq deltaq palette intrabc obmc(-1 keep default) cdef restoration sb(0 dynamic 1 64 2 128)
 *   ck kseed kamp kmotion kcut (content descriptor, same synthesiser as the SVT driver)   selftest=1
 * Output: .tu container (u32 LE size + TU bytes per temporal unit) and a JSON line on stdout.
 * ABI facts (encoder ABI 25; aom_codec_enc_cfg_t field offsets) are validated at run time: the default config must show
 * libaom's documented defaults at the offsets used (rc_target_bitrate 256, min/max q 0/63, kf_max_dist 9999 ...), otherwise
 * the tool refuses to use those fields ("cfg_layout_ok":0) and only the fields validated by the memory note are written.
 * Control ids are from libaom 3.6.0 aom/aomcx.h; they are *verified by effect* on the Python side (parsed headers must show
 * the requested tiles / screen content tools / film grain), never trusted. */
#define _GNU_SOURCE
#include <dlfcn.h>
#include <stdint.h>
#include <stdio.h>
#include <stdlib.h>
#include <string.h>
#include "content.h"

typedef struct { const char *name; void *iface; int err; const char *err_detail; long init_flags; void *config; void *priv; } AomCtx;
typedef struct {
    int fmt, cp, tc, mc, monochrome, csp, range;
    unsigned w, h, bit_depth, d_w, d_h, r_w, r_h, x_chroma_shift, y_chroma_shift;
    unsigned char *planes[3];
    int stride[3];
    uint8_t rest[256];
} AomImage;
typedef struct { int kind; int pad; void *buf; size_t sz; int64_t pts; unsigned long duration; uint32_t flags; } AomPkt;

static int geti(int argc, char **argv, const char *k, int def) {
    size_t n = strlen(k);
    for (int i = 2; i < argc; i++) if (!strncmp(argv[i], k, n) && argv[i][n] == '=') return atoi(argv[i] + n + 1);
    return def;
}

int main(int argc, char **argv) {
    if (argc < 2) { fprintf(stderr, "usage\n"); return 5; }
    void *lib = dlopen("libaom.so.3", RTLD_NOW);
    if (!lib) { printf("{\"error\":\"dlopen\"}\n"); return 2; }
    void *(*cx)(void) = dlsym(lib, "aom_codec_av1_cx");
    int (*cfgdef)(void *, void *, unsigned) = dlsym(lib, "aom_codec_enc_config_default");
    int (*init)(AomCtx *, void *, void *, long, int) = dlsym(lib, "aom_codec_enc_init_ver");
    int (*control)(AomCtx *, int, ...) = dlsym(lib, "aom_codec_control");
    int (*encode)(AomCtx *, void *, int64_t, unsigned long, long) = dlsym(lib, "aom_codec_encode");
    AomPkt *(*getcx)(AomCtx *, void **) = dlsym(lib, "aom_codec_get_cx_data");
    AomImage *(*imgalloc)(AomImage *, int, unsigned, unsigned, unsigned) = dlsym(lib, "aom_img_alloc");
    void (*imgfree)(AomImage *) = dlsym(lib, "aom_img_free");
    int (*destroy)(AomCtx *) = dlsym(lib, "aom_codec_destroy");
    const char *(*errdet)(AomCtx *) = dlsym(lib, "aom_codec_error_detail");
    if (!cx || !cfgdef || !init || !control || !encode || !getcx || !imgalloc) { printf("{\"error\":\"dlsym\"}\n"); return 2; }

    int w = geti(argc, argv, "w", 64), h = geti(argc, argv, "h", 64), bd = geti(argc, argv, "bd", 8), frames = geti(argc, argv, "frames", 3);
    int usage = geti(argc, argv, "usage", 0);
    uint32_t *cfg = calloc(1, 8192);
    int rc = cfgdef(cx(), cfg, (unsigned)usage);
    if (rc) { printf("{\"error\":\"config_default rc %d\"}\n", rc); return 2; }
    /* layout validation by libaom's documented defaults (good-quality usage) */
    int layout_ok = (cfg[3] == 320 && cfg[4] == 240 && cfg[8] == 8 && cfg[19] == 0 && cfg[20] == 8 && cfg[21] == 8 && cfg[34] == 256 && cfg[35] == 0 && cfg[36] == 63 &&
                     cfg[37] == 25 && cfg[38] == 25 && cfg[39] == 6000 && cfg[40] == 4000 && cfg[41] == 5000 && cfg[42] == 50 && cfg[44] == 2000 && cfg[46] == 1 &&
                     cfg[47] == 0 && cfg[48] == 9999);
    if (usage == 1) layout_ok = (cfg[3] == 320 && cfg[4] == 240 && cfg[8] == 8 && cfg[34] == 256 && cfg[36] == 63 && cfg[48] == 9999);
    if (geti(argc, argv, "selftest", 0)) {
        printf("{\"selftest\":1,\"cfg_layout_ok\":%d,\"cfg\":[", layout_ok);
        for (int i = 0; i < 60; i++) printf("%s%u", i ? "," : "", cfg[i]);
        printf("]}\n");
        return layout_ok ? 0 : 1;
    }
    cfg[1] = (uint32_t)geti(argc, argv, "threads", 1);
    cfg[2] = 0; /* main profile */
    cfg[3] = (uint32_t)w; cfg[4] = (uint32_t)h;
    cfg[8] = (uint32_t)bd; cfg[9] = (uint32_t)bd;
    cfg[10] = 1; cfg[11] = 30;
    cfg[14] = (uint32_t)geti(argc, argv, "lag", 19);
    if (geti(argc, argv, "err_res", 0)) cfg[12] = 1;
    if (layout_ok) {
        int sm = geti(argc, argv, "superres_mode", 0);
        cfg[19] = (uint32_t)sm; cfg[20] = (uint32_t)geti(argc, argv, "superres_denom", 8); cfg[21] = (uint32_t)geti(argc, argv, "superres_kf_denom", 8);
        if (sm == 3) { cfg[22] = (uint32_t)geti(argc, argv, "superres_qthresh", 63); cfg[23] = (uint32_t)geti(argc, argv, "superres_kf_qthresh", 63); }
        cfg[24] = (uint32_t)geti(argc, argv, "end_usage", 3);
        cfg[34] = (uint32_t)geti(argc, argv, "bitrate", 300);
        cfg[35] = (uint32_t)geti(argc, argv, "minq", 0); cfg[36] = (uint32_t)geti(argc, argv, "maxq", 63);
        cfg[47] = (uint32_t)geti(argc, argv, "kfmin", 0); cfg[48] = (uint32_t)geti(argc, argv, "kfmax", 9999);
    }
    AomCtx ctx; memset(&ctx, 0, sizeof ctx);
    long flags = bd > 8 ? 0x40000 /* AOM_CODEC_USE_HIGHBITDEPTH */ : 0;
    rc = init(&ctx, cx(), cfg, flags, 25);
    if (rc) { printf("{\"error\":\"enc_init rc %d %s\"}\n", rc, errdet && errdet(&ctx) ? errdet(&ctx) : ""); return 2; }
    struct { const char *k; int id; int def; } ctl[] = {
        {"cpu", 13, 6}, {"cq", 25, -1}, {"tile_cols", 33, -1}, {"tile_rows", 34, -1}, {"tune_content", 43, -1}, {"grain", 112, -1}, {"aq", 40, -1},
        {"deltaq", 107, -1}, {"palette", 104, -1}, {"intrabc", 105, -1}, {"obmc", 61, -1}, {"cdef", 58, -1}, {"restoration", 59, -1}, {"sb", 56, -1},
        {"autoaltref", 14, -1}, {"err_res_ctl", 38, -1}, {"gm", 95, -1}, {"warped", 96, -1}, {"filter_intra", 98, -1}, {"cfl", 101, -1}, {"interintra", 90, -1},
        {"masked", 88, -1}, {"overlay", 103, -1}, {"rowmt", 32, -1}, {"numtg", 70, -1}, {"lossless", 31, -1}, {"tx64", 80, -1}, {"deltalf", 108, -1}, {"refmvs", 84, -1}};
    printf("{\"cfg_layout_ok\":%d,\"controls\":{", layout_ok);
    int first = 1;
    for (size_t i = 0; i < sizeof ctl / sizeof ctl[0]; i++) {
        int v = geti(argc, argv, ctl[i].k, ctl[i].def);
        if (v < 0) continue;
        int r = control(&ctx, ctl[i].id, v);
        printf("%s\"%s\":[%d,%d]", first ? "" : ",", ctl[i].k, v, r); first = 0;
    }
    printf("}");
    ContentDesc cd; cd.kind = geti(argc, argv, "ck", 3); cd.seed = (uint32_t)geti(argc, argv, "kseed", 1); cd.amp = geti(argc, argv, "kamp", 50);
    cd.motion = geti(argc, argv, "kmotion", 1); cd.cut_at = geti(argc, argv, "kcut", 0);
    AomImage img; memset(&img, 0, sizeof img);
    int fmt = bd > 8 ? 0x902 : 0x102;   /* I42016 / I420 */
    if (!imgalloc(&img, fmt, (unsigned)w, (unsigned)h, 32)) { printf(",\"error\":\"img_alloc\"}\n"); return 2; }
    uint16_t *pl[3]; pl[0] = malloc(2 * (size_t)w * h); pl[1] = malloc(2 * (size_t)(w / 2 + 1) * (h / 2 + 1)); pl[2] = malloc(2 * (size_t)(w / 2 + 1) * (h / 2 + 1));
    FILE *of = fopen(argv[1], "wb");
    int ntu = 0, nerr = 0; size_t bytes = 0;
    for (int f = 0; f <= frames + 200; f++) {
        AomImage *in = NULL;
        if (f < frames) {
            content_frame(&cd, f, w & ~1, h & ~1, bd, pl);
            int ew = w & ~1, eh = h & ~1;
            for (int p = 0; p < 3; p++) {
                int pw = p ? (w + 1) / 2 : w, ph = p ? (h + 1) / 2 : h, sw = p ? ew / 2 : ew, sh = p ? eh / 2 : eh;
                for (int y = 0; y < ph; y++) {
                    int yy = y < sh ? y : sh - 1;
                    for (int x = 0; x < pw; x++) {
                        int xx = x < sw ? x : sw - 1;
                        uint16_t v = pl[p][(size_t)yy * sw + xx];
                        if (bd > 8) { img.planes[p][(size_t)y * img.stride[p] + 2 * x] = v & 255; img.planes[p][(size_t)y * img.stride[p] + 2 * x + 1] = v >> 8; }
                        else img.planes[p][(size_t)y * img.stride[p] + x] = (uint8_t)v;
                    }
                }
            }
            in = &img;
        }
        int r = encode(&ctx, in, f, 1, 0);
        if (r) { nerr++; break; }
        void *iter = NULL; AomPkt *pk; int got = 0;
        while ((pk = getcx(&ctx, &iter))) {
            if (pk->kind != 0) continue;
            uint32_t s = (uint32_t)pk->sz; uint8_t hd[4] = {s & 255, (s >> 8) & 255, (s >> 16) & 255, (s >> 24) & 255};
            fwrite(hd, 1, 4, of); fwrite(pk->buf, 1, pk->sz, of); ntu++; bytes += pk->sz; got = 1;
        }
        if (f >= frames && !got) break;
    }
    fclose(of);
    printf(",\"tus\":%d,\"bytes\":%zu,\"nerr\":%d,\"err\":\"%s\",\"done\":1}\n", ntu, bytes, nerr, nerr && errdet && errdet(&ctx) ? errdet(&ctx) : "");
    if (imgfree) imgfree(&img);
    destroy(&ctx);
    return 0;
}
