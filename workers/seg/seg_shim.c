/* C24 harness, library side: the encoder's real EncDec segment objects (EbEncDecSegments.c), the real
 * assign_enc_dec_segments (EbEncDecProcess.c) and a real system-resource-manager pool of EncDecTasks objects
 * (EbSystemResourceManager.c + EbEncDecTasks.c, wired as in EbEncHandle.c) behind a tiny C interface. */
#include <stdlib.h>
#include <string.h>
#include "EbDefinitions.h"
#include "EbEncDecSegments.h"
#include "EbEncDecTasks.h"
#include "EbSystemResourceManager.h"
#include "seg_shim.h"

/* not declared in any header of the library: defined (non-static) in EbEncDecProcess.c */
extern EbBool assign_enc_dec_segments(EncDecSegments *segmentPtr, uint16_t *segmentInOutIndex, EncDecTasks *taskPtr,
                                      EbFifo *srmFifoPtr);

/* EB_NEW / EB_DELETE spelled out (calloc + ctor, dctor + free) so that this file does not depend on whether the archive was built
 * with the library's allocation tracker (DEBUG_MEMORY_USAGE follows NDEBUG); the library frees what it allocated itself. */
void *segs_new(uint32_t cols, uint32_t rows) {
    EncDecSegments *p = (EncDecSegments *)calloc(1, sizeof(*p));
    if (!p) return NULL;
    if (enc_dec_segments_ctor(p, cols, rows) != EB_ErrorNone) { /* what EbPictureControlSet.c does through EB_NEW */
        if (p->dctor) p->dctor(p);
        free(p);
        return NULL;
    }
    return p;
}
void segs_delete(void *s) {
    EncDecSegments *p = (EncDecSegments *)s;
    if (!p) return;
    if (p->dctor) p->dctor(p);
    free(p);
}
void segs_init(void *s, uint32_t cols, uint32_t rows, uint32_t w, uint32_t h) {
    enc_dec_segments_init((EncDecSegments *)s, cols, rows, w, h);
}
void segs_view(void *s, SegView *v) {
    EncDecSegments *p   = (EncDecSegments *)s;
    v->band_count       = p->segment_band_count;
    v->row_count        = p->segment_row_count;
    v->ttl              = p->segment_ttl_count;
    v->sb_band_count    = p->sb_band_count;
    v->sb_row_count     = p->sb_row_count;
    v->max_band         = p->segment_max_band_count;
    v->max_row          = p->segment_max_row_count;
    v->max_total        = p->segment_max_total_count;
    v->x_start          = p->x_start_array;
    v->y_start          = p->y_start_array;
    v->valid_sb_count   = p->valid_sb_count_array;
    v->dep              = p->dep_map.dependency_map;
}
void segs_row(void *s, uint32_t row, uint32_t *start, uint32_t *end, uint32_t *cur) {
    EncDecSegments *p = (EncDecSegments *)s;
    *start            = p->row_array[row].starting_seg_index;
    *end              = p->row_array[row].ending_seg_index;
    *cur              = p->row_array[row].current_seg_index;
}

/* ---- EncDecTasks pool, as EbEncHandle.c builds enc_dec_tasks_resource_ptr ---- */
void *pool_new(uint32_t objs, uint32_t producers, uint32_t consumers) {
    EbSystemResource *  r = (EbSystemResource *)calloc(1, sizeof(*r));
    EncDecTasksInitData init;
    if (!r) return NULL;
    init.enc_dec_segment_row_count = 37;
    if (svt_system_resource_ctor(r, objs, producers, consumers, enc_dec_tasks_creator, &init, NULL) != EB_ErrorNone) {
        if (r->dctor) r->dctor(r);
        free(r);
        return NULL;
    }
    return r;
}
void pool_delete(void *pool) {
    EbSystemResource *r = (EbSystemResource *)pool;
    if (!r) return;
    if (r->dctor) r->dctor(r);
    free(r);
}
void *pool_producer(void *pool, uint32_t i) { return svt_system_resource_get_producer_fifo((EbSystemResource *)pool, i); }
void *pool_consumer(void *pool, uint32_t i) { return svt_system_resource_get_consumer_fifo((EbSystemResource *)pool, i); }
/* posted tasks nobody has taken yet (objects waiting in the full muxing queue) */
uint32_t pool_pending(void *pool) { return ((EbSystemResource *)pool)->full_queue->object_queue->current_count; }
/* wrappers available to svt_get_empty_object without blocking */
uint32_t pool_empties(void *pool) { return ((EbSystemResource *)pool)->empty_queue->object_queue->current_count; }

/* what the MDC process does for each tile group of a picture (EbModeDecisionConfigurationProcess.c) */
void pool_post_mdc(void *producer_fifo, uint16_t tile_group, void *pcs_tag) {
    EbObjectWrapper *w;
    svt_get_empty_object((EbFifo *)producer_fifo, &w);
    EncDecTasks *t      = (EncDecTasks *)w->object_ptr;
    t->pcs_wrapper_ptr  = (EbObjectWrapper *)pcs_tag;
    t->input_type       = ENCDEC_TASKS_MDC_INPUT;
    t->tile_group_index = tile_group;
    svt_post_full_object(w);
}
/* EB_GET_FULL_OBJECT of the kernel; the caller guarantees pool_pending() > 0 so that it cannot block */
void *task_take(void *consumer_fifo) {
    EbObjectWrapper *w = NULL;
    svt_get_full_object((EbFifo *)consumer_fifo, &w);
    return w;
}
void task_info(void *wrapper, uint32_t *input_type, int *row, uint32_t *tile_group, void **pcs_tag) {
    EncDecTasks *t = (EncDecTasks *)((EbObjectWrapper *)wrapper)->object_ptr;
    *input_type    = t->input_type;
    *row           = t->enc_dec_segment_row;
    *tile_group    = t->tile_group_index;
    *pcs_tag       = t->pcs_wrapper_ptr;
}
void task_release(void *wrapper) { svt_release_object((EbObjectWrapper *)wrapper); }
int  task_assign(void *segs, uint16_t *seg_in_out, void *wrapper, void *producer_fifo) {
    EncDecTasks *t = (EncDecTasks *)((EbObjectWrapper *)wrapper)->object_ptr;
    return assign_enc_dec_segments((EncDecSegments *)segs, seg_in_out, t, (EbFifo *)producer_fifo) == EB_TRUE;
}
const uint32_t SEG_TASK_MDC = ENCDEC_TASKS_MDC_INPUT, SEG_TASK_ENCDEC = ENCDEC_TASKS_ENCDEC_INPUT, SEG_TASK_CONTINUE = ENCDEC_TASKS_CONTINUE;
