// C24: wavefront EncDec segments - every superblock once, in dependency order, always completes.
//
//   seg exhaustive [quick|thorough] [failfile]   (a) geometry: every picture size x segment grid through the real ctor/init
//   seg gen <failfile> [nosweep]                 (b) protocol under rapidcheck-generated schedules (RC_PARAMS from env)
//   seg trace <file> [partial]                   (c) validate an H3 segment trace recorded from a real encode
//   seg replay <file>                            re-run one case ("P ..." protocol case or "G ..." geometry tuple)
//   exhaustive: extra argument shard=i/n          enumerate every n-th tuple only ("exhaustive" is then reported false; run all n shards)
//   any mode: extra argument  known=1wide        do not fail on / do not generate the known 1-SB-wide deadlock (see g_known_1wide)
//
// Library code under test (never re-implemented here): enc_dec_segments_ctor / enc_dec_segments_init (EbEncDecSegments.c),
// assign_enc_dec_segments (EbEncDecProcess.c), and a real system-resource-manager pool of EncDecTasks for the feedback tasks.
// Transcribed from the library (because it is inlined in the 500-line kernel): the per-segment SB walk of mode_decision_kernel
// (kernel_walk below; cross-checked against real traces in mode (c)).
// The oracle uses SB coordinates only: owner[x,y] is *observed* from the walk; predecessors of a segment are the owners of the
// left, upper and upper-right neighbours of its SBs.
#include <rapidcheck.h>
#include <sanitizer/common_interface_defs.h>
#include <fcntl.h>
#include <signal.h>
#include <unistd.h>
#include <algorithm>
#include <cinttypes>
#include <cstdint>
#include <cstdio>
#include <cstdlib>
#include <cstring>
#include <map>
#include <set>
#include <string>
#include <tuple>
#include <unordered_map>
#include <vector>
#include "seg_shim.h"

// ---------------------------------------------------------------------------------------------------------------- utilities
struct Fail {
    std::string key, what;
    bool        failed() const { return !key.empty(); }
};
static Fail mkfail(const std::string &k, const std::string &w) { Fail f; f.key = k; f.what = w; return f; }
static uint64_t fnv(const std::string &s) { uint64_t h = 1469598103934665603ULL; for (unsigned char ch : s) { h ^= ch; h *= 1099511628211ULL; } return h; }
static std::string jesc(const std::string &s) {
    std::string o; for (char ch : s) { if (ch == '"' || ch == '\\') { o += '\\'; o += ch; } else if ((unsigned char)ch < 32) o += ' '; else o += ch; } return o;
}
static std::string S(long long v) { return std::to_string(v); }

// current case, for the sanitizer / abort path (a trap inside the library bypasses rapidcheck)
static char        g_cur_txt[1 << 16];
static const char *g_failfile = nullptr;
static int         g_replay_mode = 0;
// "known=1wide" on the command line: the deadlock of 1-SB-wide tile groups with >= 2 segment rows (key lost-continuation|1-sb-wide,
// a genuine defect of the pinned tree, reproduced with a real 64x384 encode) is tallied / kept out of the generators instead of failing the run
static int         g_known_1wide = 0;
static const char *KEY_1WIDE = "lost-continuation|1-sb-wide";
static long        g_shard_i = 0, g_shard_n = 1;   // "shard=i/n": exhaustive mode enumerates only every n-th tuple (run n processes for the full set)
static void set_cur(const std::string &txt) { size_t n = std::min(txt.size(), sizeof g_cur_txt - 1); memcpy(g_cur_txt, txt.data(), n); g_cur_txt[n] = 0; }
static void death_write(const char *why) {
    char buf[sizeof g_cur_txt + 256];
    int  n = snprintf(buf, sizeof buf, "{\"key\": \"%s\", \"what\": \"the library trapped (sanitizer report / assert on stderr) while running this case\", \"txt\": \"%s\"}\n", why, g_cur_txt);
    if (n <= 0) return;
    if (g_failfile && g_cur_txt[0]) { int fd = open(g_failfile, O_WRONLY | O_CREAT | O_TRUNC, 0644); if (fd >= 0) { if (write(fd, buf, (size_t)n) < 0) {} close(fd); } }
    (void)g_replay_mode;
    if (g_cur_txt[0]) { if (write(1, "\n", 1) < 0 || write(1, buf, (size_t)n) < 0) {} }   // keeps "last stdout line is JSON" true for every mode
}
static void on_asan_death() { death_write("sanitizer-abort"); }
// millions of small short-lived objects: a 256 MB quarantine only produces page faults (a third of the run time); 32 MB still holds
// every object of the last few thousand cases
extern "C" const char *__asan_default_options() { return "quarantine_size_mb=32"; }
static void on_sigabrt(int) { death_write("abort"); signal(SIGABRT, SIG_DFL); raise(SIGABRT); }

// ------------------------------------------------------------------------------------------ the kernel's per-segment SB walk
// Transcription of the segment loop of mode_decision_kernel (EbEncDecProcess.c, "Segment-loop"): identifiers kept.
// tile_group_width_in_sb is the width that was passed to enc_dec_segments_init for this tile group (init_enc_dec_segement).
// Guard added: the real outer loop has no bound on y; if valid_sb_count cannot be reached it would spin for ever -> WALK_RUNAWAY.
enum { WALK_OK = 0, WALK_RUNAWAY = 1, WALK_ABORT = 2 };
template <class F>
static int kernel_walk(const SegView &segments, uint32_t tile_group_width_in_sb, uint32_t tile_group_height_in_sb, uint32_t segment_index, F &&visit) {
    uint32_t x_sb_start_index = segments.x_start[segment_index];
    uint32_t y_sb_start_index = segments.y_start[segment_index];
    uint32_t sb_start_index   = y_sb_start_index * tile_group_width_in_sb + x_sb_start_index;
    uint32_t sb_segment_count = segments.valid_sb_count[segment_index];
    uint32_t segment_row_index  = segment_index / segments.band_count;
    uint32_t segment_band_index = segment_index - segment_row_index * segments.band_count;
    uint32_t segment_band_size  = (segments.sb_band_count * (segment_band_index + 1) + segments.band_count - 1) / segments.band_count;
    uint32_t x_sb_index, y_sb_index, sb_segment_index;
    for (y_sb_index = y_sb_start_index, sb_segment_index = sb_start_index; sb_segment_index < sb_start_index + sb_segment_count; ++y_sb_index) {
        if (y_sb_index > tile_group_height_in_sb + segments.sb_band_count + 2) return WALK_RUNAWAY;
        for (x_sb_index = x_sb_start_index;
             x_sb_index < tile_group_width_in_sb && (x_sb_index + y_sb_index < segment_band_size) && sb_segment_index < sb_start_index + sb_segment_count;
             ++x_sb_index, ++sb_segment_index) {
            if (!visit(x_sb_index, y_sb_index)) return WALK_ABORT;
        }
        x_sb_start_index = (x_sb_start_index > 0) ? x_sb_start_index - 1 : 0;
    }
    return WALK_OK;
}

// ------------------------------------------------------------------------------------------------------- tile group + oracle
struct TG {
    int                   w = 0, h = 0;
    void *                segs = nullptr;
    SegView               v{};
    std::vector<int32_t>  owner;           // SB -> segment that walks it (observed), -1 none
    std::vector<uint8_t>  visited;         // SB -> times processed in this pass
    std::vector<uint32_t> start, finish;   // segment -> logical time (0 = not yet)
    long                  nvisited = 0;
};

// static part: walking every segment index once must cover every SB exactly once
static Fail build_owner(TG &t, int tgi) {
    t.owner.assign((size_t)t.w * t.h, -1);
    if (t.v.ttl > t.v.max_total) return mkfail("ttl-exceeds-allocation", "tg " + S(tgi) + ": segment_ttl_count " + S(t.v.ttl) + " > allocated " + S(t.v.max_total));
    for (uint32_t s = 0; s < t.v.ttl; s++) {
        Fail     f;
        uint32_t n = 0;
        int rc = kernel_walk(t.v, (uint32_t)t.w, (uint32_t)t.h, s, [&](uint32_t x, uint32_t y) {
            if (y >= (uint32_t)t.h) { f = mkfail("sb-outside-picture", "tg " + S(tgi) + ": segment " + S(s) + " walks SB (" + S(x) + "," + S(y) + ") outside the " + S(t.w) + "x" + S(t.h) + " grid"); return false; }
            int32_t &o = t.owner[(size_t)y * t.w + x];
            if (o >= 0) { f = mkfail("sb-in-two-segments", "tg " + S(tgi) + ": SB (" + S(x) + "," + S(y) + ") is walked by segment " + S(o) + " and by segment " + S(s)); return false; }
            o = (int32_t)s; n++;
            return true;
        });
        if (rc == WALK_ABORT) return f;
        if (rc == WALK_RUNAWAY) return mkfail("walk-runaway", "tg " + S(tgi) + ": the kernel loop of segment " + S(s) + " never reaches valid_sb_count=" + S(t.v.valid_sb_count[s]) + " (walked " + S(n) + ")");
    }
    for (int y = 0; y < t.h; y++) for (int x = 0; x < t.w; x++)
        if (t.owner[(size_t)y * t.w + x] < 0) return mkfail("sb-in-no-segment", "tg " + S(tgi) + ": SB (" + S(x) + "," + S(y) + ") is walked by no segment");
    return Fail();
}

// ------------------------------------------------------------------------------------------------------------ task pool (SRM)
static const int MAXW = 8;
static const uint32_t POOL_OBJS = 256;
static void *g_pool = nullptr, *g_prod[MAXW + 1], *g_cons[MAXW];
static void pool_reset() {
    if (g_pool) pool_delete(g_pool);
    g_pool = pool_new(POOL_OBJS, MAXW + 1, MAXW);   // producers: the MDC stand-in (0) + one feedback fifo per worker, as in EbEncHandle.c
    if (!g_pool) { fprintf(stderr, "cannot build task pool\n"); exit(2); }
    for (int i = 0; i <= MAXW; i++) g_prod[i] = pool_producer(g_pool, (uint32_t)i);
    for (int i = 0; i < MAXW; i++) g_cons[i] = pool_consumer(g_pool, (uint32_t)i);
}

// ------------------------------------------------------------------------------------------------------------------- the case
enum { POL_UNIFORM = 0, POL_LAZY = 1, POL_EAGER = 2, POL_FIRST = 10, POL_LAZY_LIFO = 11, POL_LAZY_FIFO = 12 };
struct Case {
    int c = 1, r = 1;              // segment column / row counts given to ctor and init (the configured counts)
    int W = 1;                     // logical workers
    int policy = POL_UNIFORM;
    int passes = 1;                // 2 = the picture is re-initialised and run again on the same objects (recode path)
    std::vector<std::pair<int, int>> tgs;   // tile groups: (width, height) in SBs
    std::vector<uint8_t> sched;    // schedule choices (used cyclically)
};
static std::string dump_txt(const Case &c) {
    std::string s = "P " + S(c.c) + " " + S(c.r) + " " + S(c.W) + " " + S(c.policy) + " " + S(c.passes) + " " + S((long long)c.tgs.size());
    for (auto &g : c.tgs) s += " " + S(g.first) + " " + S(g.second);
    s += " " + S((long long)c.sched.size());
    for (uint8_t b : c.sched) s += " " + S(b);
    return s;
}
static std::string dump_json(const Case &c) {
    std::string s = "{\"seg_cols\":" + S(c.c) + ",\"seg_rows\":" + S(c.r) + ",\"workers\":" + S(c.W) + ",\"policy\":" + S(c.policy) + ",\"passes\":" + S(c.passes) + ",\"tile_groups\":[";
    for (size_t i = 0; i < c.tgs.size(); i++) s += std::string(i ? "," : "") + "[" + S(c.tgs[i].first) + "," + S(c.tgs[i].second) + "]";
    s += "],\"sched_len\":" + S((long long)c.sched.size()) + "}";
    return s;
}
static bool valid_case(const Case &c) {
    if (c.c < 1 || c.c > 60 || c.r < 1 || c.r > 37 || c.W < 1 || c.W > MAXW || c.passes < 1 || c.passes > 2 || c.tgs.empty() || c.tgs.size() > 4) return false;
    if (!(c.policy == POL_UNIFORM || c.policy == POL_LAZY || c.policy == POL_EAGER || c.policy == POL_FIRST || c.policy == POL_LAZY_LIFO || c.policy == POL_LAZY_FIFO)) return false;
    for (auto &g : c.tgs) if (g.first < 1 || g.first > 65 || g.second < 1 || g.second > 34) return false;
    return true;
}

struct RunInfo { long steps = 0, feedback = 0, started = 0, max_inflight = 0; int rows = 0, bands = 0; };

struct Worker { int st = 0; void *wr = nullptr; uint16_t segment_index = 0; uint32_t tg = 0; long coded = 0; uint32_t started_at = 0; };
enum { ST_IDLE = 0, ST_HAVE_TASK = 1, ST_PROCESSING = 2 };

// One picture pass over already constructed segment objects: init (as init_enc_dec_segement), MDC tasks, schedule until quiescent.
static Fail run_pass(std::vector<TG> &tgs, const Case &c, size_t &sched_pos, std::vector<Worker> &wk, RunInfo &ri, uint32_t &clock, int pass) {
    void *pcs_tag = (void *)(uintptr_t)(0x1000 + pass);
    long  total = 0, coded_total = 0, ttl_sum = 0;
    for (size_t i = 0; i < tgs.size(); i++) {
        TG &t = tgs[i];
        segs_init(t.segs, (uint32_t)c.c, (uint32_t)c.r, (uint32_t)t.w, (uint32_t)t.h);
        segs_view(t.segs, &t.v);
        Fail f = build_owner(t, (int)i);
        if (f.failed()) return f;
        t.visited.assign((size_t)t.w * t.h, 0);
        t.start.assign(t.v.ttl, 0);
        t.finish.assign(t.v.ttl, 0);
        t.nvisited = 0;
        total += (long)t.w * t.h;
        ttl_sum += t.v.ttl;
        ri.rows = std::max(ri.rows, (int)t.v.row_count);
        ri.bands = std::max(ri.bands, (int)t.v.band_count);
    }
    if (pool_pending(g_pool) != 0 || pool_empties(g_pool) != POOL_OBJS) return mkfail("harness-pool-dirty", "task pool not clean at the start of a pass");
    for (size_t i = 0; i < tgs.size(); i++) pool_post_mdc(g_prod[0], (uint16_t)i, pcs_tag);   // MDC posts one task per tile group

    const long step_cap = 8 * ttl_sum + 16 * (long)tgs.size() + 64;
    long       steps = 0, inflight = 0;
    std::vector<int> en_np, en_p;   // enabled workers: non-process steps (take / assign), process steps
    for (;;) {
        en_np.clear(); en_p.clear();
        bool pending = pool_pending(g_pool) > 0;
        for (int w = 0; w < c.W; w++) {
            if (wk[w].st == ST_IDLE) { if (pending) en_np.push_back(w); }
            else if (wk[w].st == ST_HAVE_TASK) en_np.push_back(w);
            else en_p.push_back(w);
        }
        if (en_np.empty() && en_p.empty()) break;   // quiescent: every worker idle, no task posted
        if (++steps > step_cap) return mkfail("no-termination", "more than " + S(step_cap) + " scheduling steps for " + S(ttl_sum) + " segments: the protocol keeps handing out work");
        int pick;
        if (c.policy == POL_FIRST) {
            pick = en_np.empty() ? en_p[0] : (en_p.empty() ? en_np[0] : std::min(en_np[0], en_p[0]));
        } else if (c.policy == POL_LAZY_LIFO || c.policy == POL_LAZY_FIFO) {
            if (!en_np.empty()) pick = en_np[0];
            else {
                pick = en_p[0];
                for (int w : en_p) if (c.policy == POL_LAZY_LIFO ? wk[w].started_at > wk[pick].started_at : wk[w].started_at < wk[pick].started_at) pick = w;
            }
        } else {
            uint8_t b = c.sched.empty() ? 0 : c.sched[sched_pos++ % c.sched.size()];
            const std::vector<int> *from;
            if (c.policy == POL_UNIFORM) {
                size_t n = en_np.size() + en_p.size(), k = b % n;
                // worker order
                std::vector<int> all(en_np); all.insert(all.end(), en_p.begin(), en_p.end()); std::sort(all.begin(), all.end());
                pick = all[k]; from = nullptr;
            } else {
                bool prefer_np = (c.policy == POL_LAZY);
                bool swap = (b & 0xC0) == 0xC0;   // 25%: take from the other class
                const std::vector<int> &a = prefer_np ? en_np : en_p, &o = prefer_np ? en_p : en_np;
                from = (!a.empty() && !(swap && !o.empty())) ? &a : (o.empty() ? &a : &o);
                pick = (*from)[(b & 0x3F) % from->size()];
            }
        }
        Worker &me = wk[pick];
        if (me.st == ST_IDLE) {
            // EB_GET_FULL_OBJECT(mode_decision_input_fifo_ptr)
            me.wr = task_take(g_cons[pick]);
            if (!me.wr) return mkfail("harness-take-null", "svt_get_full_object returned no wrapper although a task was pending");
            uint32_t type, tg; int row; void *tag;
            task_info(me.wr, &type, &row, &tg, &tag);
            if (tg >= tgs.size()) return mkfail("task-bad-tile-group", "task carries tile_group_index " + S(tg) + " but the picture has " + S((long long)tgs.size()) + " tile groups");
            if (tag != pcs_tag) return mkfail("task-wrong-picture", "task does not carry the picture handle of the task that produced it");
            if (type == SEG_TASK_ENCDEC) {
                if (row < 0 || (uint32_t)row >= tgs[tg].v.row_count) return mkfail("feedback-bad-row", "feedback task for segment row " + S(row) + " of tile group " + S(tg) + " which has " + S(tgs[tg].v.row_count) + " rows");
                ri.feedback++;
            } else if (type != SEG_TASK_MDC) return mkfail("task-bad-type", "task with input_type " + S(type) + " in the queue");
            me.tg = tg; me.coded = 0; me.st = ST_HAVE_TASK;
        } else if (me.st == ST_HAVE_TASK) {
            TG &t = tgs[me.tg];
            if (pool_empties(g_pool) == 0) return mkfail("task-pool-exhausted", S(POOL_OBJS) + " tasks outstanding: more feedback tasks than segment rows can explain");
            int more = task_assign(t.segs, &me.segment_index, me.wr, g_prod[1 + pick]);
            if (more) {
                uint32_t s = me.segment_index;
                if (s >= t.v.ttl) return mkfail("invalid-segment", "tg " + S(me.tg) + ": assign handed out segment " + S(s) + " of " + S(t.v.ttl));
                if (t.start[s]) return mkfail("segment-twice", "tg " + S(me.tg) + ": segment " + S(s) + " handed out twice (first at step " + S(t.start[s]) + ")");
                t.start[s] = ++clock; me.started_at = clock; ri.started++;
                // predecessors (from coordinates): owners of left / upper / upper-right neighbours must have finished
                Fail f;
                int rc = kernel_walk(t.v, (uint32_t)t.w, (uint32_t)t.h, s, [&](uint32_t x, uint32_t y) {
                    const int nx[3] = {(int)x - 1, (int)x, (int)x + 1}, ny[3] = {(int)y, (int)y - 1, (int)y - 1};
                    for (int k = 0; k < 3; k++) {
                        if (nx[k] < 0 || ny[k] < 0 || nx[k] >= t.w) continue;
                        int32_t o = t.owner[(size_t)ny[k] * t.w + nx[k]];
                        if (o != (int32_t)s && !t.finish[o]) {
                            f = mkfail("start-before-predecessor", "tg " + S(me.tg) + " (" + S(t.w) + "x" + S(t.h) + " SBs, " + S(t.v.row_count) + " rows x " + S(t.v.band_count) + " bands): segment " + S(s) +
                                       " started by worker " + S(pick) + " at step " + S(clock) + " but segment " + S(o) + ", which holds SB (" + S(nx[k]) + "," + S(ny[k]) + ") = " +
                                       (k == 0 ? "left" : k == 1 ? "upper" : "upper-right") + " neighbour of its SB (" + S(x) + "," + S(y) + "), " + (t.start[o] ? "is still in progress" : "has not even started"));
                            return false;
                        }
                    }
                    return true;
                });
                if (rc != WALK_OK) return f.failed() ? f : mkfail("walk-runaway", "segment " + S(s));
                me.st = ST_PROCESSING;
                inflight++; ri.max_inflight = std::max(ri.max_inflight, inflight);
            } else {
                // end of the segment loop: account the SBs and release the task (tail of the kernel)
                coded_total += me.coded;
                task_release(me.wr); me.wr = nullptr; me.st = ST_IDLE;
            }
        } else {
            TG &t = tgs[me.tg];
            uint32_t s = me.segment_index;
            Fail f;
            int rc = kernel_walk(t.v, (uint32_t)t.w, (uint32_t)t.h, s, [&](uint32_t x, uint32_t y) {
                uint8_t &vis = t.visited[(size_t)y * t.w + x];
                if (vis) { f = mkfail("sb-twice", "tg " + S(me.tg) + ": SB (" + S(x) + "," + S(y) + ") processed a second time (segment " + S(s) + ")"); return false; }
                const int nx[3] = {(int)x - 1, (int)x, (int)x + 1}, ny[3] = {(int)y, (int)y - 1, (int)y - 1};
                for (int k = 0; k < 3; k++) {
                    if (nx[k] < 0 || ny[k] < 0 || nx[k] >= t.w) continue;
                    if (!t.visited[(size_t)ny[k] * t.w + nx[k]]) { f = mkfail("sb-order", "tg " + S(me.tg) + ": SB (" + S(x) + "," + S(y) + ") processed before its neighbour (" + S(nx[k]) + "," + S(ny[k]) + ")"); return false; }
                }
                vis = 1; t.nvisited++; me.coded++;
                return true;
            });
            if (rc != WALK_OK) return f.failed() ? f : mkfail("walk-runaway", "segment " + S(s));
            t.finish[s] = ++clock;
            inflight--;
            me.st = ST_HAVE_TASK;   // the task is now ENCDEC_TASKS_CONTINUE (set by the library)
        }
    }
    ri.steps += steps;
    // quiescent: nothing can run any more.  The picture must be complete (last_sb_flag of the kernel would otherwise never be raised).
    for (size_t i = 0; i < tgs.size(); i++) {
        TG &t = tgs[i];
        if (t.nvisited != (long)t.w * t.h) {
            for (int y = 0; y < t.h; y++) for (int x = 0; x < t.w; x++) if (!t.visited[(size_t)y * t.w + x]) {
                int32_t o = t.owner[(size_t)y * t.w + x];
                uint32_t rs, re, rcur; segs_row(t.segs, (uint32_t)o / t.v.band_count, &rs, &re, &rcur);
                return mkfail(t.w == 1 ? "lost-continuation|1-sb-wide" : "lost-continuation", "tg " + S((long long)i) + " (" + S(t.w) + "x" + S(t.h) + " SBs, " + S(t.v.row_count) + " rows x " + S(t.v.band_count) + " bands, " + S(c.W) +
                              " workers): all workers idle and no task queued, but " + S((long)t.w * t.h - t.nvisited) + " SBs were never processed; first SB (" + S(x) + "," + S(y) + ") of segment " + S(o) +
                              " (dependency count left " + S(t.v.dep[o]) + ", row range " + S(rs) + ".." + S(re) + " current " + S(rcur) + ")");
            }
        }
        for (uint32_t s = 0; s < t.v.ttl; s++) if (t.start[s] && !t.finish[s]) return mkfail("harness-unfinished", "segment started but not finished at quiescence");
    }
    if (coded_total != total) return mkfail("coded-count", "sum of coded_sb_count " + S(coded_total) + " != picture SB count " + S(total));
    if (pool_pending(g_pool) != 0 || pool_empties(g_pool) != POOL_OBJS) return mkfail("task-leak", "task pool not drained at the end of the picture");
    return Fail();
}

// full case: construct the objects exactly sized for the configured counts (EbPictureControlSet.c), run the passes
static Fail run_case(const Case &c, RunInfo &ri) {
    std::vector<TG> tgs(c.tgs.size());
    for (size_t i = 0; i < tgs.size(); i++) {
        tgs[i].w = c.tgs[i].first; tgs[i].h = c.tgs[i].second;
        tgs[i].segs = segs_new((uint32_t)c.c, (uint32_t)c.r);
        if (!tgs[i].segs) { fprintf(stderr, "ctor failed\n"); exit(2); }
    }
    std::vector<Worker> wk((size_t)c.W);
    size_t   sched_pos = 0;
    uint32_t clock = 0;
    Fail     f;
    for (int p = 0; p < c.passes && !f.failed(); p++) f = run_pass(tgs, c, sched_pos, wk, ri, clock, p);
    if (f.failed()) pool_reset();   // wrappers may still be held: start from a fresh pool
    for (auto &t : tgs) segs_delete(t.segs);
    return f;
}

// ------------------------------------------------------------------------------------------------------ (a) geometry, one tuple
// what the real callers can make of (w,h): configured counts are round(size/sb) (EbEncHandle.c), halved on small machines, 1 on a
// single core, clamped by the tile-group size (init_enc_dec_segement) and by init itself; super-res narrows the picture below the
// width the counts were derived from.  Conservative superset: 1, or at least about half the SB count.
static bool reach1(int n, int size) { return n == 1 || n >= (size - 1) / 2; }
struct GeoStats { long runs = 0, max_feedback = 0, max_inflight = 0, steps = 0; };
static Fail check_geometry(int w, int h, int c, int r, GeoStats &gs) {
    static const struct { int W, pol; } plans[3] = {{1, POL_FIRST}, {8, POL_LAZY_FIFO}, {3, POL_LAZY_LIFO}};
    for (auto &pl : plans) {
        Case cs; cs.c = c; cs.r = r; cs.W = pl.W; cs.policy = pl.pol; cs.passes = 1; cs.tgs.push_back({w, h});
        RunInfo ri;
        Fail f = run_case(cs, ri);
        gs.runs++; gs.steps += ri.steps;
        gs.max_feedback = std::max(gs.max_feedback, ri.feedback); gs.max_inflight = std::max(gs.max_inflight, ri.max_inflight);
        if (f.failed()) { f.what = "[" + S(pl.W) + " worker(s), policy " + S(pl.pol) + "] " + f.what; return f; }
    }
    return Fail();
}
static bool quick_pick(int n, int size, int salt, int mod) {
    return n <= 2 || n == (size - 1) / 2 || n == size / 2 || n >= size - 1 || ((n + salt) % mod) == 0;
}

static int mode_exhaustive(bool thorough, const char *failfile) {
    long tuples = 0, failures = 0, fail_reach = 0, reachable = 0, n64 = 0, n128 = 0, known = 0;
    long enumerated = 0;
    std::map<std::string, long> by_key;
    GeoStats gs;
    std::vector<std::string> flist;
    bool wrote = false;
    for (int sb = 64; sb <= 128; sb += 64) {
        int wmax = sb == 64 ? 65 : 33, hmax = sb == 64 ? 34 : 17;
        for (int w = 1; w <= wmax; w++) {
            for (int h = 1; h <= hmax; h++) {
                int cmax = std::min(60, w), rmax = std::min(37, h);
                for (int c = 1; c <= cmax; c++) {
                    if (!thorough && !quick_pick(c, cmax, w + h, 11)) continue;
                    for (int r = 1; r <= rmax; r++) {
                        if (!thorough && !quick_pick(r, rmax, w + h + c, 9)) continue;
                        if ((enumerated++ % g_shard_n) != g_shard_i) continue;
                        std::string txt = "G " + S(sb) + " " + S(w) + " " + S(h) + " " + S(c) + " " + S(r);
                        set_cur(txt);
                        Fail f = check_geometry(w, h, c, r, gs);
                        tuples++; (sb == 64 ? n64 : n128)++;
                        bool rch = reach1(c, w) && reach1(r, h);
                        if (rch) reachable++;
                        if (f.failed()) by_key[f.key]++;
                        if (f.failed() && g_known_1wide && f.key == KEY_1WIDE) known++;
                        else if (f.failed()) {
                            failures++; if (rch) fail_reach++;
                            if (flist.size() < 20) flist.push_back("{\"txt\":\"" + txt + "\",\"key\":\"" + jesc(f.key) + "\",\"caller_reachable\":" + (rch ? "true" : "false") + ",\"what\":\"" + jesc(f.what) + "\"}");
                            if (failfile && (!wrote || (rch && fail_reach == 1))) {
                                FILE *ff = fopen(failfile, "w");
                                if (ff) { fprintf(ff, "{\"key\": \"%s\", \"what\": \"%s\", \"txt\": \"%s\"}\n", jesc(f.key).c_str(), jesc(f.what).c_str(), txt.c_str()); fclose(ff); wrote = true; }
                            }
                            if (failures >= 2000) goto done;
                        }
                    }
                }
            }
            if (w % 8 == 0) { printf("progress sb=%d w=%d tuples=%ld failures=%ld\n", sb, w, tuples, failures); fflush(stdout); }
        }
    }
done:
    g_cur_txt[0] = 0;
    printf("{\"mode\":\"exhaustive\",\"exhaustive\":%s,\"shard\":\"%ld/%ld\",\"tuples\":%ld,\"tuples_sb64\":%ld,\"tuples_sb128\":%ld,\"caller_reachable_tuples\":%ld,\"protocol_runs\":%ld,\"steps\":%ld,"
           "\"max_feedback_tasks\":%ld,\"max_segments_in_flight\":%ld,\"failures\":%ld,\"failures_caller_reachable\":%ld,\"known_finding_failures\":%ld,\"failures_by_key\":{",
           (thorough && g_shard_n == 1) ? "true" : "false", g_shard_i, g_shard_n, tuples, n64, n128, reachable, gs.runs, gs.steps, gs.max_feedback, gs.max_inflight, failures, fail_reach, known);
    { size_t i = 0; for (auto &kv : by_key) printf("%s\"%s\":%ld", i++ ? "," : "", jesc(kv.first).c_str(), kv.second); }
    printf("},\"failing\":[");
    for (size_t i = 0; i < flist.size(); i++) printf("%s%s", i ? "," : "", flist[i].c_str());
    printf("],\"what\":\"%s\"}\n", failures ? "geometry/protocol violation, see failing[]" : "");
    return failures ? 1 : 0;
}

// --------------------------------------------------------------------------------------------------------------- (b) generated
static long g_cases = 0, g_nontrivial = 0;
static std::set<uint64_t> g_keys;
static std::map<std::string, long> g_classes;
static std::vector<std::string> g_samples;
static long g_feedback_total = 0, g_steps_total = 0, g_max_inflight = 0;

static void write_fail(const char *failfile, const Fail &f, const std::string &txt) {
    FILE *ff = fopen(failfile, "w"); if (!ff) return;
    fprintf(ff, "{\"key\": \"%s\", \"what\": \"%s\", \"txt\": \"%s\"}\n", jesc(f.key).c_str(), jesc(f.what).c_str(), txt.c_str()); fclose(ff);
}
static Fail check_case(const Case &c, bool count) {
    RunInfo ri;
    set_cur(dump_txt(c));
    Fail f = run_case(c, ri);
    if (count) {
        g_cases++;
        bool nt = ri.rows >= 2 && ri.bands >= 2 && c.W >= 2 && ri.feedback >= 1;
        if (nt) { g_nontrivial++; if (g_keys.size() < 30000) g_keys.insert(fnv(dump_txt(c))); }
        g_classes[c.W == 1 ? "workers=1" : c.W <= 4 ? "workers=2-4" : "workers=5-8"]++;
        g_classes[c.tgs.size() == 1 ? "tile_groups=1" : "tile_groups>1"]++;
        g_classes[ri.feedback == 0 ? "feedback=0" : ri.feedback <= 3 ? "feedback=1-3" : "feedback>=4"]++;
        g_classes[c.policy == POL_UNIFORM ? "policy=uniform" : c.policy == POL_LAZY ? "policy=lazy-finish" : "policy=eager-finish"]++;
        g_classes[c.passes == 1 ? "passes=1" : "passes=2"]++;
        g_classes[ri.max_inflight <= 1 ? "in_flight<=1" : ri.max_inflight <= 3 ? "in_flight=2-3" : "in_flight>=4"]++;
        int area = 0; for (auto &g : c.tgs) area = std::max(area, g.first * g.second);
        g_classes[area <= 16 ? "grid<=16SB" : area <= 120 ? "grid<=120SB" : "grid>120SB"]++;
        g_classes[(ri.rows >= 2 && ri.bands >= 2) ? "rows>=2&bands>=2" : "rows<2|bands<2"]++;
        g_feedback_total += ri.feedback; g_steps_total += ri.steps; g_max_inflight = std::max(g_max_inflight, ri.max_inflight);
        if (nt && g_samples.size() < 4 && c.sched.size() <= 40 && (g_cases % 7 == 0 || g_samples.empty()))
            g_samples.push_back("{\"case\":" + dump_json(c) + ",\"rows\":" + S(ri.rows) + ",\"bands\":" + S(ri.bands) + ",\"feedback_tasks\":" + S(ri.feedback) + ",\"steps\":" + S(ri.steps) + ",\"max_in_flight\":" + S(ri.max_inflight) + "}");
    }
    return f;
}
static int pick_count(int which, int size, int cap, int uniform) {
    int m = std::min(size, cap);
    switch (which) {
    case 0: return m;
    case 1: return std::max(1, std::min(m, size - 1));
    case 2: return std::max(1, std::min(m, size / 2));
    default: return 1 + uniform % m;
    }
}

static int mode_gen(const char *failfile, bool sweep) {
    bool ok = rc::check("wavefront segments: every SB once, in dependency order, always completes", [&] {
        Case c;
        bool big = *rc::gen::resize(100, rc::gen::inRange(0, 10)) == 0;
        int  ntg = *rc::gen::resize(100, rc::gen::element(1, 1, 1, 2, 3));
        int  w   = big ? *rc::gen::resize(100, rc::gen::inRange(1, 66)) : *rc::gen::resize(100, rc::gen::inRange(1, 13));
        int  hmx = 0;
        for (int i = 0; i < ntg; i++) {   // tile groups are rows of tiles: same width, own height (tile_group_col_count is 1)
            int h = big ? *rc::gen::resize(100, rc::gen::inRange(1, 35)) : *rc::gen::resize(100, rc::gen::inRange(1, 11));
            c.tgs.push_back({w, h}); hmx = std::max(hmx, h);
        }
        c.c = pick_count(*rc::gen::resize(100, rc::gen::inRange(0, 4)), w, 60, *rc::gen::resize(100, rc::gen::inRange(0, 60)));
        c.r = pick_count(*rc::gen::resize(100, rc::gen::inRange(0, 4)), hmx, 37, *rc::gen::resize(100, rc::gen::inRange(0, 37)));
        if (g_known_1wide && w == 1) c.r = 1;   // known finding: 1-SB-wide tile groups deadlock with >= 2 segment rows
        c.W = *rc::gen::resize(100, rc::gen::inRange(1, MAXW + 1));
        c.policy = *rc::gen::resize(100, rc::gen::element((int)POL_UNIFORM, (int)POL_LAZY, (int)POL_EAGER));
        c.passes = *rc::gen::resize(100, rc::gen::element(1, 1, 1, 2));
        int len = *rc::gen::resize(100, rc::gen::inRange(0, 401));
        c.sched = *rc::gen::container<std::vector<uint8_t>>((size_t)len, rc::gen::resize(100, rc::gen::arbitrary<uint8_t>()));
        RC_PRE(valid_case(c));
        Fail f = check_case(c, true);
        if (f.failed()) write_fail(failfile, f, dump_txt(c));   // rapidcheck shrinks: the last write is the minimal case
        RC_ASSERT(!f.failed());
    });
    // deterministic sweep: every shape <= 8x8 SBs x every segment grid x worker counts x the deterministic adversarial policies
    long sweep_runs = 0, sweep_fail = 0, sweep_feedback = 0, sweep_known_skipped = 0;
    if (sweep && ok) {
        static const int Ws[4] = {2, 3, 5, 8};
        static const int pols[3] = {POL_LAZY_LIFO, POL_LAZY_FIFO, POL_FIRST};
        for (int w = 1; w <= 8 && !sweep_fail; w++) for (int h = 1; h <= 8 && !sweep_fail; h++)
            for (int cc = 1; cc <= w && !sweep_fail; cc++) for (int r = 1; r <= h && !sweep_fail; r++)
                for (int W : Ws) for (int pol : pols) {
                    if (sweep_fail) break;
                    if (g_known_1wide && w == 1 && r >= 2) { sweep_known_skipped++; continue; }
                    Case c; c.c = cc; c.r = r; c.W = W; c.policy = pol; c.passes = 1; c.tgs.push_back({w, h});
                    set_cur(dump_txt(c));
                    RunInfo ri; Fail f = run_case(c, ri);
                    sweep_runs++; sweep_feedback += ri.feedback;
                    if (f.failed()) { sweep_fail++; write_fail(failfile, f, dump_txt(c)); printf("sweep failure: %s: %s\n", f.key.c_str(), f.what.c_str()); }
                }
    }
    g_cur_txt[0] = 0;
    printf("{\"cases\":%ld,\"nontrivial\":%ld,\"generated_ok\":%s,\"feedback_tasks\":%ld,\"steps\":%ld,\"max_segments_in_flight\":%ld,\"feedback_queue\":\"real SRM (svt_system_resource_ctor + enc_dec_tasks_creator)\","
           "\"sweep_runs\":%ld,\"sweep_failures\":%ld,\"sweep_feedback_tasks\":%ld,\"known_1wide_excluded\":%s,\"sweep_known_skipped\":%ld,\"classes\":{",
           g_cases, g_nontrivial, ok ? "true" : "false", g_feedback_total, g_steps_total, g_max_inflight, sweep_runs, sweep_fail, sweep_feedback, g_known_1wide ? "true" : "false", sweep_known_skipped);
    { size_t i = 0; for (auto &kv : g_classes) printf("%s\"%s\":%ld", i++ ? "," : "", kv.first.c_str(), kv.second); }
    printf("},\"samples\":[");
    for (size_t i = 0; i < g_samples.size(); i++) printf("%s%s", i ? "," : "", g_samples[i].c_str());
    printf("],\"keys\":[");
    { size_t i = 0; for (uint64_t k : g_keys) { printf("%s\"%llx\"", i++ ? "," : "", (unsigned long long)k); } }
    printf("]}\n");
    return (ok && !sweep_fail) ? 0 : 1;
}

// ---------------------------------------------------------------------------------------------------------------- replay
static int mode_replay(const char *file) {
    g_replay_mode = 1;
    FILE *f = fopen(file, "r");
    char  tag[8] = {0};
    if (!f || fscanf(f, "%7s", tag) != 1) { printf("{\"key\":\"replay-unreadable\",\"what\":\"cannot read replay file\"}\n"); return 2; }
    Fail res;
    if (!strcmp(tag, "G")) {
        int sb, w, h, c, r;
        if (fscanf(f, "%d %d %d %d %d", &sb, &w, &h, &c, &r) != 5 || w < 1 || h < 1 || w > 65 || h > 34 || c < 1 || r < 1 || c > std::min(60, w) || r > std::min(37, h)) {
            printf("{\"key\":\"replay-unreadable\",\"what\":\"bad geometry tuple\"}\n"); return 2; }
        set_cur("G " + S(sb) + " " + S(w) + " " + S(h) + " " + S(c) + " " + S(r));
        GeoStats gs; res = check_geometry(w, h, c, r, gs);
    } else if (!strcmp(tag, "P")) {
        Case c; int ntg = 0, ns = 0;
        if (fscanf(f, "%d %d %d %d %d %d", &c.c, &c.r, &c.W, &c.policy, &c.passes, &ntg) != 6 || ntg < 1 || ntg > 4) { printf("{\"key\":\"replay-unreadable\",\"what\":\"bad case header\"}\n"); return 2; }
        for (int i = 0; i < ntg; i++) { int w, h; if (fscanf(f, "%d %d", &w, &h) != 2) { printf("{\"key\":\"replay-unreadable\",\"what\":\"bad tile group\"}\n"); return 2; } c.tgs.push_back({w, h}); }
        if (fscanf(f, "%d", &ns) != 1 || ns < 0 || ns > 100000) { printf("{\"key\":\"replay-unreadable\",\"what\":\"bad schedule length\"}\n"); return 2; }
        for (int i = 0; i < ns; i++) { int b; if (fscanf(f, "%d", &b) != 1) { printf("{\"key\":\"replay-unreadable\",\"what\":\"bad schedule\"}\n"); return 2; } c.sched.push_back((uint8_t)b); }
        if (!valid_case(c)) { printf("{\"key\":\"replay-unreadable\",\"what\":\"case outside the harness domain\"}\n"); return 2; }
        res = check_case(c, false);
    } else { printf("{\"key\":\"replay-unreadable\",\"what\":\"unknown case tag\"}\n"); return 2; }
    fclose(f);
    g_cur_txt[0] = 0;
    printf("{\"key\":\"%s\",\"what\":\"%s\"}\n", jesc(res.key).c_str(), jesc(res.what).c_str());
    return res.failed() ? 1 : 0;
}

// ------------------------------------------------------------------------------------------------------------------ (c) traces
// Line format (svt_verif_seg_trace_flush): kind pic pcs tg seg x y tid.  x,y are the kernel's loop variables x_sb_index / y_sb_index,
// i.e. relative to the tile group.  Kind 1 is logged when the kernel *starts* an SB; the SB is complete when the same segment logs its
// next event (next SB or finish) - that is the time stamp the wavefront rule is checked against.  The trace has no geometry: the extent
// of a tile group is derived from the SBs seen in the pass.
struct TSb { uint64_t visit = 0, done = 0; uint32_t seg = 0; };
struct TPass {
    std::unordered_map<uint32_t, TSb> sbs;              // y<<16|x
    std::map<uint32_t, int64_t> open;                   // open segment -> key of its last SB (-1 none yet)
    std::set<uint32_t> seen;
    std::map<uint32_t, std::vector<uint32_t>> seg_sbs;  // segment -> SBs in visiting order
    uint32_t maxx = 0, maxy = 0;
};
struct TraceCtx {
    std::map<std::tuple<uint64_t, uint64_t, uint32_t>, TPass> live;
    long passes = 0, reopened = 0, restarts = 0, incomplete = 0, sbs = 0;
    std::set<std::pair<uint64_t, uint64_t>> pictures;
    std::map<std::string, long> extents;                                       // "tg:WxH" -> passes
    std::map<std::string, std::pair<std::string, long>> shapes;                 // shape signature -> (crosscheck result, passes)
    bool partial = false;
    Fail fail;
};
static bool pass_complete(const TPass &p) { return p.open.empty() && !p.sbs.empty() && p.sbs.size() == (size_t)(p.maxx + 1) * (p.maxy + 1); }
// find segment counts (c,r) for which the real init + the transcribed walk reproduce the traced segment -> SB lists
static std::string crosscheck_shape(const TPass &p) {
    int w = (int)p.maxx + 1, h = (int)p.maxy + 1;
    if (w > 65 || h > 34) return "skipped (grid larger than the harness domain)";
    for (int r = 1; r <= std::min(37, h); r++) for (int c = 1; c <= std::min(60, w); c++) {
        void *sg = segs_new((uint32_t)c, (uint32_t)r); if (!sg) continue;
        segs_init(sg, (uint32_t)c, (uint32_t)r, (uint32_t)w, (uint32_t)h);
        SegView v; segs_view(sg, &v);
        bool same = true; size_t nonempty = 0;
        for (uint32_t s = 0; s < v.ttl && same; s++) {
            std::vector<uint32_t> got;
            int rc = kernel_walk(v, (uint32_t)w, (uint32_t)h, s, [&](uint32_t x, uint32_t y) { got.push_back(y << 16 | x); return true; });
            if (rc != WALK_OK) { same = false; break; }
            auto it = p.seg_sbs.find(s);
            if (got.empty()) { if (it != p.seg_sbs.end() && !it->second.empty()) same = false; continue; }
            nonempty++;
            if (it == p.seg_sbs.end() || it->second != got) same = false;
        }
        if (same) { size_t traced = 0; for (auto &kv : p.seg_sbs) if (!kv.second.empty()) traced++; if (traced != nonempty) same = false; }
        segs_delete(sg);
        if (same) return "match seg_cols=" + S(c) + " seg_rows=" + S(r);
    }
    return "no-match";
}
static void finalize_pass(TraceCtx &cx, const std::tuple<uint64_t, uint64_t, uint32_t> &key, TPass &p, bool must_be_complete) {
    cx.passes++;
    char id[128]; snprintf(id, sizeof id, "pcs 0x%" PRIx64 " picture %" PRIu64 " tile group %u", std::get<0>(key), std::get<1>(key), std::get<2>(key));
    uint32_t W = p.maxx + 1, H = p.maxy + 1;
    bool complete = pass_complete(p);
    if (!complete) cx.incomplete++;
    if (!cx.fail.failed() && must_be_complete) {
        if (!p.open.empty()) cx.fail = mkfail("segment-unfinished", std::string(id) + ": segment " + S(p.open.begin()->first) + " started but never finished");
        else if (!complete) {
            for (uint32_t y = 0; y < H && !cx.fail.failed(); y++) for (uint32_t x = 0; x < W; x++) if (!p.sbs.count(y << 16 | x)) {
                cx.fail = mkfail("sb-missing", std::string(id) + ": SB (" + S(x) + "," + S(y) + ") of the " + S(W) + "x" + S(H) + " grid (extent seen in the trace) was never visited"); break; }
        }
    }
    if (!cx.fail.failed()) {
        for (auto &kv : p.sbs) {
            int x = (int)(kv.first & 0xFFFF), y = (int)(kv.first >> 16);
            const int nx[3] = {x - 1, x, x + 1}, ny[3] = {y, y - 1, y - 1};
            for (int k = 0; k < 3; k++) {
                if (nx[k] < 0 || ny[k] < 0) continue;
                auto it = p.sbs.find((uint32_t)ny[k] << 16 | (uint32_t)nx[k]);
                if (it == p.sbs.end()) continue;   // outside the extent, or a hole (reported above when the pass has to be complete)
                if (it->second.done == 0 || it->second.done > kv.second.visit) {
                    cx.fail = mkfail("sb-order", std::string(id) + ": SB (" + S(x) + "," + S(y) + ") of segment " + S(kv.second.seg) + " was started at event " + S((long long)kv.second.visit) + " before its " +
                                     (k == 0 ? "left" : k == 1 ? "upper" : "upper-right") + " neighbour (" + S(nx[k]) + "," + S(ny[k]) + ") of segment " + S(it->second.seg) + " was complete (event " +
                                     S((long long)it->second.done) + ")");
                    break;
                }
            }
            if (cx.fail.failed()) break;
        }
    }
    if (complete) {
        cx.extents["tg" + S(std::get<2>(key)) + ":" + S(W) + "x" + S(H)]++;
        std::string sig = S(W) + "x" + S(H) + ":";
        uint64_t hsh = 1469598103934665603ULL;
        for (auto &kv : p.seg_sbs) { hsh = (hsh ^ kv.first) * 1099511628211ULL; for (uint32_t k : kv.second) hsh = (hsh ^ k) * 1099511628211ULL; hsh = (hsh ^ 0xFFFFFFFFu) * 1099511628211ULL; }
        sig += S((long long)(hsh >> 1));
        auto it = cx.shapes.find(sig);
        if (it == cx.shapes.end()) cx.shapes[sig] = {S(W) + "x" + S(H) + " " + crosscheck_shape(p), 1};
        else it->second.second++;
    }
}
static int mode_trace(const char *file, bool partial) {
    FILE *f = fopen(file, "r");
    if (!f) { printf("{\"events\":0,\"pictures\":0,\"what\":\"cannot open trace\"}\n"); return 2; }
    TraceCtx cx; cx.partial = partial;
    char     line[256];
    uint64_t ev = 0;
    long     bad_lines = 0;
    while (fgets(line, sizeof line, f)) {
        unsigned kind, tg, seg, x, y, tid; unsigned long long pic; char pcs_s[64];
        if (sscanf(line, "%u %llu %63s %u %u %u %u %u", &kind, &pic, pcs_s, &tg, &seg, &x, &y, &tid) != 8) { bad_lines++; continue; }
        ev++;
        uint64_t pcs = strtoull(pcs_s, nullptr, 16);
        cx.pictures.insert({pcs, pic});
        if (kind == 3) {   // recode: the picture was complete (last_sb_flag) and is encoded again
            cx.restarts++;
            for (auto it = cx.live.begin(); it != cx.live.end();) {
                if (std::get<0>(it->first) == pcs && std::get<1>(it->first) == pic) { finalize_pass(cx, it->first, it->second, true); it = cx.live.erase(it); } else ++it;
            }
            continue;
        }
        auto key = std::make_tuple(pcs, (uint64_t)pic, (uint32_t)tg);
        TPass *p = &cx.live[key];
        if (cx.fail.failed()) continue;   // keep counting events only
        char id[128]; snprintf(id, sizeof id, "pcs 0x%" PRIx64 " picture %llu tile group %u", pcs, pic, tg);
        if (kind == 0) {
            if (p->seen.count(seg)) {
                if (pass_complete(*p)) {   // same picture number on a recycled PCS (a second encode in the same process): new pass
                    finalize_pass(cx, key, *p, true); cx.reopened++; cx.live.erase(key); p = &cx.live[key];
                } else { cx.fail = mkfail("segment-twice", std::string(id) + ": segment " + S(seg) + " started a second time (event " + S((long long)ev) + ")"); continue; }
            }
            p->seen.insert(seg); p->open[seg] = -1; p->seg_sbs[seg];
        } else if (kind == 1) {
            auto o = p->open.find(seg);
            if (o == p->open.end()) { cx.fail = mkfail("sb-outside-segment", std::string(id) + ": SB (" + S(x) + "," + S(y) + ") logged for segment " + S(seg) + " which is not in progress (event " + S((long long)ev) + ")"); continue; }
            if (o->second >= 0) p->sbs[(uint32_t)o->second].done = ev;
            uint32_t k = (uint32_t)y << 16 | (uint32_t)x;
            if (p->sbs.count(k)) { cx.fail = mkfail("sb-twice", std::string(id) + ": SB (" + S(x) + "," + S(y) + ") visited a second time (segment " + S(seg) + ", first by segment " + S(p->sbs[k].seg) + ", event " + S((long long)ev) + ")"); continue; }
            TSb sb; sb.visit = ev; sb.seg = seg; p->sbs[k] = sb; o->second = (int64_t)k;
            p->seg_sbs[seg].push_back(k);
            p->maxx = std::max(p->maxx, (uint32_t)x); p->maxy = std::max(p->maxy, (uint32_t)y);
            cx.sbs++;
        } else if (kind == 2) {
            auto o = p->open.find(seg);
            if (o == p->open.end()) { cx.fail = mkfail("finish-outside-segment", std::string(id) + ": segment " + S(seg) + " finished without being in progress (event " + S((long long)ev) + ")"); continue; }
            if (o->second >= 0) p->sbs[(uint32_t)o->second].done = ev;
            p->open.erase(o);
        } else bad_lines++;
    }
    fclose(f);
    bool truncated = ev >= (1u << 24);   // the hook stops recording there
    for (auto &kv : cx.live) finalize_pass(cx, kv.first, kv.second, !(partial || truncated));
    long nomatch = 0;
    std::string cross = "[";
    { size_t i = 0; for (auto &kv : cx.shapes) { if (kv.second.first.find("no-match") != std::string::npos) nomatch++; if (i < 40) cross += std::string(i ? "," : "") + "{\"shape\":\"" + jesc(kv.second.first) + "\",\"passes\":" + S(kv.second.second) + "}"; i++; } }
    cross += "]";
    std::string ext = "{";
    { size_t i = 0; for (auto &kv : cx.extents) { if (i < 40) ext += std::string(i ? "," : "") + "\"" + kv.first + "\":" + S(kv.second); i++; } }
    ext += "}";
    printf("{\"events\":%llu,\"pictures\":%zu,\"passes\":%ld,\"sbs\":%ld,\"restarts\":%ld,\"reopened\":%ld,\"incomplete_passes\":%ld,\"truncated\":%s,\"bad_lines\":%ld,\"extents\":%s,"
           "\"walk_crosscheck\":%s,\"walk_crosscheck_nomatch\":%ld,\"key\":\"%s\",\"what\":\"%s\"}\n",
           (unsigned long long)ev, cx.pictures.size(), cx.passes, cx.sbs, cx.restarts, cx.reopened, cx.incomplete, truncated ? "true" : "false", bad_lines, ext.c_str(), cross.c_str(), nomatch,
           jesc(cx.fail.key).c_str(), jesc(cx.fail.what).c_str());
    return cx.fail.failed() ? 1 : 0;
}

int main(int argc, char **argv) {
    const char *mode = argc > 1 ? argv[1] : "";
    for (int i = 2; i < argc; i++) if (!strncmp(argv[i], "shard=", 6)) {
        if (sscanf(argv[i] + 6, "%ld/%ld", &g_shard_i, &g_shard_n) != 2 || g_shard_n < 1 || g_shard_i < 0 || g_shard_i >= g_shard_n) { fprintf(stderr, "bad shard\n"); return 2; }
        for (int j = i; j + 1 < argc; j++) argv[j] = argv[j + 1]; argc--; i--; }
    for (int i = 2; i < argc; i++) if (!strcmp(argv[i], "known=1wide")) { g_known_1wide = 1; for (int j = i; j + 1 < argc; j++) argv[j] = argv[j + 1]; argc--; i--; }
    setvbuf(stdout, nullptr, _IOLBF, 0);
    __sanitizer_set_death_callback(on_asan_death);
    signal(SIGABRT, on_sigabrt);
    if (!strcmp(mode, "trace") && argc > 2) return mode_trace(argv[2], argc > 3 && !strcmp(argv[3], "partial"));
    pool_reset();
    if (!strcmp(mode, "exhaustive")) {
        bool thorough = argc > 2 && !strcmp(argv[2], "thorough");
        g_failfile = argc > 3 ? argv[3] : nullptr;
        return mode_exhaustive(thorough, g_failfile);
    }
    if (!strcmp(mode, "gen") && argc > 2) { g_failfile = argv[2]; return mode_gen(argv[2], !(argc > 3 && !strcmp(argv[3], "nosweep"))); }
    if (!strcmp(mode, "replay") && argc > 2) return mode_replay(argv[2]);
    fprintf(stderr, "usage: seg exhaustive [quick|thorough] [failfile] | seg gen <failfile> [nosweep] | seg trace <file> [partial] | seg replay <file>\n");
    return 2;
}
