/* C24 harness: C interface to the library objects (see seg_shim.c) */
#ifndef SEG_SHIM_H
#define SEG_SHIM_H
#include <stdint.h>
#ifdef __cplusplus
extern "C" {
#endif
typedef struct SegView {
    uint32_t        band_count, row_count, ttl, sb_band_count, sb_row_count, max_band, max_row, max_total;
    const uint16_t *x_start, *y_start, *valid_sb_count;
    const uint8_t * dep;
} SegView;
void *   segs_new(uint32_t cols, uint32_t rows);
void     segs_delete(void *s);
void     segs_init(void *s, uint32_t cols, uint32_t rows, uint32_t w, uint32_t h);
void     segs_view(void *s, SegView *v);
void     segs_row(void *s, uint32_t row, uint32_t *start, uint32_t *end, uint32_t *cur);
void *   pool_new(uint32_t objs, uint32_t producers, uint32_t consumers);
void     pool_delete(void *pool);
void *   pool_producer(void *pool, uint32_t i);
void *   pool_consumer(void *pool, uint32_t i);
uint32_t pool_pending(void *pool);
uint32_t pool_empties(void *pool);
void     pool_post_mdc(void *producer_fifo, uint16_t tile_group, void *pcs_tag);
void *   task_take(void *consumer_fifo);
void     task_info(void *wrapper, uint32_t *input_type, int *row, uint32_t *tile_group, void **pcs_tag);
void     task_release(void *wrapper);
int      task_assign(void *segs, uint16_t *seg_in_out, void *wrapper, void *producer_fifo);
extern const uint32_t SEG_TASK_MDC, SEG_TASK_ENCDEC, SEG_TASK_CONTINUE;
#ifdef __cplusplus
}
#endif
#endif
