#!/bin/bash
# MANIFEST.setup_cmd: build every library variant and every worker from /repo's current tree, offline.
cd "$(dirname "$0")"
set -e
mkdir -p evidence replays
# variants are independent: build them concurrently (ninja shares the 16 cores)
python3 lib/build.py rel &
python3 lib/build.py asan &
wait
python3 lib/build.py stp st &
python3 lib/build.py tsan fz &
wait
python3 lib/workers.py rel asan tsan
echo setup-done
