#!/bin/bash
# MANIFEST.setup_cmd: build every library variant, worker and harness from /repo's current tree, offline.
# (Checks rebuild incrementally on their own; this only pays the cold cost once.)
cd "$(dirname "$0")"
mkdir -p evidence replays
# variants are independent: build them concurrently (ninja shares the 16 cores)
python3 lib/build.py rel &
python3 lib/build.py asan &
python3 lib/build.py st &
wait
python3 lib/build.py stp &
python3 lib/build.py fz &
wait
python3 lib/workers.py rel asan || exit 1
python3-vt - <<'PY' || exit 1
import sys, os
sys.path.insert(0, 'lib'); sys.path.insert(0, '.')
import importlib
for m in ('c07', 'c10', 'c22', 'c23', 'c24', 'c25'):
    mod = importlib.import_module('props.' + m)
    try:
        if m == 'c10':
            import harness; harness.build_fuzz('fz_dec', ['fuzz/fz_dec.cc'])
        elif m == 'c22':
            import harness; harness.build('reldist', 'stp', ['reldist.c'])
        else:
            mod.prepare('quick')
        if m == 'c25':
            importlib.import_module('props.c16').prepare()
        print('harness ok', m)
    except Exception as e:
        print('harness FAILED', m, e); sys.exit(1)
PY
echo setup-done
