"""C05 — output independent of logical_processors / unpin / target_socket."""
from hypothesis import strategies as st
from props.common import svt, gens, summarize_cfg, differential, run_status

ID = "C05"
LEVEL = "exploration"
TAG_KEYS = True   # violation keys get the configuration feature tag appended (engine.feature_tag)
RULE = ("Hypothesis draws (configuration, content, N) with pictures of >=2 SB rows/cols and a set of 3-4 thread settings from logical_processors in "
        "{1,2,3,4,6,8,12,16,0} x unpin {0,1} x target_socket {-1,0}; each setting is encoded in its own process and packets (bytes+metadata) and recon must "
        "equal the logical_processors=1 run. pic_based_rate_est=1 is excluded (documented as lp-1-only). non-trivial = >=2 compared settings completed, the "
        "stream has inter frames, and the settings differ in lp; distinct = (config, content, N, settings) hash.")
ASSUMPTIONS = ["each run is deterministic by itself (C04 examines that separately; on a mismatch both sides are re-run to tell the difference)"]
CONFIRM_NEED = 2


def variants(tier):
    return ["rel"]


def budget(tier):
    if tier == "thorough":
        return dict(shards=8, examples=300, seconds=1200, shrink_seconds=300, min_nontrivial=40)
    return dict(shards=8, examples=30, seconds=75, shrink_seconds=60, min_nontrivial=6)


def strategy(tier):
    @st.composite
    def s(draw):
        c, n, tp = draw(gens.cfg(max_dim=320 if tier == "thorough" else 256, min_dim=130, frames=(3, 16), allow_twopass=False, allow_rc=False, exclude=("AQ1", "GRAIN", "SRES", "2PASS", "16BP"), lps=(1,),
                                 presets=(8, 8, 7, 6, 5, 4), slow_p=0))
        c.pop("pic_based_rate_est", None)
        if c.get("enable_overlays") and draw(st.booleans()):
            n = draw(st.integers(17, 22))       # long enough for an alt-ref + overlay pair at hierarchical level 4
            c["enc_mode"] = max(c["enc_mode"], 7)
        cnt = draw(gens.content(kinds=(2, 3, 5, 7, 4)))
        lps = draw(st.lists(st.sampled_from([2, 3, 4, 6, 8, 12, 16, 0]), min_size=2, max_size=3, unique=True))
        settings = [dict(logical_processors=lp, unpin=draw(st.sampled_from([0, 1])), target_socket=draw(st.sampled_from([-1, -1, 0]))) for lp in lps]
        case = gens.case_from(c, n, tp, cnt)
        case["settings"] = settings
        return case
    return s()


def run_case(case, tier):
    base = {k: v for k, v in case.items() if k != "settings"}
    vs = [("lp1", dict(base, cfg=dict(base["cfg"], logical_processors=1)))]
    for s in case["settings"]:
        vs.append(("lp%d_unpin%d_sock%d" % (s["logical_processors"], s["unpin"], s["target_socket"]), dict(base, cfg=dict(base["cfg"], **s))))
    viol, statuses, results = differential(base, vs, "threads-" + ("cqp" if not base["cfg"].get("rate_control_mode") else "rc%d" % base["cfg"]["rate_control_mode"]), pid=ID)
    try:
        ok = [n for n, s in statuses.items() if s == "ok"]
        r0 = results[0][1]
        inter = any(e["pic_type"] in (0, 1, 4) for e, _ in r0.packets()) if statuses["lp1"] == "ok" else False
        inc = None
        if statuses["lp1"] != "ok" and statuses["lp1"] != "rejected":
            inc = "reference run failed: %s" % statuses["lp1"]
        classes = ["n_ok%d" % len(ok)] + [s.split(":")[0] for s in statuses.values() if s != "ok"]
        sample = summarize_cfg(base)
        sample["settings"] = case["settings"]
        sample["observed"] = statuses
        return dict(violations=viol, nontrivial=len(ok) >= 3 and inter, dkey=svt.case_hash(case), classes=classes, sample=sample, inconclusive=inc)
    finally:
        for _, r in results:
            r.cleanup()
