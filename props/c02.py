"""C02 — every packet is one well-formed temporal unit (independent spec parser)."""
import os
from hypothesis import strategies as st
from props.common import svt, gens, enc_failure_info, summarize_cfg
import av1parse as ap, streaminfo

ID = "C02"
LEVEL = "exploration"
TAG_KEYS = True   # violation keys get the configuration feature tag appended (engine.feature_tag)
RULE = ("Hypothesis draws (configuration, content, N) biased to GOP shapes with hidden frames / show-existing / several key frames; every "
        "packet is parsed with a parser written from the AV1 specification: TD first and only once, OBU header bits, leb128 sizes tiling the "
        "packet, allowed OBU types, exactly one displayed frame and it is last, sequence header before the first frame and in every TU "
        "that carries a key frame, all sequence headers byte-identical and equal to svt_av1_enc_stream_header, tile sizes tiling the "
        "tile-group payload, pic_type/flags agreement. non-trivial = stream has (>=1 packet with hidden frames AND >=1 show-existing "
        "packet) or >=2 key frames; distinct = (config, content, N) hash.")
ASSUMPTIONS = ["the parser (lib/av1parse.py) implements AV1 spec sections 5.3-5.12 correctly; it is cross-validated by parsing libaom-produced streams and by its own tile-size consistency check"]

ALLOWED = {ap.OBU_SEQUENCE_HEADER, ap.OBU_TEMPORAL_DELIMITER, ap.OBU_FRAME_HEADER, ap.OBU_TILE_GROUP, ap.OBU_METADATA,
           ap.OBU_FRAME, ap.OBU_REDUNDANT_FRAME_HEADER, ap.OBU_PADDING}


def variants(tier):
    return ["rel"]


def budget(tier):
    if tier == "thorough":
        return dict(shards=16, examples=500, seconds=900, shrink_seconds=200, min_nontrivial=50)
    return dict(shards=16, examples=60, seconds=60, shrink_seconds=45, min_nontrivial=10)


def strategy(tier):
    thorough = tier == "thorough"
    @st.composite
    def s(draw):
        c, n, tp = draw(gens.cfg(max_dim=208 if thorough else 144, frames=(1, 45 if thorough else 20), allow_twopass=thorough,
                                 slow_p=10 if thorough else 3, presets=(8, 8, 8, 7, 6, 5), exclude=("GRAIN", "2PASS", "MINQ0")))
        # bias the GOP shape
        if draw(st.booleans()):
            c["intra_period_length"] = draw(st.sampled_from([0, 1, 2, 3, 4, 5, 7, 8, 9, 15]))
        if draw(st.integers(0, 3)) == 0:
            c["enable_overlays"] = 1
        cnt = draw(gens.content())
        return gens.case_from(c, n, tp, cnt)
    return s()


def check_packets(r):
    """returns (violations, StreamInfo|None, classes)"""
    viol = []
    pk = r.packets()
    packets = [b for _, b in pk]
    si = streaminfo.analyze(packets)
    if si.unsupported:
        return None, si, ["parser_unsupported"]
    if si.error:
        k, msg = si.error
        viol.append(dict(key="C02|syntax|" + msg.split(" at offset")[0].split("(")[0].strip()[:50].replace(" ", "_"), what="packet %d: %s" % (k, msg)))
        return viol, si, []
    sh = bytes.fromhex(r.s.get("stream_header", ""))
    first_frame_seen = False
    seq_seen = False
    for k, ((e, b), tu) in enumerate(zip(pk, si.tus)):
        obus = tu["obus"]
        if not obus or obus[0].type != ap.OBU_TEMPORAL_DELIMITER:
            viol.append(dict(key="C02|no-leading-TD", what="packet %d does not start with a temporal delimiter (types %s)" % (k, [o.type for o in obus])))
            continue
        if obus[0].size != 0 or not obus[0].has_size:
            viol.append(dict(key="C02|TD-size", what="packet %d: temporal delimiter has size %d / has_size %d" % (k, obus[0].size, obus[0].has_size)))
        if sum(1 for o in obus if o.type == ap.OBU_TEMPORAL_DELIMITER) != 1:
            viol.append(dict(key="C02|multiple-TD", what="packet %d has several temporal delimiters" % k))
        for i, o in enumerate(obus):
            if o.reserved or o.ext_reserved:
                viol.append(dict(key="C02|reserved-bit", what="packet %d obu %d reserved bit set" % (k, i)))
            if o.type not in ALLOWED:
                viol.append(dict(key="C02|obu-type", what="packet %d obu %d has type %d" % (k, i, o.type)))
            if not o.has_size and i != len(obus) - 1:
                viol.append(dict(key="C02|no-size-field", what="packet %d obu %d lacks a size field but is not last" % (k, i)))
        if tu["n_displayed"] != 1:
            viol.append(dict(key="C02|displayed-count", what="packet %d carries %d displayed frames (frames: %s)" % (
                k, tu["n_displayed"], [(h["frame_type"], h.get("show_frame"), h["show_existing_frame"]) for h in tu["frames"]])))
        elif tu["frames"] and tu["frames"][-1] is not tu["displayed"]:
            viol.append(dict(key="C02|displayed-not-last", what="packet %d: the displayed frame is not the last frame of the TU" % k))
        # sequence header placement
        idx_first_frame = None
        idx_seq = None
        key_positions = []
        for i, o in enumerate(obus):
            if o.type == ap.OBU_SEQUENCE_HEADER and idx_seq is None:
                idx_seq = i
            if o.type in (ap.OBU_FRAME, ap.OBU_FRAME_HEADER) and o.header is not None:
                if idx_first_frame is None:
                    idx_first_frame = i
                if not o.header["show_existing_frame"] and o.header["frame_type"] == ap.KEY_FRAME:
                    key_positions.append(i)
        if idx_first_frame is not None and not first_frame_seen:
            first_frame_seen = True
            if idx_seq is None or idx_seq > idx_first_frame:
                viol.append(dict(key="C02|seq-missing-at-start", what="no sequence header before the first frame (packet %d)" % k))
        for kp in key_positions:
            if idx_seq is None or idx_seq > kp:
                viol.append(dict(key="C02|seq-missing-at-key", what="packet %d carries a key frame without a preceding sequence header" % k))
        # metadata agreement
        d = tu["displayed"]
        if d is not None:
            ft = d["frame_type"]
            pt = e["pic_type"]
            if (pt == 3) != (ft == ap.KEY_FRAME):
                viol.append(dict(key="C02|pic_type-key", what="packet %d pic_type=%d but displayed frame_type=%d" % (k, pt, ft)))
            elif pt == 2 and ft not in (ap.KEY_FRAME, ap.INTRA_ONLY_FRAME):
                viol.append(dict(key="C02|pic_type-intra", what="packet %d pic_type=INTRA_ONLY but displayed frame_type=%d" % (k, ft)))
            elif pt in (0, 1) and ft not in (ap.INTER_FRAME, ap.SWITCH_FRAME):
                viol.append(dict(key="C02|pic_type-inter", what="packet %d pic_type=%d (inter) but displayed frame_type=%d" % (k, pt, ft)))
            elif pt not in (0, 1, 2, 3, 4):
                viol.append(dict(key="C02|pic_type-unknown", what="packet %d pic_type=%d" % (k, pt)))
            se = bool(d["show_existing_frame"])
            if bool(e["flags"] & 2) != se:
                viol.append(dict(key="C02|flag-show-ext", what="packet %d flags=%#x but show_existing=%d" % (k, e["flags"], se)))
        if not e["flags"] & 4:
            viol.append(dict(key="C02|flag-has-td", what="packet %d lacks EB_BUFFERFLAG_HAS_TD" % k))
    raws = set(b for _, b in si.seq_raws)
    if len(raws) > 1:
        viol.append(dict(key="C02|seq-differs", what="sequence headers differ between packets %s" % sorted(set(k for k, _ in si.seq_raws))[:6]))
    if raws and sh and sh not in raws:
        inband = sorted(raws)[0]
        try:
            a = ap.Parser().parse_sequence_header(inband[2:])
            b = ap.Parser().parse_sequence_header(sh[2:])
            diff = sorted(k for k in a if k != "ops" and a.get(k) != b.get(k))
        except Exception:
            diff = ["unparsable"]
        LATE = {"enable_filter_intra", "enable_masked_compound", "enable_warped_motion", "enable_jnt_comp", "enable_cdef",
                "enable_restoration", "film_grain_params_present", "enable_interintra_compound", "enable_intra_edge_filter",
                "enable_superres", "seq_force_screen_content_tools", "seq_force_integer_mv", "enable_dual_filter"}
        tag = "late-derived-tool-flags" if diff and set(diff) <= LATE else ",".join(diff)[:80]
        viol.append(dict(key="C02|seq-vs-stream-header|" + tag, what="in-band sequence header %s != svt_av1_enc_stream_header %s (fields: %s)" % (inband.hex(), sh.hex(), diff)))
    if not sh and r.s.get("rc_stream_header") == 0:
        viol.append(dict(key="C02|stream-header-empty", what="svt_av1_enc_stream_header returned an empty buffer"))
    nkey = sum(1 for h in si.frames if h["frame_type"] == ap.KEY_FRAME)
    hidden_pk = sum(1 for tu in si.tus if len([h for h in tu["frames"] if not h["show_existing_frame"]]) > 1)
    se_pk = sum(1 for tu in si.tus if tu["displayed"] is not None and tu["displayed"]["show_existing_frame"])
    classes = []
    if hidden_pk:
        classes.append("hidden_frames")
    if se_pk:
        classes.append("show_existing")
    if nkey >= 2:
        classes.append("multi_key")
    if any(h["TileCols"] * h["TileRows"] > 1 for h in si.frames):
        classes.append("multi_tile")
    if any(h["frame_type"] == ap.INTRA_ONLY_FRAME for h in si.frames):
        classes.append("intra_only_frame")
    si.nontrivial = bool((hidden_pk and se_pk) or nkey >= 2)
    return viol, si, classes


def run_case(case, tier):
    r = svt.run_encode(case, "rel", timeout=240)
    try:
        inc = enc_failure_info(r)
        if inc:
            return dict(violations=[], nontrivial=False, dkey=None, classes=["encode_failed"], sample=summarize_cfg(case), inconclusive=inc)
        if not r.accepted():
            return dict(violations=[], nontrivial=False, dkey=None, classes=["rejected_config"], sample=None)
        viol, si, classes = check_packets(r)
        if viol is None:
            return dict(violations=[], nontrivial=False, dkey=None, classes=classes, sample=None, inconclusive="parser: unsupported syntax %s" % (si.unsupported,))
        sample = summarize_cfg(case)
        sample["observed"] = dict(packets=[[ap.OBU_NAMES.get(o.type, o.type) for o in tu["obus"]] for tu in si.tus][:12])
        return dict(violations=viol, nontrivial=getattr(si, "nontrivial", False), dkey=svt.case_hash(case), classes=classes, sample=sample)
    finally:
        r.cleanup()
