"""C16 — allocation / OS-object creation failures are reported and unwound cleanly (k-th failure injection through --wrap shims)."""
import argparse, concurrent.futures as cf, json, os, random, re, shutil, subprocess, sys, time
from props.common import svt, engine, build
import harness

ID = "C16"
LEVEL = "fault_enumeration"
RULE = ("Static harness workers/faultinj linked against the real library archive with -Wl,--wrap=malloc,calloc,realloc,posix_memalign,pthread_create,sem_init,pthread_mutex_init,"
        "pthread_cond_init. A clean run counts the calls K_phase the API-calling thread makes inside each phase (encoder: init_handle, set_parameter, init on the smallest accepted configuration "
        "64x64 / 1 logical processor / flat prediction structure, plus lp=4 / recon / 10-bit variants in the thorough tier; decoder: init_handle, set_parameter, init, first dec_frame with 1 and 4 "
        "threads). Each trial re-runs the session in a fresh process with exactly the k-th creation failing (NULL / ENOMEM / EAGAIN). Thorough enumerates every k of every phase (exhaustive=true); "
        "quick first traces a clean run (call site of every creation) and takes the first, middle and last k of EVERY distinct call site of every phase (about 450 sites) plus a VERIF_SEED-derived sample. Oracle per trial: the API call inside which the failure fired returns a code != "
        "EB_ErrorNone; no crash (ASan), no hang (40 s watchdog); deinit + deinit_handle return; __lsan_do_recoverable_leak_check() finds nothing; the thread count returns to its pre-session value. "
        "Failure sites are symbolised from the return addresses (static functions included). non-trivial = the injected failure actually fired inside library code; distinct = distinct "
        "(target, phase, failing site function, kind of object).")
ASSUMPTIONS = ["only creations made on the API-calling thread are counted and failed (their order is a pure function of the configuration)",
               "after a failed init the harness still calls deinit and deinit_handle, after a failed set_parameter only deinit_handle, after a failed init_handle nothing (no handle was returned)"]
WRAP = "-Wl,--wrap=malloc,--wrap=calloc,--wrap=realloc,--wrap=posix_memalign,--wrap=pthread_create,--wrap=sem_init,--wrap=pthread_mutex_init,--wrap=pthread_cond_init"
PHASES = {"enc": ["init_handle", "set_parameter", "init"], "dec": ["init_handle", "set_parameter", "init", "first_frame"]}


def prepare():
    exes = dict(enc=harness.build("fi_enc", "st", ["faultinj/fi_main.c"], libs=("Enc",), extra=[WRAP, "-rdynamic", "-ldl"]),
                dec=harness.build("fi_dec", "st", ["faultinj/fi_main.c"], libs=("Dec",), extra=[WRAP, "-rdynamic", "-ldl"], defines=["-DFI_DEC"]))
    wd = svt.mkwork("c16")
    r = svt.run_encode(dict(cfg=dict(source_width=64, source_height=64, enc_mode=8, logical_processors=1, recon_enabled=0), frames=2, content=[3, 1, 50, 1, 0]), "rel", timeout=120)
    tu = os.path.join(wd, "s.tu")
    svt.write_tu([b for _, b in r.packets()], tu)
    r.cleanup()
    return dict(exes=exes, wd=wd, tu=tu)


def run_fi(ctx, target, args, env):
    e = dict(os.environ)
    e.update(SVT_LOG="-1", ASAN_OPTIONS="detect_leaks=1:allocator_may_return_null=1:malloc_context_size=8:exitcode=66", LSAN_OPTIONS="exitcode=0")
    e.update(env or {})
    cmd = [ctx["exes"][target], target] + [str(a) for a in args]
    if target == "dec" and args and args[0] == "fail":
        cmd.append(ctx["tu"])
    if target == "dec" and args and args[0] == "count":
        cmd += ["-", "-", ctx["tu"]]     # the counting run also decodes the first frame (phase 3)
    try:
        p = subprocess.run(cmd, env=e, stdout=subprocess.PIPE, stderr=subprocess.PIPE, timeout=90)
        code, out, err = p.returncode, p.stdout.decode("latin1", "replace"), p.stderr.decode("latin1", "replace")
    except subprocess.TimeoutExpired:
        code, out, err = -999, "", ""
    j = None
    for ln in reversed(out.strip().splitlines()):
        if ln.startswith("{"):
            try:
                j = json.loads(ln)
                break
            except Exception:
                pass
    return code, j, err


def judge(target, phase, code, j, err):
    """returns (fired, symptom | None, pcs)"""
    if j and j.get("hang"):
        return bool(j.get("fired")), "hang:" + str(j["hang"]), j.get("pcs") or []
    if j is None or not j.get("done"):
        san = svt.parse_sanitizer(err)
        fr = san[0]["frame"] if san else "?"
        kind = san[0]["kind"].split(":")[-1] if san else ("timeout" if code == -999 else "exit%s" % code)
        return True, "crash:%s@%s" % (kind, fr), []
    if not j.get("fired"):
        return False, None, []
    pcs = j.get("pcs") or []
    if j["rc"][phase] == 0:
        return True, "error-swallowed", pcs
    if "AddressSanitizer" in err and "ERROR: AddressSanitizer" in err:
        san = svt.parse_sanitizer(err)
        return True, "crash:%s@%s" % (san[0]["kind"].split(":")[-1], san[0]["frame"]) if san else "crash:?", pcs
    if j.get("leak"):
        site = "?"
        m = re.search(r"(?:Direct|Indirect) leak of.*?\n((?:\s+#\d+ .*\n)+)", err)
        if m:
            for fm in re.finditer(r"#\d+ 0x[0-9a-f]+ in (\S+) (\S+)", m.group(1)):
                if "/Source/" in fm.group(2):
                    site = fm.group(1)
                    break
        return True, "leak:" + site, pcs
    if j.get("threads_after", 0) > j.get("threads_before", 0):
        return True, "threads-left:%d" % (j["threads_after"] - j["threads_before"]), pcs
    return True, None, pcs


def symbolise(exe, pcs):
    pcs = sorted(set(pcs))
    if not pcs:
        return {}
    p = subprocess.run(["llvm-symbolizer", "--obj=" + exe, "-f", "-s", "--no-inlines"], input="\n".join("0x%x" % x for x in pcs).encode(), stdout=subprocess.PIPE, stderr=subprocess.DEVNULL)
    blocks = p.stdout.decode().strip().split("\n\n")
    out = {}
    for pc, b in zip(pcs, blocks):
        out[pc] = b.strip().splitlines()[0] if b.strip() else "?"
    return out


def trace_sites(ctx, target, env):
    """{phase: {site(pc pair): [k...]}} from one traced clean run"""
    tf = os.path.join(ctx["wd"], "trace-%s-%d.txt" % (target, abs(hash(str(sorted((env or {}).items())))) % 100000))
    e = dict(env or {}, FI_TRACE=tf)
    run_fi(ctx, target, ["count"], e)
    sites = {}
    try:
        for ln in open(tf):
            ph, k, kind, pc, pc2 = ln.split()
            sites.setdefault(int(ph), {}).setdefault((pc, pc2), []).append(int(k))
    except Exception:
        pass
    return sites


def plan_by_site(sites, counts, tier, seed, target):
    """quick tier: first, middle and last k of every distinct creation site of every phase (full site coverage), plus a seeded sample"""
    rnd = random.Random(seed * 1000003 + (1 if target == "dec" else 0))
    trials = set()
    for ph, K in enumerate(counts):
        if K <= 0:
            continue
        for site, ks in (sites.get(ph) or {}).items():
            trials.update((ph, k) for k in {ks[0], ks[len(ks) // 2], ks[-1]})
        trials.update((ph, rnd.randint(1, K)) for _ in range(40))
    return sorted(trials)


def plan(counts, tier, seed, target):
    rnd = random.Random(seed * 1000003 + (1 if target == "dec" else 0))
    trials = []
    for ph, K in enumerate(counts):
        if K <= 0:
            continue
        if tier == "thorough":
            ks = range(1, K + 1)
        else:
            ks = set(range(1, min(K, 12) + 1)) | set(range(max(1, K - 11), K + 1))
            ks |= {1 + (K - 1) * i // 39 for i in range(40)}
            ks |= {rnd.randint(1, K) for _ in range(70)}
        trials += [(ph, k) for k in sorted(ks)]
    return trials


def main(argv):
    ap = argparse.ArgumentParser()
    ap.add_argument("--tier", default=os.environ.get("VERIF_TIER", "quick"))
    ap.add_argument("--replay", default=None)
    ap.add_argument("--seed", type=int, default=int(os.environ.get("VERIF_SEED", "1") or 1))
    ap.add_argument("--collect", action="store_true")
    a = ap.parse_args(argv)
    tier = a.tier if a.tier in ("quick", "thorough") else "quick"
    t0 = time.time()
    known = engine.load_known(ID)
    try:
        ctx = prepare()
    except build.BuildFailed as e:
        print("BUILD-FAILED", e)
        return 2

    def one(target, env, ph, k):
        code, j, err = run_fi(ctx, target, ["fail", ph, k], env)
        fired, sym, pcs = judge(target, ph, code, j, err)
        return dict(target=target, env=env, phase=ph, k=k, fired=fired, symptom=sym, pc=(pcs[0] if pcs else None), kind=(j or {}).get("kind"))

    if a.replay:
        c = json.load(open(a.replay))["case"]
        r = one(c["target"], c.get("env") or {}, c["phase"], c["k"])
        names = symbolise(ctx["exes"][c["target"]], [r["pc"]] if r["pc"] else [])
        site = names.get(r["pc"], "?")
        key = "C16|%s|%s|%s|%s" % (c["target"], PHASES[c["target"]][c["phase"]], site, r["symptom"]) if r["symptom"] else None
        print(json.dumps(dict(result=r, key=key)))
        shutil.rmtree(ctx["wd"], ignore_errors=True)
        if key and engine.key_matches(known, key):
            print("KNOWN-FINDING: property=%s %s" % (ID, key))
            return 0
        if key:
            print("VIOLATION property=%s replay=%s" % (ID, a.replay))
            return 1
        return 0

    configs = [("enc", {}), ("dec", {})]
    if tier == "thorough":
        configs += [("enc", {"FI_LP": "4", "FI_RECON": "1"}), ("enc", {"FI_10BIT": "1"}), ("dec", {"FI_DEC_THREADS": "4"})]
    jobs, counts_all, nsites_planned = [], {}, [0]
    for target, env in configs:
        code, j, err = run_fi(ctx, target, ["count"], env)
        if not j or not j.get("done"):
            print("INCONCLUSIVE: counting run failed for %s %s: exit %s %s" % (target, env, code, err[-300:]))
            return 2
        counts_all["%s %s" % (target, env)] = j["calls"]
        if tier == "thorough" and not env:
            pl = plan(j["calls"], "thorough", a.seed, target)
        else:
            sites = trace_sites(ctx, target, env)
            nsites_planned[0] += sum(len(v) for v in sites.values())
            pl = plan_by_site(sites, j["calls"], tier, a.seed, target) if sites else plan(j["calls"], "quick", a.seed, target)
        for ph, k in pl:
            jobs.append((target, env, ph, k))
    with cf.ThreadPoolExecutor(max_workers=16) as ex:
        results = list(ex.map(lambda t: one(*t), jobs))
    names = {}
    for target in ("enc", "dec"):
        names[target] = symbolise(ctx["exes"][target], [r["pc"] for r in results if r["target"] == target and r["pc"]])
    fired = [r for r in results if r["fired"]]
    sites = set()
    by_key = {}
    for r in fired:
        site = names[r["target"]].get(r["pc"], "?") if r["pc"] else "?"
        r["site"] = site
        sites.add((r["target"], r["phase"], site, r["kind"]))
        if r["symptom"]:
            key = "C16|%s|%s|%s|%s" % (r["target"], PHASES[r["target"]][r["phase"]], site, r["symptom"])
            by_key.setdefault(key, []).append(r)
    viol, known_seen = {}, {}
    for key, lst in sorted(by_key.items()):
        if engine.key_matches(known, key):
            known_seen[key] = lst
            continue
        r = lst[0]
        if a.collect:
            viol[key] = lst
            continue
        # confirm 2 more times
        ok = 0
        for _ in range(2):
            r2 = one(r["target"], r["env"], r["phase"], r["k"])
            if r2["symptom"] == r["symptom"]:
                ok += 1
        if ok == 2:
            viol[key] = lst
    symptoms = {}
    for r in fired:
        s = (r["symptom"] or "clean").split(":")[0]
        symptoms[s] = symptoms.get(s, 0) + 1
    samples = [dict(target=r["target"], phase=PHASES[r["target"]][r["phase"]], k=r["k"], kind=r["kind"], site=r.get("site"), outcome=r["symptom"] or "error returned, clean teardown") for r in fired[:: max(1, len(fired) // 8)]][:8]
    coverage = dict(evaluations=len(results), distinct_nontrivial=len(sites), rule=RULE, samples=samples, classes=dict(symptoms, fired=len(fired), not_fired=len(results) - len(fired)),
                    calls_per_phase=counts_all, creation_sites_in_trace=nsites_planned[0], exhaustive=(tier == "thorough"), known_findings_seen=sorted(known_seen), distinct_failure_keys=len(by_key))
    engine.write_evidence(ID, tier, a.seed, LEVEL, coverage, time.time() - t0, len(viol), ASSUMPTIONS)
    for k, lst in sorted(known_seen.items()):
        print("KNOWN-FINDING: property=%s %s (n=%d)" % (ID, k, len(lst)))
    print("%s tier=%s seed=%d evaluations=%d distinct_nontrivial=%d wall=%.0fs classes=%s calls=%s" % (ID, tier, a.seed, len(results), len(sites), time.time() - t0, json.dumps(coverage["classes"]), json.dumps(counts_all)))
    rc = 0
    if a.collect:
        for k, lst in sorted(viol.items()):
            print("COLLECTED %s n=%d ks=%s" % (k, len(lst), [x["k"] for x in lst][:6]))
        if os.environ.get("VERIF_COLLECT_OUT"):
            json.dump({k: dict(n=len(v), what=k, case=dict(target=v[0]["target"], env=v[0]["env"], phase=v[0]["phase"], k=v[0]["k"])) for k, v in viol.items()}, open(os.environ["VERIF_COLLECT_OUT"], "w"), indent=1)
    elif viol:
        for key, lst in sorted(viol.items()):
            r = lst[0]
            p = engine.write_replay(ID, dict(target=r["target"], env=r["env"], phase=r["phase"], k=r["k"]), [dict(key=key, what="k=%d (%s) in %s %s: %s" % (r["k"], r["kind"], r["target"], PHASES[r["target"]][r["phase"]], r["symptom"]))])
            print("  what: %s (first at k=%d, %d trials)" % (key, r["k"], len(lst)))
            print("VIOLATION property=%s replay=%s" % (ID, p))
        rc = 1
    shutil.rmtree(ctx["wd"], ignore_errors=True)
    if rc == 0 and len(sites) < 2:
        print("INCONCLUSIVE: fewer than 2 distinct failure sites exercised")
        return 2
    return rc
