"""C23 — system resource manager: safe hand-out, order, wake-ups, shutdown (real SRM + real pthreads under a harness-OWNED schedule)."""
import json, os, random
from props.common import svt, engine, build
import inproc, harness

ID = "C23"
LEVEL = "exploration"
RULE = ("(a) rapidcheck generates an SRM shape (1-6 objects, 1-3 producer fifos, 1-3 consumer fifos), one program per thread over {get_empty, inc_live_count(n), post_full, get_full blocking / "
        "non-blocking, release x m, release_disable/enable, shutdown} respecting the preconditions the real callers respect, and a schedule vector. The programs run on the REAL "
        "EbSystemResourceManager.c + EbThreads.c with real pthreads serialised by a token: every svt_post/block_on_semaphore and svt_block_on/release_mutex is a schedule point (hook H1 "
        "callback); the harness shadows semaphore counts and mutex owners, so it only runs enabled threads and recognises 'no thread enabled' as deadlock. rapidcheck shrinks programs and schedule "
        "together. Oracle = explicit reference model checked after every step: single holder, conservation (no object lost/duplicated), per-consumer delivery in posting order, a blocked get "
        "while the model says an object is available and everyone else is idle = lost wake-up, return to the empty pool exactly when the live count reaches 0 with release enabled, every blocked "
        "consumer returns after svt_shutdown_process and nothing is delivered after it; plus a white-box snapshot of the real queues vs the model. "
        "(b) H2 event traces recorded from real multi-threaded encodes (generated configurations) are validated against the same invariants. non-trivial = >= 1 schedule point with >= 2 enabled threads "
        "AND >= 1 blocking get that really blocked; distinct = FNV of the case text.")
ASSUMPTIONS = ["bounded shapes (<= 6 objects, 3+3 fifos, one SRM per case)", "programs follow the callers' discipline (an object is posted once by the thread that dequeued it; release only with a reference held; "
               "non-blocking get only on single-consumer SRMs as in EbEncHandle.c)", "the trace validator cannot see lost wake-ups (only part (a) covers them)"]
MIN_NONTRIVIAL = 100


def prepare(tier):
    exe = harness.build("srm", "st", ["srm/srm_main.cc", "srm/srm_trace.cc", "srm/srm_shim.c"], libs=("Enc",), cxx=True, extra=["-lrapidcheck"])
    return dict(exe=exe, wd=svt.mkwork("c23"), drv=svt.bins("rel")["svtdrv"])


def _trace_cases(seed, n):
    rnd = random.Random(seed * 7 + 1)
    out = []
    for i in range(n):
        out.append(dict(source_width=rnd.choice([64, 128, 192, 256, 320]), source_height=rnd.choice([64, 128, 192]), enc_mode=rnd.choice([8, 8, 7, 6, 5]),
                        logical_processors=rnd.choice([1, 2, 4, 8, 16]), hierarchical_levels=rnd.choice([0, 2, 3, 4]), tile_columns=rnd.choice([0, 0, 1]),
                        rate_control_mode=rnd.choice([0, 0, 1]), frames=rnd.choice([4, 9, 17]), seedc=rnd.randrange(1000)))
    return out


def jobs(ctx, tier, seed):
    out = []
    per = 40000 if tier == "thorough" else 2500
    for i in range(16):
        ff = os.path.join(ctx["wd"], "gen%d.json" % i)
        out.append(dict(name="gen%d" % i, kind="gen", cmd=[ctx["exe"], "gen", ff], env=dict(inproc.rc_env(engine.derive_seed(seed, i), per), ASAN_OPTIONS="detect_leaks=0", SRM_QUIET="1"),
                        fail=ff, timeout=7200))
    for i, c in enumerate(_trace_cases(seed, 12 if tier == "thorough" else 4)):
        pre = os.path.join(ctx["wd"], "tr%d" % i)
        cf = pre + ".case"
        extra = ["cfg target_bit_rate 500000"] if c["rate_control_mode"] else []
        lines = ["cfg %s %d" % (k, v) for k, v in c.items() if k not in ("frames", "seedc")] + extra + ["frames %d" % c["frames"], "content 3 %d 50 1 0" % c["seedc"], "out " + pre]
        open(cf, "w").write("\n".join(lines) + "\n")
        sh = "SVT_LOG=-1 SVT_VERIF_SRM_TRACE=%s.srm %s %s >/dev/null 2>&1; rc=$?; if [ $rc -ne 0 ]; then echo '{\"encode_exit\":'$rc'}'; exit 0; fi; %s trace %s.srm" % (pre, ctx["drv"], cf, ctx["exe"], pre)
        out.append(dict(name="trace%d" % i, kind="trace", cfg=c, cmd=["bash", "-c", sh], env=dict(ASAN_OPTIONS="detect_leaks=0", SVTDRV_MAXIDLE_S="120"), timeout=900))
    return out


def interpret(ctx, job, res):
    j = inproc.last_json(res["out"])
    viol = []
    if job["kind"] == "trace":
        if j is None or "encode_exit" in (j or {}):
            return dict(evaluations=1, nontrivial=0, classes={"trace_encode_failed": 1})
        if j.get("what"):
            viol.append(dict(key="C23|trace|" + str(j.get("key", "invariant")), what="H2 trace of a real encode %s: %s" % (job["cfg"], j["what"]), payload=None))
        return dict(evaluations=1, keys=["trace-%s" % svt.case_hash(job["cfg"])] if j.get("events", 0) > 100 else [], classes={"trace_events": j.get("events", 0), "trace_resources": j.get("resources", 0)},
                    samples=[dict(trace_of=job["cfg"], events=j.get("events"), resources=j.get("resources"))], violations=viol)
    if res["fail"]:
        try:
            f = json.loads(res["fail"].strip().splitlines()[-1])
        except Exception:
            f = dict(key="unparsable", what=res["fail"][:300], txt=None)
        # a stale 'crash' pre-record with exit 0 is not a failure (the harness writes it before risky steps)
        if not (res["exit"] == 0 and f.get("key") == "crash"):
            viol.append(dict(key="C23|" + str(f.get("key")), what=f.get("what", ""), payload=dict(txt=f["txt"]) if f.get("txt") else None))
    if res["exit"] == 3 and not viol:
        return dict(evaluations=0, nontrivial=0, inconclusive="srm harness inconsistency/watchdog (exit 3): %s" % res["err"][-300:])
    if j is None:
        if viol:
            return dict(evaluations=1, nontrivial=0, violations=viol)
        return dict(evaluations=0, nontrivial=0, inconclusive="srm harness gave no result (exit %s): %s" % (res["exit"], res["err"][-300:]))
    if res["exit"] == 1 and not viol:
        viol.append(dict(key="C23|unreported", what="gen harness exit 1 without a failure file", payload=None))
    return dict(evaluations=j["cases"], keys=j.get("keys", []), samples=j.get("samples", [])[:2], classes=dict(j.get("classes") or {}), violations=viol)


def replay(ctx, payload, tier):
    p = os.path.join(ctx["wd"], "replay.txt")
    open(p, "w").write(payload["txt"] + "\n")
    r = inproc.run_job(dict(cmd=[ctx["exe"], "replay", p], env=dict(ASAN_OPTIONS="detect_leaks=0", SRM_QUIET="1"), timeout=300))
    j = inproc.last_json(r["out"]) or {}
    if j.get("what"):
        return [dict(key="C23|" + str(j.get("key")), what=j["what"])]
    if r["exit"] not in (0, 2, 3):
        san = svt.parse_sanitizer(r["err"])
        return [dict(key="C23|crash", what=(san[0]["line"] if san else "replay exit %s" % r["exit"]))]
    return []


def main(argv):
    return inproc.main(__import__("props.c23", fromlist=["x"]), argv)
