"""C15 — teardown at any point releases every resource."""
from hypothesis import strategies as st
from props.common import svt
import api
from props import c14

ID = "C15"
LEVEL = "exploration"
RULE = ("Hypothesis draws session histories with a teardown point: encoder torn down after init_handle / after a rejected or accepted set_parameter / after init / after k "
        "sends with j packets and r recons retrieved and no EOS / after EOS fully drained; decoder after init_handle / after init / after m decoded TUs with 1-4 threads; "
        "1-4 sessions per process with varying configurations. Executed in-process by apidrv on the ASan build. Oracle: deinit + deinit_handle return (per-call deadlock "
        "signature otherwise), the number of threads in /proc/self/task returns to its pre-session value, __lsan_do_recoverable_leak_check() reports nothing after each "
        "session, no ASan error. non-trivial = teardown with >=1 picture in flight (sent, EOS not reached) or >=3 sessions in the process or a decoder session that decoded "
        ">=1 TU; distinct = program hash.")
ASSUMPTIONS = ["'does not grow' is decided by LeakSanitizer's reachability analysis at each teardown, not by heap size (glibc arenas make byte-exact heap equality a flaky oracle)",
               "decoder packets are passed in exact-size heap buffers"]
CFGS = ["source_width=64 source_height=64 enc_mode=8 logical_processors=%d recon_enabled=%d",
        "source_width=96 source_height=80 enc_mode=7 logical_processors=%d recon_enabled=%d hierarchical_levels=3",
        "source_width=64 source_height=64 enc_mode=6 logical_processors=%d recon_enabled=%d encoder_bit_depth=10",
        "source_width=128 source_height=64 enc_mode=8 logical_processors=%d recon_enabled=%d tile_columns=1 rate_control_mode=1",
        "source_width=64 source_height=64 enc_mode=5 logical_processors=%d recon_enabled=%d enable_overlays=1",
        # screen-content tools allocate per-picture side structures (intra-block-copy hash tables, palette) that only exist for pictures >= 128x128
        "source_width=128 source_height=128 enc_mode=8 logical_processors=%d recon_enabled=%d screen_content_mode=1",
        "source_width=192 source_height=128 enc_mode=6 logical_processors=%d recon_enabled=%d screen_content_mode=1 intrabc_mode=1 palette_level=1",
        "source_width=160 source_height=96 enc_mode=7 logical_processors=%d recon_enabled=%d hierarchical_levels=2 intra_period_length=3",
        "source_width=128 source_height=128 enc_mode=4 logical_processors=%d recon_enabled=%d tile_rows=1 tile_columns=1"]


def variants(tier):
    return ["asan", "rel"]


def budget(tier):
    if tier == "thorough":
        return dict(shards=16, examples=300, seconds=900, shrink_seconds=200, min_nontrivial=40)
    return dict(shards=16, examples=30, seconds=70, shrink_seconds=45, min_nontrivial=8)


@st.composite
def enc_session(draw):
    recon = draw(st.integers(0, 1))
    lp = draw(st.sampled_from([1, 2, 4]))
    point = draw(st.sampled_from(["handle", "rejected", "accepted", "init", "midstream", "midstream", "midstream", "drained"]))
    prog = ["enc_init_handle V V"]
    info = dict(kind="enc", point=point, inflight=0)
    if point == "handle":
        return prog + ["enc_deinit V", "enc_deinit_handle V"], info
    if point == "rejected":
        return prog + ["enc_cfg_reset", "enc_set_param V V source_width=64 source_height=64 " + draw(st.sampled_from(c14.INVALID)), "enc_deinit V", "enc_deinit_handle V"], info
    prog += ["enc_cfg_reset", "enc_set_param V V " + draw(st.sampled_from(CFGS)) % (lp, recon)]
    if point == "accepted":
        return prog + ["enc_deinit V", "enc_deinit_handle V"], info
    prog.append("enc_init V")
    if point == "init":
        return prog + ["enc_deinit V", "enc_deinit_handle V"], info
    n = draw(st.integers(1, 40 if point == "midstream" else 10))
    got = 0
    for k in range(n):
        prog.append("enc_send V V")
        if point == "drained" or draw(st.integers(0, 2)) == 0:
            prog += ["enc_get_packet V V 0", "enc_release V"]
            if recon:
                prog.append("enc_get_recon V V")
    if point == "drained":
        prog.append("enc_send V E")
        for k in range(n):
            if recon:
                prog.append("enc_get_recon V V")
            prog += ["enc_get_packet V V 1", "enc_release V"]
    else:
        info["inflight"] = n
        if draw(st.booleans()):
            prog.append("enc_get_packet V V 0")   # hold a packet across teardown? release it first (documented contract)
            prog.append("enc_release V")
    prog += ["enc_deinit V", "enc_deinit_handle V"]
    return prog, info


@st.composite
def dec_session(draw):
    th = draw(st.sampled_from([1, 1, 2, 4]))
    point = draw(st.sampled_from(["handle", "init", "decoded", "decoded", "decoded"]))
    prog = ["dec_init_handle V V"]
    info = dict(kind="dec", point=point, threads=th, tus=0)
    if point == "handle":
        return prog + ["dec_deinit V", "dec_deinit_handle V"], info
    prog += ["dec_set_param V V threads=%d" % th, "dec_init V"]
    if point == "decoded":
        m = draw(st.integers(1, 8))
        info["tus"] = m
        for k in range(m):
            prog.append("dec_frame V V")
            if draw(st.booleans()):
                prog.append("dec_get_picture V V V V")
    prog += ["dec_deinit V", "dec_deinit_handle V"]
    return prog, info


def strategy(tier):
    @st.composite
    def s(draw):
        ns = draw(st.sampled_from([1, 1, 2, 3, 4]))
        prog, infos = ["threads_snapshot"], []
        for _ in range(ns):
            if draw(st.integers(0, 2)) == 0:
                p, i = draw(dec_session())
                prog += ["stream @STREAM@"] + p
            else:
                p, i = draw(enc_session())
                prog += p
            prog += ["threads_snapshot", "leakcheck"]
            infos.append(i)
        return dict(prog=prog, sessions=infos)
    return s()


def prepare(tier):
    c14.prepare(tier)


def run_case(case, tier):
    if "path" not in c14._stream:
        c14.prepare(tier)
    prog = [ln.replace("@STREAM@", c14._stream.get("path", "/nonexistent")) for ln in case["prog"]]
    res = api.run_script(prog, "asan", timeout=300, env={"APIDRV_BLOCK_S": "15"})
    recs = res["recs"]
    lines = [ln for ln in prog if ln.strip()]
    viol = []
    executed = [r for r in recs if "i" in r]
    done = any("done" in r for r in recs)
    blocked = next((r for r in recs if "blocked" in r), None)
    for rep in res["san"]:
        if not rep["kind"].startswith("AddressSanitizer"):
            continue   # leaks are judged below; UBSan classes are C11's subject
        viol.append(dict(key="C15|%s|%s" % (rep["kind"], rep["frame"]), what=rep["line"] + " stack=" + ",".join(rep.get("stack", [])[:6])))
        break
    backpressure = False
    if blocked is not None and (lines[blocked["blocked"]] if blocked["blocked"] < len(lines) else "").startswith("enc_send"):
        # a send_picture that blocks because the application has not fetched its packets / recon pictures is legal back-pressure
        # (input / output pools exhausted), not a teardown problem: the case is inconclusive for this property
        backpressure = True
    elif blocked is not None:
        k = blocked["blocked"]
        ln = lines[k] if k < len(lines) else "?"
        viol.append(dict(key="C15|teardown-blocks|" + ln.split()[0], what="call %d `%s` blocked with the process idle (threads %s); history %s" % (k, ln, blocked.get("threads"), lines[max(0, k - 3):k])))
    elif not done and not viol:
        k = len(executed)
        ln = lines[k] if k < len(lines) else "?"
        viol.append(dict(key="C15|crash|" + ln.split()[0], what="process died (exit %s) inside call %d `%s`" % (res["exit"], k, ln)))
    base_threads = None
    sess = 0
    for r in executed:
        ln = lines[r["i"]]
        if ln == "threads_snapshot":
            if base_threads is None:
                base_threads = r.get("threads")
            elif r.get("threads") != base_threads:
                viol.append(dict(key="C15|threads-remain", what="after session %d teardown %s threads exist, %s before any session" % (sess, r.get("threads"), base_threads)))
            sess += 1
        if ln == "leakcheck" and r.get("lsan_leak", 0) > 0:
            kind = case["sessions"][sess - 2]["kind"] + ":" + case["sessions"][sess - 2]["point"] if 0 <= sess - 2 < len(case["sessions"]) else "?"
            # which allocation leaked: LeakSanitizer report frames
            fr = []
            for x in res["san"]:
                if x["kind"].startswith("LeakSanitizer"):
                    fr = [f for f in x["stack"] if not f.startswith("__interceptor") and f not in ("malloc", "calloc")][:2]
                    break
            viol.append(dict(key="C15|leak|%s" % ("<-".join(fr) if fr else "?"), what="LeakSanitizer reports unreachable library memory after tearing down session %d (%s): %s" % (sess - 1, kind, [x["stack"][:5] for x in res["san"] if x["kind"].startswith("LeakSanitizer")][:2])))
        if ln.split()[0] in ("enc_deinit", "enc_deinit_handle", "dec_deinit", "dec_deinit_handle") and r.get("rc") not in (0, None):
            viol.append(dict(key="C15|teardown-rc|" + ln.split()[0], what="%s returned %#x" % (ln, r["rc"])))
    seen, out = set(), []
    for v in viol:
        if v["key"] not in seen:
            seen.add(v["key"])
            out.append(v)
    ss = case["sessions"]
    nt = any(s.get("inflight") for s in ss) or len(ss) >= 3 or any(s.get("tus") for s in ss)
    classes = ["%s:%s" % (s["kind"], s["point"]) for s in ss] + ["sessions%d" % len(ss)]
    if backpressure:
        return dict(violations=[], nontrivial=False, dkey=None, classes=classes + ["backpressure_in_send"], sample=None)
    return dict(violations=out, nontrivial=bool(nt), dkey=svt.case_hash(case), classes=classes,
                sample=dict(sessions=ss, program=[l[:50] for l in lines][:30], exit=res["exit"]))
