"""C07 — every SIMD kernel the dispatch tables can select is a bit-exact drop-in for its C reference (rapidcheck differential harness)."""
import json, os, subprocess, sys
from props.common import svt, engine, build
import inproc, harness

ID = "C07"
LEVEL = "exploration"
RULE = ("workers/kernels/gen_kernels.py parses every SET_*(pointer, C reference, SIMD variants) line of the CURRENT tree's common_dsp_rtcd.c / aom_dsp_rtcd.c plus the prototypes and binds each "
        "entry to one of 108 family drivers (oracles/c07_families.json: block sizes, bit depth, stride rule, value range per argument, aliasing rule, each with the caller / unit test the domain was "
        "derived from); entries without a family are reported as 'undecided' (never silently dropped). For every covered entry and every SIMD variant the host supports (SSE2..AVX-512) rapidcheck "
        "generates arguments (edge-biased patterns: all-min, all-max, alternating extremes, single spike, ramps, random; strides >= width + 0..64; every supported block size), runs the C reference "
        "and the variant on identical copies under ASan and compares outputs, return values and sentinel guard bands around every output buffer. 16 shards x N cases per entry. "
        "non-trivial = case uses a non-minimal block size or an extreme value pattern; distinct = hash of the full case text; evidence lists entries covered / total and the undecided names.")
ASSUMPTIONS = ["family descriptors state the domain the real callers use (a narrower descriptor hides bugs, a wider one raises false alarms): each carries its source",
               "24 entries have no descriptor (selfguided/wiener stats, warp, fft, temporal filter, ...) and are undecided",
               "confirmed divergences are excluded with the family's narrower unit-test domain (C07_MILD) so that the search continues behind them; the exclusion is counted"]
MIN_NONTRIVIAL = 1000


def prepare(tier):
    out = os.path.join(build.BUILD_ROOT, "st", "harness", "kernels_gen")
    os.makedirs(out, exist_ok=True)
    p = subprocess.run([sys.executable, os.path.join(engine.VERIF, "workers", "kernels", "gen_kernels.py"), build.REPO, out], stdout=subprocess.PIPE, stderr=subprocess.PIPE)
    if p.returncode != 0:
        raise build.BuildFailed("gen_kernels.py failed: " + p.stderr.decode()[-400:])
    try:
        table = json.loads(p.stdout.decode().strip().splitlines()[-1])
    except Exception:
        table = {}
    exe = harness.build("kernels", "st", [os.path.join(out, "kernels_gen.cc")], libs=("Enc",), cxx=True, extra=["-lrapidcheck"])
    return dict(exe=exe, wd=svt.mkwork("c07"), table=table)


def _mild(known):
    """regex of entries (dispatch pointer names) whose confirmed divergence is a listed known finding: they are re-run in the family's
    narrower unit-test domain so that the search continues behind the finding"""
    import re
    names = set()
    for e in known:
        parts = e["key"].split("|")
        if len(parts) >= 3 and not parts[-1].startswith("mild"):
            n = re.sub(r"_c$", "", parts[1])
            names.add(".*".join(re.escape(x) for x in n.split("*")))
    return "|".join(sorted(names))


def jobs(ctx, tier, seed):
    n = 16
    per = 4000 if tier == "thorough" else 250
    known = engine.load_known(ID)
    out = []
    for i in range(n):
        ff = os.path.join(ctx["wd"], "fail%d.json" % i)
        env = dict(RC_PARAMS="seed=%d" % engine.derive_seed(seed, i), ASAN_OPTIONS="detect_leaks=0")
        out.append(dict(name="shard%d" % i, cmd=[ctx["exe"], "gen", ff, "--shard", "%d/%d" % (i, n), "--per-entry", str(per)], env=env, fail=ff, timeout=14400))
    # second pass over the entries with a listed divergence, restricted to the milder (unit-test) domain: the search continues behind the finding
    m = _mild(known)
    if m:
        ff = os.path.join(ctx["wd"], "failmild.json")
        out.append(dict(name="mild", mild=1, cmd=[ctx["exe"], "gen", ff, "--only", m, "--per-entry", str(per)],
                        env=dict(RC_PARAMS="seed=%d" % engine.derive_seed(seed, 99), ASAN_OPTIONS="detect_leaks=0", C07_MILD=m), fail=ff, timeout=14400))
    return out


def interpret(ctx, job, res):
    j = inproc.last_json(res["out"])
    viol = []
    if j is None:
        san = svt.parse_sanitizer(res["err"])
        return dict(evaluations=0, nontrivial=0, inconclusive="kernels harness gave no result (exit %s): %s %s" % (res["exit"], (san[0]["line"] if san else ""), res["err"][-300:]))
    for f in j.get("failures", []):
        viol.append(dict(key="C07|" + f["key"] + ("|mild-domain" if job.get("mild") else ""), what=f.get("what", "")[:400], payload=dict(txt=f["txt"], mild=os.environ.get("C07_MILD", "") if False else (job["env"].get("C07_MILD", "")))))
    if j.get("aborted"):
        txt = None
        for cand in (job["fail"] + ".crash", job["fail"]):
            if os.path.exists(cand):
                try:
                    txt = json.loads(open(cand).read().strip().splitlines()[-1]).get("txt")
                    break
                except Exception:
                    pass
        viol.append(dict(key="C07|%s|crash" % j.get("aborted_in", "?"), what="sanitizer abort / signal inside kernel %s" % j.get("aborted_in"), payload=dict(txt=txt, mild=job["env"].get("C07_MILD", "")) if txt else None))
    cl = dict(j.get("classes") or {})
    cl = {k: v for k, v in cl.items() if k.startswith("pat:")}
    cl["entries_run"] = j.get("entries_run", 0)
    if job.get("mild"):
        cl = {"cases_in_mild_domain_behind_known_findings": j.get("cases", 0)}
    extra = dict(entries_total=j.get("entries_total"), entries_with_simd=j.get("entries_with_simd"), entries_covered=j.get("entries_covered"), undecided=j.get("undecided"),
                 variants_unsupported_by_host=j.get("variants_unsupported_by_host"), per_isa_variants_last_shard=(j.get("per_isa") or {}).get("variants"))
    return dict(evaluations=j.get("cases", 0), keys=j.get("keys", []) if not job.get("mild") else ["mild-" + k for k in j.get("keys", [])], samples=j.get("samples", [])[:1], classes=cl, extra=extra, violations=viol)


def replay(ctx, payload, tier):
    p = os.path.join(ctx["wd"], "replay.txt")
    open(p, "w").write(payload["txt"] + "\n")
    env = dict(ASAN_OPTIONS="detect_leaks=0")
    if payload.get("mild"):
        env["C07_MILD"] = payload["mild"]
    r = inproc.run_job(dict(cmd=[ctx["exe"], "replay", p], env=env, timeout=300))
    j = inproc.last_json(r["out"]) or {}
    if j.get("what"):
        return [dict(key="C07|" + str(j.get("key")) + ("|mild-domain" if payload.get("mild") else ""), what=j["what"])]
    if r["exit"] not in (0,):
        san = svt.parse_sanitizer(r["err"])
        return [dict(key="C07|%s|crash" % payload["txt"].split()[0], what=(san[0]["line"] if san else "replay exit %s" % r["exit"]))]
    return []


def main(argv):
    return inproc.main(__import__("props.c07", fromlist=["x"]), argv)
