"""C24 — wavefront EncDec segments: every SB once, in dependency order, always completes (real segment code under an owned schedule)."""
import json, os, random
from props.common import svt, engine, build
import inproc, harness

ID = "C24"
LEVEL = "exploration"
RULE = ("Three generators against the REAL enc_dec_segments_ctor/init + assign_enc_dec_segments + a real SRM pool of EncDecTasks (static harness workers/seg): "
        "(a) geometry enumeration: picture sizes 1..65 x 1..34 SBs (64x64) and 1..33 x 1..17 (128x128) x segment column counts 1..min(60,cols) x row counts 1..min(37,rows); for each tuple the "
        "segment->SB walk transcribed from enc_dec_kernel must cover every SB exactly once and the protocol is simulated under 3 deterministic worker plans (1 sequential worker, 8 workers "
        "finishing the oldest segment last, 3 workers finishing the newest last). Quick subsamples the segment-count dimension deterministically (exhaustive=false), thorough enumerates all "
        "1.35 M tuples (exhaustive=true). (b) rapidcheck protocol cases: 1-3 tile groups, W in 1..8 logical workers, generated schedule choosing which worker performs its next atomic step "
        "(take feedback task / call assign / start, visit SBs, finish), 1-2 passes (recode re-init), plus a sweep of all shapes <= 8x8 SBs x all segment grids x W in {2,3,5,8}. "
        "(c) H3 traces recorded from real multi-threaded encodes (generated sizes/tiles/lp) validated with the same predicate. Oracle, from SB coordinates only: each SB belongs to and is "
        "processed by exactly one segment; a segment starts only after every segment holding a left, upper or upper-right neighbour of one of its SBs has finished; all segments finish for "
        "every W and schedule (no lost continuation). non-trivial = grid with >= 2 segment rows and >= 2 bands, W >= 2 and >= 1 feedback task (protocol cases, distinct FNV of the case); "
        "for geometry every tuple with >= 2 rows and >= 2 bands; for traces every picture with >= 2 segments.")
ASSUMPTIONS = ["one OS thread executes all logical workers: schedules are sequentially consistent orderings of the harness's atomic steps; races inside assign_enc_dec_segments under real mutex "
               "contention are C04's subject", "geometry beyond 65x34 SBs / segment counts beyond 60x37 is not enumerated"]
MIN_NONTRIVIAL = 50


def prepare(tier):
    exe = harness.build("seg", "st", ["seg/seg_main.cc", "seg/seg_shim.c"], libs=("Enc",), cxx=True, extra=["-lrapidcheck"])
    return dict(exe=exe, wd=svt.mkwork("c24"), drv=svt.bins("rel")["svtdrv"])


def _trace_cases(seed, n):
    rnd = random.Random(seed)   # pure function of VERIF_SEED; the encodes themselves are multi-threaded real runs
    out = []
    for i in range(n):
        w = rnd.choice([64, 128, 192, 256, 320, 352, 448, 640])
        h = rnd.choice([64, 128, 192, 240, 288, 360])
        out.append(dict(source_width=w, source_height=h, enc_mode=rnd.choice([8, 8, 7, 6, 4]), logical_processors=rnd.choice([2, 4, 8, 16]),
                        tile_columns=rnd.choice([0, 0, 1, 2]), tile_rows=rnd.choice([0, 0, 1, 2]), frames=rnd.choice([3, 5, 8]), seedc=rnd.randrange(1000)))
    return out


def jobs(ctx, tier, seed):
    out = []
    nsh = 16 if tier == "thorough" else 8
    for i in range(nsh):
        ff = os.path.join(ctx["wd"], "exh%d.json" % i)
        out.append(dict(name="exh%d" % i, kind="exh", cmd=[ctx["exe"], "exhaustive", tier, ff, "shard=%d/%d" % (i, nsh)], env=dict(ASAN_OPTIONS="detect_leaks=0"), fail=ff, timeout=7200))
    ng = 8
    per = 30000 if tier == "thorough" else 2500
    for i in range(ng):
        ff = os.path.join(ctx["wd"], "gen%d.json" % i)
        args = [ctx["exe"], "gen", ff] + (["nosweep"] if i else [])
        out.append(dict(name="gen%d" % i, kind="gen", cmd=args, env=dict(inproc.rc_env(engine.derive_seed(seed, i), per), ASAN_OPTIONS="detect_leaks=0"), fail=ff, timeout=7200))
    for i, c in enumerate(_trace_cases(seed, 12 if tier == "thorough" else 4)):
        pre = os.path.join(ctx["wd"], "tr%d" % i)
        cf = pre + ".case"
        lines = ["cfg %s %d" % (k, v) for k, v in c.items() if k not in ("frames", "seedc")] + ["frames %d" % c["frames"], "content 5 %d 50 2 0" % c["seedc"], "out " + pre]
        open(cf, "w").write("\n".join(lines) + "\n")
        sh = "SVT_LOG=-1 SVT_VERIF_SEG_TRACE=%s.seg %s %s >/dev/null 2>&1; rc=$?; if [ $rc -ne 0 ]; then echo '{\"encode_exit\":'$rc'}'; exit 0; fi; %s trace %s.seg" % (pre, ctx["drv"], cf, ctx["exe"], pre)
        out.append(dict(name="trace%d" % i, kind="trace", cfg=c, cmd=["bash", "-c", sh], env=dict(ASAN_OPTIONS="detect_leaks=0", SVTDRV_MAXIDLE_S="120"), timeout=900))
    return out


def interpret(ctx, job, res):
    j = inproc.last_json(res["out"])
    viol = []
    fail = None
    if res["fail"]:
        try:
            fail = json.loads(res["fail"].strip().splitlines()[-1])
        except Exception:
            fail = dict(key="unparsable", what=res["fail"][:300], txt=None)
    if job["kind"] == "trace":
        if j is None or "encode_exit" in (j or {}):
            return dict(evaluations=1, nontrivial=0, classes={"trace_encode_failed": 1})
        if j.get("what"):
            viol.append(dict(key="C24|trace|" + str(j.get("key", "order")), what="H3 trace of a real encode %s: %s" % (job["cfg"], j["what"]), payload=None))
        return dict(evaluations=1, keys=["trace-%s" % svt.case_hash(job["cfg"])] if j.get("pictures", 0) else [], classes={"trace_pictures": j.get("pictures", 0), "trace_events": j.get("events", 0)},
                    samples=[dict(trace_of=job["cfg"], events=j.get("events"), pictures=j.get("pictures"))], violations=viol)
    if fail:
        viol.append(dict(key="C24|" + str(fail.get("key")), what=fail.get("what", ""), payload=dict(txt=fail["txt"]) if fail.get("txt") else None))
    if j is None:
        if viol:
            return dict(evaluations=1, nontrivial=0, violations=viol)
        san = svt.parse_sanitizer(res["err"])
        if san:
            return dict(evaluations=1, nontrivial=0, violations=[dict(key="C24|sanitizer|" + str(san[0]["frame"]), what=san[0]["line"], payload=None)])
        return dict(evaluations=0, nontrivial=0, inconclusive="seg harness gave no result (exit %s): %s" % (res["exit"], res["err"][-300:]))
    if job["kind"] == "exh":
        if j.get("failures") and not viol:
            f0 = (j.get("failing") or [{}])[0]
            viol.append(dict(key="C24|" + str(f0.get("key")), what=f0.get("what", ""), payload=dict(txt=f0["txt"]) if f0.get("txt") else None))
        return dict(evaluations=j["tuples"], keys=["exh-%s-%d" % (job["name"], k) for k in range(min(j.get("caller_reachable_tuples", 0), 5))],
                    classes={"geometry_tuples": j["tuples"], "geometry_caller_reachable": j.get("caller_reachable_tuples", 0), "geometry_protocol_runs": j.get("protocol_runs", 0)},
                    extra=dict(geometry_exhaustive=bool(j.get("exhaustive"))), violations=viol)
    if (not j.get("generated_ok") or j.get("sweep_failures")) and not viol:
        viol.append(dict(key="C24|unreported", what="gen harness failed without a failure file", payload=None))
    cl = dict(j.get("classes") or {})
    cl["protocol_cases"] = j["cases"]
    cl["sweep_runs"] = j.get("sweep_runs", 0)
    return dict(evaluations=j["cases"] + j.get("sweep_runs", 0), keys=j.get("keys", []), samples=j.get("samples", [])[:2], classes=cl, violations=viol)


def replay(ctx, payload, tier):
    p = os.path.join(ctx["wd"], "replay.txt")
    open(p, "w").write(payload["txt"] + "\n")
    r = inproc.run_job(dict(cmd=[ctx["exe"], "replay", p], env=dict(ASAN_OPTIONS="detect_leaks=0"), timeout=300))
    j = inproc.last_json(r["out"]) or {}
    if j.get("what"):
        return [dict(key="C24|" + str(j.get("key")), what=j["what"])]
    san = svt.parse_sanitizer(r["err"])
    if san:
        return [dict(key="C24|sanitizer|" + str(san[0]["frame"]), what=san[0]["line"])]
    return []


def main(argv):
    return inproc.main(__import__("props.c24", fromlist=["x"]), argv)
