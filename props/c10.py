"""C10 — the decoder survives arbitrary input bytes (coverage-guided libFuzzer campaign with a structure-aware target)."""
import argparse, glob, hashlib, json, os, re, shutil, subprocess, sys, time
from props.common import svt, engine, build
import harness, inproc

ID = "C10"
LEVEL = "exploration"
RULE = ("libFuzzer (ASan + restricted UBSan, no-recover; decoder objects built with NDEBUG as shipped) on workers/fuzz/fz_dec.cc: an input is a flags byte (Annex-B / low-overhead framing, "
        "is_16bit_pipeline, late get_picture) followed by length-prefixed chunks, each handed to svt_av1_dec_frame in its own exact-size heap buffer; a fresh decoder handle per input; "
        "after every chunk get_picture is called, at the end deinit + deinit_handle. Mutation: OBU-aware custom mutator (payload mutation with consistent leb128 sizes, header-region bit flips, OBU "
        "duplicate/drop/splice across temporal units, truncation, lying size fields) with fallback to byte-level mutation; seeds = 50 tiny valid streams from the SVT encoder and from libaom's encoder "
        "(corpus/dec) in one campaign and an EMPTY corpus in a second one; before the campaigns a structured family is enumerated: every seed stream with the last 1-4 bytes of one temporal unit missing. Oracle inside the target: every call returns, no sanitizer report, no abort, teardown works (LeakSanitizer); a unit exceeding "
        "10 s is a hang candidate and counts only if it reproduces 3x standalone with a 60 s limit. Every crash-/leak- artifact is re-run standalone and keyed by (sanitizer kind, innermost frame in Source/). "
        "non-trivial = distinct final-corpus units that reached block-level parsing (hook H4 block counter > 0); evaluations = executed units.")
ASSUMPTIONS = ["single-threaded decoder (the property's quantifier)", "libFuzzer campaigns are only approximately reproducible from -seed; the saved artifact is the reproducible unit"]


def _env(extra=None):
    e = dict(os.environ)
    e.update(SVT_LOG="-1", UBSAN_OPTIONS="print_stacktrace=1:halt_on_error=1", ASAN_OPTIONS="detect_leaks=1:allocator_may_return_null=1:malloc_context_size=10")
    if extra:
        e.update(extra)
    return e


def classify(exe, path, timeout=60):
    """run one input standalone; returns (key, what) or (None, None) when it passes"""
    try:
        p = subprocess.run([exe, "-timeout=%d" % timeout, "-rss_limit_mb=4000", path], env=_env(), stdout=subprocess.PIPE, stderr=subprocess.PIPE, timeout=timeout + 30)
        code, err = p.returncode, p.stderr.decode("latin1", "replace")
    except subprocess.TimeoutExpired:
        return "C10|hang", "input does not finish within %d s" % timeout
    if code == 0:
        return None, None
    if "ERROR: libFuzzer: timeout" in err:
        return "C10|hang", "libFuzzer timeout (%d s)" % timeout
    if "ERROR: libFuzzer: out-of-memory" in err:
        return "C10|oom", "rss limit exceeded"
    # UBSan (no-recover, with stack)
    m = re.search(r"(\S+?):(\d+):\d+: runtime error: (.*)", err)
    # innermost three library frames of the FIRST stack in the report: the call path, not just the faulting helper, identifies the defect
    # (several distinct defects end in the same bit-reader / range-decoder refill helper)
    frames = []
    for ln in err.splitlines():
        fm = re.search(r"#\d+ 0x[0-9a-f]+ in (\S+) (\S+)", ln)
        if fm:
            if "/Source/" in fm.group(2) and (not frames or frames[-1] != fm.group(1)):
                frames.append(fm.group(1))
                if len(frames) == 3:
                    break
        elif frames and not ln.strip():
            break
    frame = "<".join(frames) if frames else None
    if m:
        cls = re.sub(r"-?\d+(\.\d+)?(e[+-]?\d+)?", "N", m.group(3))[:70]
        cls = re.sub(r"0x[0-9a-f]+", "ADDR", cls)
        return "C10|ubsan:%s|%s" % (cls, frame or os.path.basename(m.group(1))), m.group(0)[:300]
    m = re.search(r"ERROR: (AddressSanitizer|LeakSanitizer): ([\w-]+)", err)
    if m:
        return "C10|%s:%s|%s" % (m.group(1), m.group(2), frame or "?"), (m.group(0) + " in " + str(frame))[:300]
    if "deadly signal" in err:
        return "C10|signal|%s" % (frame or "?"), "deadly signal in %s" % frame
    return "C10|exit-%s|%s" % (code, frame or "?"), err[-300:].replace("\n", " | ")


def campaign(exe, corpus, art, seconds, forks, seed, log):
    cmd = [exe, "-fork=%d" % forks, "-ignore_crashes=1", "-ignore_timeouts=1", "-ignore_ooms=1", "-max_total_time=%d" % seconds, "-timeout=10", "-rss_limit_mb=4000",
           "-max_len=20000", "-seed=%d" % (seed % (2**31 - 1) + 1), "-print_final_stats=1", "-artifact_prefix=" + art + "/", corpus]
    return subprocess.Popen(cmd, env=_env({"FZ_STATS": os.path.join(art, "stats")}), stdout=open(log, "w"), stderr=subprocess.STDOUT)


def main(argv):
    ap = argparse.ArgumentParser()
    ap.add_argument("--tier", default=os.environ.get("VERIF_TIER", "quick"))
    ap.add_argument("--replay", default=None)
    ap.add_argument("--seed", type=int, default=int(os.environ.get("VERIF_SEED", "1") or 1))
    ap.add_argument("--seconds", type=int, default=None)
    a = ap.parse_args(argv)
    tier = a.tier if a.tier in ("quick", "thorough") else "quick"
    t0 = time.time()
    known = engine.load_known(ID)
    try:
        exe = harness.build_fuzz("fz_dec", ["fuzz/fz_dec.cc"])
    except build.BuildFailed as e:
        print("BUILD-FAILED", e)
        return 2
    if a.replay:
        rp = json.load(open(a.replay))
        path = rp["case"]["bin"]
        if not os.path.isabs(path):
            path = os.path.join(engine.VERIF, path)
        key, what = classify(exe, path)
        print(json.dumps(dict(key=key, what=what)))
        if key and engine.key_matches(known, key):
            print("KNOWN-FINDING: property=%s %s" % (ID, key))
            return 0
        if key:
            print("VIOLATION property=%s replay=%s" % (ID, a.replay))
            return 1
        return 0
    wd = svt.mkwork("c10")
    viol, known_seen, classes = {}, {}, {}
    # 1) replay tier: seed corpus must pass; committed regression inputs are re-run
    seeds = sorted(glob.glob(os.path.join(engine.VERIF, "corpus", "dec", "*")))
    kb = sorted(glob.glob(os.path.join(engine.REPLAYS, ID, "known", "*.bin")))
    if tier != "thorough" and len(kb) > 4:
        kb = [kb[(a.seed * 4 + i) % len(kb)] for i in range(4)]
    regs = seeds + sorted(glob.glob(os.path.join(engine.REPLAYS, ID, "*.bin"))) + kb
    import concurrent.futures as cf
    with cf.ThreadPoolExecutor(max_workers=16) as ex:
        regres = list(ex.map(lambda f: classify(exe, f), regs))
    nreg = len(regs)
    for f, (key, what) in zip(regs, regres):
        if key:
            classes["regression_failing"] = classes.get("regression_failing", 0) + 1
            (known_seen if engine.key_matches(known, key) else viol).setdefault(key, (f, what))
    # 1b) structured family the byte-level campaign rarely hits within a short budget: every seed stream with the LAST 1..4 bytes of one temporal
    #     unit missing (last unit, and one unit chosen from the check seed).  Each unit is handed to the decoder in an exact-size heap buffer, so
    #     a reader that trusts a declared OBU size over the buffer end is visible to ASan.
    def chunks_of(b):
        out, pos = [], 1
        while pos + 2 <= len(b):
            n = b[pos] | (b[pos + 1] << 8)
            pos += 2
            out.append(b[pos:pos + n])
            pos += n
        return out
    td = os.path.join(wd, "trunc")
    os.makedirs(td)
    tfiles = []
    for si_, f in enumerate(seeds):
        b = open(f, "rb").read()
        ch = chunks_of(b)
        if not ch:
            continue
        for ci in sorted({len(ch) - 1, (a.seed * 7 + si_) % len(ch)}):
            for cut in (1, 2, 3, 4):
                if len(ch[ci]) <= cut + 2:
                    continue
                c2_ = list(ch)
                c2_[ci] = ch[ci][:-cut]
                o = bytes([b[0]]) + b"".join(bytes([len(c) & 255, len(c) >> 8]) + c for c in c2_)
                fn = os.path.join(td, "%s.u%d.cut%d" % (os.path.basename(f)[:24], ci, cut))
                open(fn, "wb").write(o)
                tfiles.append(fn)
    with cf.ThreadPoolExecutor(max_workers=16) as ex:
        tres = list(ex.map(lambda f: classify(exe, f), tfiles))
    classes["truncated_units"] = len(tfiles)
    tby = {}
    for f, (key, what) in zip(tfiles, tres):
        if key:
            classes["truncated_units_failing"] = classes.get("truncated_units_failing", 0) + 1
            tby.setdefault(key, (f, what))
    for key, (f, what) in tby.items():
        if engine.key_matches(known, key):
            known_seen.setdefault(key, (f, what))
        elif sum(1 for _ in range(2) if classify(exe, f)[0] == key) == 2:
            keep = os.path.join(wd, "keep-" + os.path.basename(f))
            shutil.copy(f, keep)
            viol.setdefault(key, (keep, what))
    # 2) campaigns: seeded + empty corpus
    secs = a.seconds or (1500 if tier == "thorough" else 75)
    c1, c2, art1, art2 = [os.path.join(wd, x) for x in ("corp_seeded", "corp_empty", "art_seeded", "art_empty")]
    for d in (c1, c2, art1, art2):
        os.makedirs(d)
    for f in seeds:
        shutil.copy(f, c1)
    procs = [campaign(exe, c1, art1, secs, 13, engine.derive_seed(a.seed, 1), os.path.join(wd, "seeded.log")),
             campaign(exe, c2, art2, secs, 3, engine.derive_seed(a.seed, 2), os.path.join(wd, "empty.log"))]
    for p in procs:
        try:
            p.wait(timeout=secs + 600)
        except subprocess.TimeoutExpired:
            p.kill()
    execs = 0
    for lg in ("seeded.log", "empty.log"):
        txt = open(os.path.join(wd, lg), errors="replace").read()
        m = re.findall(r"#(\d+): cov: (\d+) ft: (\d+) corp: (\d+)", txt)
        if m:
            execs += int(m[-1][0])
            classes["edges_" + lg.split(".")[0]] = int(m[-1][1])
            classes["corpus_" + lg.split(".")[0]] = int(m[-1][3])
    stats = dict(execs=0, block_level=0, error_after_sequence_header=0, pictures=0, inputs_with_picture=0, frames_ok=0, frames_err=0)
    for art in (art1, art2):
        for f in glob.glob(os.path.join(art, "stats.*")):
            try:
                j = json.load(open(f))
                for k in stats:
                    stats[k] += j.get(k, 0)
            except Exception:
                pass
    execs = max(execs, stats["execs"])
    # 3) triage artifacts
    arts = sorted(glob.glob(os.path.join(art1, "crash-*")) + glob.glob(os.path.join(art1, "leak-*")) + glob.glob(os.path.join(art2, "crash-*")) + glob.glob(os.path.join(art2, "leak-*")))
    touts = sorted(glob.glob(os.path.join(art1, "timeout-*")) + glob.glob(os.path.join(art2, "timeout-*")))
    classes["artifacts_crash_leak"] = len(arts)
    classes["artifacts_timeout"] = len(touts)
    budget_end = time.time() + (900 if tier == "thorough" else 150)
    by_key = {}
    import concurrent.futures as cf
    # smallest artifacts first; bounded number per run (every artifact of an already-seen key is redundant)
    arts.sort(key=os.path.getsize)
    lim = 400 if tier == "thorough" else 96
    classes["artifacts_not_triaged"] = max(0, len(arts) - lim)
    with cf.ThreadPoolExecutor(max_workers=16) as ex:
        ares = list(ex.map(lambda f: classify(exe, f), arts[:lim]))
    for f, (key, what) in zip(arts[:lim], ares):
        if key is None:
            classes["artifacts_not_reproducible"] = classes.get("artifacts_not_reproducible", 0) + 1
            continue
        by_key.setdefault(key, []).append((os.path.getsize(f), f, what))
    for f in touts[:6]:
        if time.time() > budget_end:
            break
        n = sum(1 for _ in range(3) if classify(exe, f, timeout=60)[0] == "C10|hang")
        if n == 3:
            by_key.setdefault("C10|hang", []).append((os.path.getsize(f), f, "input does not finish within 60 s (3 of 3 standalone runs)"))
        else:
            classes["timeouts_not_reproducible"] = classes.get("timeouts_not_reproducible", 0) + 1
    for key, lst in by_key.items():
        lst.sort()
        size, f, what = lst[0]
        # confirm 3x
        if key != "C10|hang" and sum(1 for _ in range(2) if classify(exe, f)[0] == key) < 2:
            classes["unconfirmed_failure"] = classes.get("unconfirmed_failure", 0) + 1
            continue
        (known_seen if engine.key_matches(known, key) else viol).setdefault(key, (f, what))
    # 4) distinct non-trivial = final corpus units that reach block-level parse
    nt = 0
    samples = []
    for cdir in (c1, c2):
        for f in sorted(glob.glob(os.path.join(cdir, "*")))[:4000]:
            pass
    sd = os.path.join(wd, "measure")
    os.makedirs(sd)
    try:
        subprocess.run([exe, "-runs=0", "-timeout=10", c1, c2], env=_env({"FZ_STATS": os.path.join(sd, "m")}), stdout=subprocess.DEVNULL, stderr=subprocess.DEVNULL, timeout=900)
        for f in glob.glob(os.path.join(sd, "m.*")):
            nt += json.load(open(f)).get("block_level", 0)
    except Exception:
        pass
    for f in (sorted(glob.glob(os.path.join(c1, "*")), key=os.path.getsize)[:3] + sorted(glob.glob(os.path.join(c2, "*")), key=os.path.getsize)[-2:]):
        b = open(f, "rb").read()
        samples.append(dict(unit=os.path.basename(f)[:16], bytes=len(b), flags=b[0] if b else None, hex_head=b[:24].hex()))
    classes.update({k: v for k, v in stats.items()})
    coverage = dict(evaluations=int(execs), distinct_nontrivial=int(nt), rule=RULE, samples=samples, classes=classes, regression_inputs=nreg, seed_corpus=len(seeds),
                    campaign_seconds=secs, known_findings_seen=sorted(known_seen), distinct_failure_keys=sorted(list(viol) + list(known_seen)), exhaustive=False)
    engine.write_evidence(ID, tier, a.seed, LEVEL, coverage, time.time() - t0, len(viol), ASSUMPTIONS)
    for k, (f, what) in sorted(known_seen.items()):
        print("KNOWN-FINDING: property=%s %s :: %s" % (ID, k, (what or "")[:200]))
    print("%s tier=%s seed=%d evaluations=%d distinct_nontrivial=%d wall=%.0fs classes=%s" % (ID, tier, a.seed, execs, nt, time.time() - t0, json.dumps(classes, sort_keys=True)[:1500]))
    rc = 0
    if viol:
        rd = os.path.join(engine.NEW_REPLAYS, ID)
        os.makedirs(rd, exist_ok=True)
        for nv, (key, (f, what)) in enumerate(sorted(viol.items())):
            # minimise (bounded; first three only), keep the smaller reproducer
            mn = os.path.join(wd, "min-" + hashlib.sha256(key.encode()).hexdigest()[:8])
            try:
                if nv >= 3:
                    raise RuntimeError("skip")
                subprocess.run([exe, "-minimize_crash=1", "-max_total_time=25", "-timeout=10", "-exact_artifact_path=" + mn, f], env=_env(), stdout=subprocess.DEVNULL, stderr=subprocess.DEVNULL, timeout=120)
                if os.path.exists(mn) and classify(exe, mn)[0] == key:
                    f = mn
            except Exception:
                pass
            safe = "".join(c if c.isalnum() else "_" for c in key)[:70]
            h = hashlib.sha256(open(f, "rb").read()).hexdigest()[:10]
            binp = os.path.join(rd, "%s-%s.bin" % (safe, h))
            shutil.copy(f, binp)
            rel = os.path.relpath(binp, engine.VERIF) if binp.startswith(engine.VERIF) else binp
            jp = binp[:-4] + ".json"
            json.dump(dict(property=ID, case=dict(bin=rel), violations=[dict(key=key, what=what)]), open(jp, "w"), indent=1)
            print("  what: %s :: %s" % (key, (what or "")[:300]))
            print("VIOLATION property=%s replay=%s" % (ID, jp))
        rc = 1
    shutil.rmtree(wd, ignore_errors=True)
    if rc == 0 and nt < 2:
        print("INCONCLUSIVE: no corpus unit reached block-level parsing")
        return 2
    return rc
