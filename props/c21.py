"""C21 — output depends only on the visible samples of each submitted picture."""
from hypothesis import strategies as st
from props.common import svt, gens, summarize_cfg, differential

ID = "C21"
LEVEL = "exploration"
TAG_KEYS = True   # violation keys get the configuration feature tag appended (engine.feature_tag)
RULE = ("Hypothesis draws (configuration, content, N; widths/heights mostly not multiples of 8; 8/10-bit) and 2-3 submission variants of the same visible samples: "
        "stride = width + {1..64} per plane (separate per plane) with padding bytes 0xFF / random / pattern; caller scribbles over picture memory and buffer headers "
        "right after send_picture returns; caller frees and reallocates its buffers after every send. Oracle: packets+recon byte-identical to the tightly packed, "
        "untouched submission; the ASan build catches reads of freed caller memory and over-long row copies. non-trivial = (stride>width with non-zero padding and "
        "width%8!=0) or free-after-send or scribble, and the variant completed; distinct = (config, content, N, variants) hash.")
ASSUMPTIONS = ["10-bit input is supplied in the documented unpacked format (16-bit samples, upper 6 bits zero); strides are in samples"]


def variants(tier):
    return ["asan", "rel"]


def budget(tier):
    if tier == "thorough":
        return dict(shards=16, examples=250, seconds=1200, shrink_seconds=300, min_nontrivial=40)
    return dict(shards=16, examples=20, seconds=75, shrink_seconds=60, min_nontrivial=6)


def strategy(tier):
    @st.composite
    def s(draw):
        c, n, tp = draw(gens.cfg(max_dim=160, frames=(2, 8), allow_twopass=False, lps=(1, 2), presets=(8, 8, 7, 6, 5), tools_p=1, allow_rc=False, exclude=("AQ1", "GRAIN", "SRES", "2PASS", "16BP")))
        cnt = draw(gens.content(kinds=(2, 3, 5, 6, 7)))
        vs = []
        for _ in range(draw(st.integers(2, 3))):
            kind = draw(st.sampled_from(["stride", "stride", "scribble", "realloc", "all"]))
            v = {}
            if kind in ("stride", "all"):
                v["stride_pad"] = [draw(st.integers(1, 64)), draw(st.integers(0, 32)), draw(st.integers(0, 32))]
                v["pad_fill"] = draw(st.sampled_from([1, 2, 3]))
            if kind in ("scribble", "all"):
                v["scribble"] = 1
            if kind in ("realloc", "all"):
                v["realloc"] = 1
            vs.append(v)
        case = gens.case_from(c, n, tp, cnt)
        case["subs"] = vs
        # one case in three runs on the ASan build (reads of freed / scribbled caller memory become reports); the others on the release build,
        # which is several times faster, for the byte-identity oracle
        case["asan"] = draw(st.integers(0, 2)) == 0
        return case
    return s()


def run_case(case, tier):
    base = {k: v for k, v in case.items() if k not in ("subs", "asan")}
    variant = "asan" if case.get("asan", True) else "rel"
    vs = [("tight", base)]
    for i, v in enumerate(case["subs"]):
        vs.append(("v%d_%s" % (i, "+".join(sorted(v))), dict(base, **v)))
    viol, statuses, results = differential(base, vs, "submission", pid=ID, variant=variant, timeout=400)
    try:
        # sanitizer reports in a variant that are absent in the tight run are this property's business
        base_keys = {(x["kind"], x["frame"]) for x in results[0][1].san}
        for name, r in results[1:]:
            for x in r.san:
                if (x["kind"], x["frame"]) not in base_keys and x["kind"].startswith("AddressSanitizer"):
                    viol.append(dict(key="C21|%s|%s" % (x["kind"], x["frame"]), what="%s: %s stack=%s" % (name, x["line"], x["stack"][:6])))
                    break
            if statuses["tight"] == "ok" and statuses[name] not in ("ok",) and not r.san:
                viol.append(dict(key="C21|variant-fails|" + statuses[name].split(":")[0], what="tight submission ok but %s: %s" % (name, statuses[name])))
        ok = [n for n, s in statuses.items() if s == "ok"]
        w = base["cfg"]["source_width"]
        nt = False
        for v, (name, r) in zip(case["subs"], results[1:]):
            if statuses[name] == "ok" and ((v.get("stride_pad") and w % 8) or v.get("realloc") or v.get("scribble")):
                nt = True
        inc = None
        if statuses["tight"] not in ("ok", "rejected"):
            inc = "reference run failed: %s" % statuses["tight"]
        classes = ["n_ok%d" % len(ok)] + sorted({k for v in case["subs"] for k in v if k != "pad_fill"}) + (["10bit"] if base["cfg"].get("encoder_bit_depth") == 10 else [])
        sample = summarize_cfg(base)
        sample["submissions"] = case["subs"]
        sample["observed"] = statuses
        return dict(violations=viol, nontrivial=nt, dkey=svt.case_hash(case), classes=classes, sample=sample, inconclusive=inc if not viol else None)
    finally:
        for _, r in results:
            r.cleanup()
