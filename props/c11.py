"""C11 — encoding never corrupts memory, hits UB, hangs or emits error packets (ASan + restricted UBSan build)."""
from hypothesis import strategies as st
from props.common import svt, gens, summarize_cfg

ID = "C11"
LEVEL = "exploration"
TAG_KEYS = True   # violation keys get the configuration feature tag appended (engine.feature_tag)
RULE = ("Hypothesis draws (configuration, content, N) weighted to the risk axes: QP 0-8 with noise/extreme content, sizes not multiple of 8 / of the SB, "
        "64x64, many tiles on small pictures, superres denominators 9-16, film grain 50, two-pass, screen content, 10-bit, intra period 0, hierarchical 5, "
        "RC modes, live-paced submission (next picture only when the encoder is idle) with VBR/CVBR and look-ahead; thorough adds 720p/1080p/4096x2160 short clips. Each case is a full init..EOS..teardown run of the clang ASan+UBSan build. Oracle: no ASan "
        "report, no UBSan report of the enabled classes, no signal, no error packet / EB_ErrorMax, every API call returns EB_ErrorNone/EmptyQueue, no deadlock "
        "signature (no API progress and <2% CPU for 20 s) and no livelock (no progress for the case's idle limit). non-trivial = case lies on >=1 risk axis and "
        "produced >=1 packet; distinct = (config, content, N) hash.")
ASSUMPTIONS = ["UBSan classes deliberately off: shift-base, alignment, pointer-overflow, function (code-base idioms on x86-64, see DESIGN 3.9)",
               "a run with no API-level progress for the idle limit while burning CPU is reported as 'slow' (inconclusive), only the deadlock signature is a violation"]
CONFIRM_NEED = 2


def variants(tier):
    return ["asan"]


def budget(tier):
    if tier == "thorough":
        return dict(shards=16, examples=300, seconds=1500, shrink_seconds=300, min_nontrivial=40)
    return dict(shards=16, examples=30, seconds=80, shrink_seconds=60, min_nontrivial=8)


def strategy(tier):
    thorough = tier == "thorough"
    @st.composite
    def s(draw):
        big = thorough and draw(st.integers(0, 19)) == 0
        c, n, tp = draw(gens.cfg(max_dim=256 if thorough else 176, frames=(1, 24 if thorough else 10), allow_twopass=True,
                                 slow_p=15 if thorough else 5, lps=(1, 2, 4)))
        axis = draw(st.integers(0, 9))
        if axis == 0:
            c["qp"] = draw(st.integers(0, 8))
        elif axis == 1:
            c["tile_rows"], c["tile_columns"] = draw(st.integers(2, 6)), draw(st.integers(2, 4))
        elif axis == 2:
            c["intra_period_length"] = 0
        elif axis == 3:
            c["hierarchical_levels"] = 5
        elif axis == 4:
            c["source_width"], c["source_height"] = 64, 64
        pat = None
        if axis == 5 and not thorough or (thorough and axis in (5, 6)):
            # live source: the application submits the next picture only once the encoder has gone quiet, so look-ahead windows are never full when rate control runs
            c["rate_control_mode"] = draw(st.sampled_from([1, 1, 2]))
            c["target_bit_rate"] = draw(st.sampled_from([100000, 300000, 2000000]))
            c["intra_period_length"] = draw(st.sampled_from([3, 7, 15, -1]))
            c["look_ahead_distance"] = draw(st.sampled_from([0, 5, 12, 16, 33]))
            c["hierarchical_levels"] = draw(st.sampled_from([2, 3, 4]))
            for k in ("enable_overlays", "superres_mode", "film_grain_denoise_strength", "enable_adaptive_quantization"):
                c.pop(k, None)
            c["source_width"], c["source_height"] = draw(st.sampled_from([(64, 64), (128, 96), (96, 72)]))
            c["enc_mode"] = 8
            n = draw(st.integers(18, 44))
            tp = 0
            pat = [draw(st.sampled_from(["prI", "prI", "SSpr"]))]
        if big:
            w, h = draw(st.sampled_from([(1280, 720), (1920, 1080), (4096, 2160), (1918, 1078), (4096, 64), (64, 2160)]))
            c["source_width"], c["source_height"] = w, h
            c["enc_mode"] = 8
            n = draw(st.integers(1, 3))
            tp = 0
        kinds = (2, 6, 2, 6, 0, 1, 3, 4, 5, 7)
        cnt = draw(gens.content(kinds=kinds))
        case = gens.case_from(c, n, tp, cnt)
        if pat:
            case["pat"] = pat
        return case
    return s()


def risk_axes(case):
    c = case["cfg"]
    ax = []
    if c.get("qp", 50) <= 8 and case["content"][0] in (2, 6):
        ax.append("lowqp_noise")
    if c["source_width"] % 8 or c["source_height"] % 8:
        ax.append("non8")
    if c["source_width"] == 64 or c["source_height"] == 64:
        ax.append("min_size")
    if c["source_width"] >= 1280 or c["source_height"] >= 1080:
        ax.append("large")
    if c.get("tile_rows", 0) + c.get("tile_columns", 0) >= 3:
        ax.append("many_tiles")
    if c.get("superres_mode", 0):
        ax.append("superres")
    if c.get("film_grain_denoise_strength", 0):
        ax.append("grain")
    if case.get("twopass"):
        ax.append("twopass")
    if c.get("screen_content_mode", 2) == 1:
        ax.append("screen")
    if c.get("encoder_bit_depth", 8) == 10:
        ax.append("10bit")
    if c.get("intra_period_length", -2) == 0:
        ax.append("all_intra")
    if c.get("hierarchical_levels", 4) == 5:
        ax.append("hl5")
    if c.get("rate_control_mode", 0):
        ax.append("rc")
    if c["enc_mode"] <= 5:
        ax.append("slowpreset")
    if case.get("pat"):
        ax.append("live_paced")
    return ax


def san_key(rep):
    return "C11|%s|%s" % (rep["kind"], rep["frame"])


def judge(r, case):
    viol = []
    seen = set()
    for rep in r.san:
        k = san_key(rep)
        if k not in seen:
            seen.add(k)
            # the report site identifies the root cause: no configuration tag on these keys
            viol.append(dict(key=k, what=rep["line"] + " stack=" + ",".join(rep.get("stack", [])[:6]), tagged=1))
    if r.hang:
        if r.hang.get("hang") == "deadlock":
            viol.append(dict(key="C11|deadlock|" + str(r.hang.get("where")), what="deadlock signature: %s" % r.hang))
        else:
            return viol, "slow/livelock: %s" % r.hang
    elif r.crash and not r.san:
        sig = r.crash.split()[0]
        viol.append(dict(key="C11|crash|" + sig, what=r.crash[:400]))
    elif r.exit not in (0,) and not r.san:
        viol.append(dict(key="C11|exit|%s" % r.exit, what=r.stderr[-300:]))
    if r.json_ok:
        for s in r.sessions:
            if s.get("err_pkt"):
                viol.append(dict(key="C11|error-packet", what="packet with error flags / EB_ErrorMax"))
            for e in s.get("events", []):
                if e.get("rc") not in (0, None) and e.get("t") in ("pkt", "send", "eos", "rec"):
                    viol.append(dict(key="C11|api-rc|%s" % e.get("t"), what="API call returned %#x" % (e["rc"] & 0xFFFFFFFF)))
                    break
            for k in ("rc_deinit", "rc_deinit_handle", "rc_stream_header"):
                if s.get(k) not in (0, None):
                    viol.append(dict(key="C11|api-rc|" + k, what="%s returned %#x" % (k, s[k] & 0xFFFFFFFF)))
    return viol, None


def run_case(case, tier):
    big = case["cfg"]["source_width"] >= 1280 or case["cfg"]["source_height"] >= 1080
    r = svt.run_encode(case, "asan", timeout=1500 if big else 400, env={"SVTDRV_DEADLOCK_S": "25"})
    try:
        if r.json_ok and r.sessions and not r.accepted() and not r.san:
            return dict(violations=[], nontrivial=False, dkey=None, classes=["rejected_config"], sample=None)
        viol, inc = judge(r, case)
        ax = risk_axes(case)
        npk = len(r.packets()) if r.json_ok else 0
        sample = summarize_cfg(case)
        sample["observed"] = dict(exit=r.exit, packets=npk, wall_s=round(r.wall, 1), axes=ax)
        return dict(violations=viol, nontrivial=bool(ax and npk), dkey=svt.case_hash(case), classes=ax + ["preset%d" % case["cfg"]["enc_mode"]],
                    sample=sample, inconclusive=inc if not viol else None)
    finally:
        r.cleanup()
