"""helpers shared by property modules"""
import os, sys
sys.path.insert(0, os.path.join(os.path.dirname(os.path.dirname(os.path.abspath(__file__))), "lib"))
import svt, engine, gens, build  # noqa


def enc_failure_info(r):
    """(inconclusive reason | None) for an encode that did not run to completion"""
    if r.hang:
        return "encode hang %s" % (r.hang,)
    if r.crash:
        return "encode crash %s" % (r.crash,)
    if not r.json_ok:
        return "no result json (exit %s)" % r.exit
    return None


def ref_decode_all(packets, wd, tag="s", start=0, decs=("aom", "dav1d")):
    tu = os.path.join(wd, tag + ".tu")
    svt.write_tu(packets, tu, start)
    return {d: svt.decode(tu, d, os.path.join(wd, tag)) for d in decs}, tu


def summarize_cfg(case):
    c = case.get("cfg", {})
    return dict(cfg=c, frames=case.get("frames"), content=case.get("content"),
                **{k: case[k] for k in ("twopass", "pat", "stride_pad", "pad_fill", "scribble", "realloc", "prefill", "ptslist", "pts") if k in case})
