"""helpers shared by property modules"""
import os, sys
sys.path.insert(0, os.path.join(os.path.dirname(os.path.dirname(os.path.abspath(__file__))), "lib"))
import svt, engine, gens, build  # noqa


def enc_failure_info(r):
    """(inconclusive reason | None) for an encode that did not run to completion"""
    if r.hang:
        return "encode hang %s" % (r.hang,)
    if r.crash:
        return "encode crash %s" % (r.crash,)
    if not r.json_ok:
        return "no result json (exit %s)" % r.exit
    return None


def ref_decode_all(packets, wd, tag="s", start=0, decs=("aom", "dav1d")):
    tu = os.path.join(wd, tag + ".tu")
    svt.write_tu(packets, tu, start)
    return {d: svt.decode(tu, d, os.path.join(wd, tag)) for d in decs}, tu


def summarize_cfg(case):
    c = case.get("cfg", {})
    return dict(cfg=c, frames=case.get("frames"), content=case.get("content"),
                **{k: case[k] for k in ("twopass", "pat", "stride_pad", "pad_fill", "scribble", "realloc", "prefill", "ptslist", "pts") if k in case})


def first_difference(ra, rb):
    """compare everything the application observes from two completed runs; None if identical"""
    pa, pb = ra.packets(), rb.packets()
    if len(pa) != len(pb):
        return "packet count %d vs %d" % (len(pa), len(pb))
    for k, ((ea, ba), (eb, bb)) in enumerate(zip(pa, pb)):
        for f in ("pts", "dts", "pic_type", "flags", "qp", "size"):
            if ea[f] != eb[f]:
                return "packet %d field %s: %s vs %s" % (k, f, ea[f], eb[f])
        if ba != bb:
            i = next(i for i in range(min(len(ba), len(bb))) if ba[i] != bb[i])
            return "packet %d bytes differ at offset %d of %d" % (k, i, len(ba))
    xa = sorted(ra.recons(), key=lambda x: x[0]["pts"])
    xb = sorted(rb.recons(), key=lambda x: x[0]["pts"])
    if len(xa) != len(xb):
        return "recon count %d vs %d" % (len(xa), len(xb))
    for (ea, ba), (eb, bb) in zip(xa, xb):
        if ea["pts"] != eb["pts"]:
            return "recon pts %d vs %d" % (ea["pts"], eb["pts"])
        if ba != bb:
            return "recon picture pts %d differs" % ea["pts"]
    return None


def diff_region(d, ra, hl=4):
    """'eos-tail' when the first difference lies in the last mini-GOP of the stream, else 'body'.  On the pinned tree the coding of the
    final pictures depends on whether the EOS signal reaches picture decision before the last picture has been dispatched (listed
    finding): differences confined to the tail are keyed separately so that they do not mask differences in the body of a stream."""
    import re
    m = re.search(r"packet (\d+)|pts (-?\d+)", d or "")
    if not m:
        return "body"
    k = int(m.group(1) if m.group(1) is not None else m.group(2))
    n = len(ra.packets())
    return "eos-tail" if k >= n - (1 << hl) - 1 else "body"


def run_status(r):
    """'ok' | 'rejected' | 'hang:<where>' | 'crash' | 'nojson'"""
    if r.hang:
        return "hang:%s:%s" % (r.hang.get("hang"), r.hang.get("where"))
    if r.crash:
        return "crash"
    if not r.json_ok:
        return "nojson"
    if not r.accepted():
        return "rejected"
    return "ok"


def differential(case, variants_of, label, variant="rel", timeout=240, env_of=None, pid="Cxx", need_base_ok=True):
    """Run base case and each variant case; returns (violations, statuses, results) — caller cleans up.
    variants_of: list of (name, case) ; first entry is the reference."""
    import svt as _svt
    results = []
    for name, c in variants_of:
        env = env_of(name) if env_of else None
        results.append((name, _svt.run_encode(c, variant, timeout=timeout, env=env)))
    base_name, base = results[0]
    st0 = run_status(base)
    viol = []
    statuses = {base_name: st0}
    for name, r in results[1:]:
        s = run_status(r)
        statuses[name] = s
        if st0 != "ok" or s != "ok":
            if st0 == "ok" and s != "ok" or st0 != "ok" and s == "ok":
                # one side fails where the other succeeds: that IS a dependence on the varied dimension,
                # but crashes/hangs are C11's subject; report as status divergence
                if (s == "rejected") != (st0 == "rejected"):
                    viol.append(dict(key="%s|accept-diverges|%s" % (pid, label), what="%s: %s is %s but %s is %s" % (label, base_name, st0, name, s)))
            continue
        d = first_difference(base, r)
        if d:
            reg = diff_region(d, base, (case.get("cfg") or {}).get("hierarchical_levels", 4))
            viol.append(dict(key="%s|output-differs|%s%s" % (pid, label, "|eos-tail" if reg == "eos-tail" else ""), what="%s vs %s: %s" % (base_name, name, d)))
    return viol, statuses, results
