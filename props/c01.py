"""C01 — encoder recon == independent decode (libaom AND dav1d) of the emitted stream, by display position."""
import os
from hypothesis import strategies as st
from props.common import svt, gens, enc_failure_info, ref_decode_all, summarize_cfg

ID = "C01"
LEVEL = "exploration"
TAG_KEYS = True   # violation keys get the configuration feature tag appended (engine.feature_tag)
RULE = ("Hypothesis draws (configuration override map within the accepted domain, content descriptor, N frames); each case is "
        "encoded with recon on, the packets are decoded by libaom 3.6.0 and dav1d 1.0.0 (dlopen) and every decoded picture is "
        "compared sample-for-sample with the recon buffer of the same display index. non-trivial = stream has >=1 inter-coded "
        "packet AND >=1 of {hidden frames (show-existing/alt-ref packets), >1 tile requested, 10-bit, superres, film grain, RC mode != 0, "
        "size not multiple of 8, preset <= 5, two-pass}; distinct = distinct (config, content, N) hash.")
ASSUMPTIONS = ["libaom 3.6.0 and dav1d 1.0.0 are conforming decoders (their mutual agreement is checked on every stream)",
               "the worker's synthetic content generator is deterministic"]


def variants(tier):
    return ["rel"]


def budget(tier):
    if tier == "thorough":
        return dict(shards=16, examples=400, seconds=1200, shrink_seconds=240, min_nontrivial=50)
    return dict(shards=16, examples=40, seconds=75, shrink_seconds=60, min_nontrivial=10)


def strategy(tier):
    thorough = tier == "thorough"
    @st.composite
    def s(draw):
        c, n, tp = draw(gens.cfg(max_dim=352 if thorough else 208, frames=(1, 40 if thorough else 14), allow_twopass=True,
                                 slow_p=25 if thorough else 8, lps=(1, 2, 4), exclude=("AQ1", "16BP", "TPL0", "GRAIN", "SRES", "MINQ0", "2PASS", "OVL")))
        cnt = draw(gens.content())
        return gens.case_from(c, n, tp, cnt)
    return s()


def check_stream(r, case, wd, want_digest=False):
    """shared oracle (also used by C22): returns (violations, info)"""
    viol = []
    n = case["frames"]
    pk = r.packets()
    rec = r.recons()
    bd = r.s.get("bd", 8)
    packets = [b for _, b in pk]
    info = dict(npk=len(pk), nrec=len(rec))
    if r.s.get("err_pkt"):
        viol.append(dict(key="C01|error-packet", what="encoder emitted an error packet"))
        return viol, info
    decs, _ = ref_decode_all(packets, wd)
    a, d = decs["aom"], decs["dav1d"]
    for name, x in (("libaom", a), ("dav1d", d)):
        if not x.ok or x.nerr:
            viol.append(dict(key="C01|decode-error|" + name, what="%s failed to decode the stream: nerr=%s exit=%s %s" % (name, x.nerr, x.exit, x.info.get("first_err", ""))))
    if viol:
        return viol, info
    if len(a.planes) != n or len(d.planes) != n:
        viol.append(dict(key="C01|picture-count", what="decoders returned %d/%d pictures for %d submitted" % (len(a.planes), len(d.planes), n)))
        return viol, info
    for k in range(n):
        if a.planes[k] != d.planes[k]:
            viol.append(dict(key="C01|decoders-disagree", what="libaom and dav1d disagree at display index %d" % k))
            return viol, info
    rec_by_pts = {}
    for e, b in rec:
        if e["pts"] in rec_by_pts:
            viol.append(dict(key="C01|recon-duplicate", what="two recon pictures with pts %d" % e["pts"]))
        rec_by_pts[e["pts"]] = b
    for k in range(n):
        if k not in rec_by_pts:
            viol.append(dict(key="C01|recon-missing", what="no recon picture for display index %d (have %s)" % (k, sorted(rec_by_pts)[:20])))
            break
        if svt.recon_to16(rec_by_pts[k], bd) != a.planes[k]:
            fr = a.frames[k]
            import numpy as np
            x = np.frombuffer(svt.recon_to16(rec_by_pts[k], bd), dtype="<u2")
            y = np.frombuffer(a.planes[k], dtype="<u2")
            if x.size != y.size:
                what = "recon size %d != decoded size %d (decoded %dx%d)" % (x.size, y.size, fr["w"], fr["h"])
            else:
                diff = np.nonzero(x != y)[0]
                what = "recon != decode at display index %d: %d samples differ, first at offset %d (recon %d, decoded %d)" % (k, diff.size, diff[0], x[diff[0]], y[diff[0]])
            sub = "size"
            if x.size == y.size:
                sub = "zero-recon" if not x.any() else ("few" if diff.size * 100 < x.size else "many")
            viol.append(dict(key="C01|recon-mismatch:" + sub, what=what))
            break
    return viol, info


def classify(case, r):
    c = case["cfg"]
    pk = r.packets()
    types = [e["pic_type"] for e, _ in pk]
    flags = [e["flags"] for e, _ in pk]
    inter = any(t in (0, 1, 4) for t in types)
    feats = []
    if any(f & 2 for f in flags) or any(f & 8 for f in flags):
        feats.append("hidden")
    if c.get("tile_rows", 0) or c.get("tile_columns", 0):
        feats.append("tiles")
    if c.get("encoder_bit_depth", 8) == 10:
        feats.append("10bit")
    if c.get("is_16bit_pipeline"):
        feats.append("16bitpipe")
    if c.get("superres_mode", 0):
        feats.append("superres")
    if c.get("film_grain_denoise_strength", 0):
        feats.append("grain")
    if c.get("rate_control_mode", 0):
        feats.append("rc%d" % c["rate_control_mode"])
    if c["source_width"] % 8 or c["source_height"] % 8:
        feats.append("non8")
    if c["enc_mode"] <= 5:
        feats.append("slowpreset")
    if case.get("twopass"):
        feats.append("twopass")
    if c.get("screen_content_mode", 2) == 1:
        feats.append("sc1")
    if c.get("enable_overlays"):
        feats.append("overlay")
    return inter, feats


def run_case(case, tier):
    r = svt.run_encode(case, "rel", timeout=240)
    try:
        if not r.json_ok and not r.hang and not r.crash:
            return dict(violations=[], nontrivial=False, dkey=None, classes=["no_json"], sample=None, inconclusive="no json exit=%s" % r.exit)
        inc = enc_failure_info(r)
        if inc:
            return dict(violations=[], nontrivial=False, dkey=None, classes=["encode_failed"], sample=summarize_cfg(case), inconclusive=inc)
        if not r.accepted():
            return dict(violations=[], nontrivial=False, dkey=None, classes=["rejected_config"], sample=None)
        viol, info = check_stream(r, case, r.workdir)
        inter, feats = classify(case, r)
        classes = ["preset%d" % case["cfg"]["enc_mode"]] + feats + (["inter"] if inter else ["intra_only"])
        sample = summarize_cfg(case)
        sample["observed"] = dict(info, pic_types=[e["pic_type"] for e, _ in r.packets()][:20], features=feats)
        return dict(violations=viol, nontrivial=bool(inter and feats), dkey=svt.case_hash(case), classes=classes, sample=sample)
    finally:
        r.cleanup()
