"""C25 — the entropy coder round-trips every symbol sequence (rapidcheck harness on the real writer and the decoder's real reader)."""
import json, os
from props.common import svt, engine, build
import inproc, harness

ID = "C25"
LEVEL = "exploration"
RULE = ("rapidcheck (16 processes, seeds derived from VERIF_SEED) generates sequences of {symbol(alphabet 2..16, one of 1-8 CDF tables), bool via the 8-bit probability API, "
        "bool via the direct Q15 API, literal(1..24 bits)} of length 0..5000 (one case in ~120: 24000..70000 operations of mostly 24-bit literals, i.e. an output beyond the coder's initial 62025-byte buffer) with CDFs built valid by construction (strictly decreasing inverse CDF ending in 0 + counter slot; shapes: "
        "near-uniform, one symbol ~32767/32768, last symbol dominant, random widths >= 1) and CDF adaptation on/off; plus an exhaustive sweep of all sequences of length 0..4 over "
        "alphabets 2..4 x 6 extreme CDFs x adaptation on/off. The encoder's real range coder (EbBitstreamUnit.c via aom_write_symbol/aom_write/aom_write_literal) writes; the decoder's "
        "real reader (EbDecBitReader.h / EbDecBitstreamUnit.h) reads from a buffer announcing exactly the emitted byte count. Oracle: the read sequence equals the written one, writer-side "
        "and reader-side CDF tables are equal after the sequence, nbytes <= ceil(tell/8). non-trivial = (length >= 16 with >= 2 alphabets) or (an extreme CDF column is coded) or >= 2 "
        "0xFF bytes in the output (carry propagation region); distinct = distinct FNV-64 of the full case text.")
ASSUMPTIONS = ["the reader is given 16 zero bytes after the announced size (look-ahead window; over-read of the bitstream buffer is C10's subject)",
               "CDFs are valid AV1 inverse CDFs (every symbol width >= 1/32768) as every caller constructs them"]


def prepare(tier):
    exe = harness.build("ec", "st", ["ec/ec_main.cc", "ec/ec_writer.c", "ec/ec_reader.c"], libs=("Enc", "Dec"), cxx=True, extra=["-lrapidcheck"])
    return dict(exe=exe, wd=svt.mkwork("c25"))


def jobs(ctx, tier, seed):
    n = 16
    per = 12000 if tier == "thorough" else 700
    out = []
    for i in range(n):
        ff = os.path.join(ctx["wd"], "fail%d.json" % i)
        out.append(dict(name="gen%d" % i, cmd=[ctx["exe"], "gen", ff], env=dict(inproc.rc_env(engine.derive_seed(seed, i), per), ASAN_OPTIONS="detect_leaks=0"),
                        fail=ff, timeout=3000 if tier == "thorough" else 600))
    return out


def _viol_from(what, txt):
    kind = "roundtrip"
    if "tell" in what:
        kind = "tell-under-reports"
    elif "CDF" in what:
        kind = "cdf-diverges"
    elif "AddressSanitizer" in what:
        kind = "asan"
    return dict(key="C25|" + kind, what=what, payload=dict(txt=txt) if txt else None)


def interpret(ctx, job, res):
    j = inproc.last_json(res["out"])
    viol = []
    if res["fail"]:
        try:
            f = json.loads(res["fail"])
            viol.append(_viol_from(f["what"], f.get("txt")))
        except Exception:
            viol.append(_viol_from("unparsable failure file: " + res["fail"][:200], None))
    san = svt.parse_sanitizer(res["err"])
    if san and not viol:
        viol.append(dict(key="C25|asan|%s" % san[0]["frame"], what="sanitizer report in the coder harness: " + san[0]["line"], payload=None))
    if j is None:
        if viol:
            return dict(evaluations=1, nontrivial=0, violations=viol)
        return dict(evaluations=0, nontrivial=0, inconclusive="harness produced no result (exit %s): %s" % (res["exit"], res["err"][-400:]))
    if (not j.get("generated_ok") or j.get("exhaustive_failures")) and not viol:
        viol.append(_viol_from("harness reported failure without a failure file", None))
    return dict(evaluations=j["cases"] + j["exhaustive_cases"], keys=j.get("keys", []), samples=j.get("samples", [])[:1],
                classes=dict(extreme_cdf=j["extreme_cdf"], carry_runs=j["carry_runs"], long_seqs=j["long_seqs"], beyond_initial_output_buffer=j.get("beyond_initial_buffer", 0), generated=j["cases"]),
                extra=dict(exhaustive_small_cases_per_process=j["exhaustive_cases"]), violations=viol)


def replay(ctx, payload, tier):
    p = os.path.join(ctx["wd"], "replay.txt")
    open(p, "w").write(payload["txt"] + "\n")
    r = inproc.run_job(dict(cmd=[ctx["exe"], "replay", p], env=dict(ASAN_OPTIONS="detect_leaks=0"), timeout=120))
    j = inproc.last_json(r["out"]) or {}
    if j.get("what"):
        return [_viol_from(j["what"], payload["txt"])]
    san = svt.parse_sanitizer(r["err"])
    if san:
        return [dict(key="C25|asan|%s" % san[0]["frame"], what=san[0]["line"])]
    return []


def main(argv):
    try:
        return inproc.main(__import__("props.c25", fromlist=["x"]), argv)
    finally:
        pass
