"""C17 — concurrent encoder / decoder instances in one process each produce their solo output."""
import hashlib, os, shutil
from hypothesis import strategies as st
from props.common import svt, gens, summarize_cfg, first_difference, run_status, diff_region

ID = "C17"
LEVEL = "exploration"
RULE = ("Hypothesis draws 2-3 instances for ONE process: encoder instances whose configurations differ deliberately in what is process-global in the library (superblock size via preset <= 4 vs >= 5, "
        "bit depth, ISA level via use_cpu_flags, resolution, logical_processors, pinning unpin=0) and optionally a decoder instance (threads 1 or 4, either pipeline bit depth) decoding a stream "
        "produced beforehand, each driven by its own application thread, either free-running with generated start offsets 0-400 ms (one instance runs init / deinit_handle while another is mid-stream) or phased (sessions built one after the other, all initialised before any sends, all drained before any is torn down: they overlap only while encoding). "
        "Oracle (differential): each instance's packets + recon (encoder) or decoded pictures (decoder) equal the output of the same instance run ALONE in a fresh process; no crash, no hang "
        "(deadlock signature). non-trivial = all instances completed in the concurrent run, their configurations differ in >= 1 global-affecting dimension and each instance has >= 4 pictures "
        "(lifetimes overlap); distinct = case hash.")
ASSUMPTIONS = ["instances that are nondeterministic on their own (listed C04 findings: rate control, AQ1) are not generated here",
               "the cross-instance data-race clause ('share no unsynchronised mutable state') is observed only through its effect on outputs and through ASan in the thorough tier; no race detector is used"]
CONFIRM_NEED = 2


def variants(tier):
    return ["rel", "asan"] if tier == "thorough" else ["rel"]


def budget(tier):
    if tier == "thorough":
        return dict(shards=12, examples=200, seconds=1200, shrink_seconds=240, min_nontrivial=30)
    return dict(shards=12, examples=20, seconds=75, shrink_seconds=60, min_nontrivial=6)


@st.composite
def enc_inst(draw):
    c = dict(source_width=draw(st.sampled_from([64, 96, 128, 176])), source_height=draw(st.sampled_from([64, 96, 128])), recon_enabled=1,
             enc_mode=draw(st.sampled_from([8, 8, 7, 6, 5, 4, 4, 3])), logical_processors=draw(st.sampled_from([1, 2, 4, 8])), qp=draw(st.sampled_from([20, 35, 50])),
             hierarchical_levels=draw(st.sampled_from([2, 3, 4])))
    if draw(st.integers(0, 2)) == 0:
        c["encoder_bit_depth"] = 10
    if draw(st.integers(0, 2)) == 0:
        c["use_cpu_flags"] = draw(st.sampled_from([0, 0x7F, 0x1FF]))   # C only / up to SSE4.2 / up to AVX2 (bit layout of CPU_FLAGS in EbSvtAv1.h)
    if draw(st.integers(0, 3)) == 0:
        c["unpin"] = 0
    if draw(st.integers(0, 3)) == 0:
        c["tile_columns"] = 1
    if draw(st.integers(0, 2)) == 0:
        c["enable_tpl_la"] = 0          # the non-TPL QP-scaling path (no decode in this check, so the listed TPL0 decode finding does not matter)
    if draw(st.integers(0, 3)) == 0:
        c["hierarchical_levels"] = draw(st.sampled_from([3, 4, 5]))
    n = draw(st.integers(4, 12))
    if c["enc_mode"] <= 4:
        n = min(n, 6)
    cnt = [draw(st.sampled_from([3, 5, 7, 2])), draw(st.integers(0, 2**30)), 50, draw(st.integers(0, 4)), 0]
    return dict(kind="enc", case=dict(cfg=c, frames=n, content=cnt), delay_ms=draw(st.sampled_from([0, 0, 30, 100, 250, 400])))


def strategy(tier):
    @st.composite
    def s(draw):
        insts = [draw(enc_inst()), draw(enc_inst())]
        k = draw(st.integers(0, 3))
        if k == 0:
            insts.append(draw(enc_inst()))
        elif k in (1, 2):
            src = draw(enc_inst())["case"]
            src["cfg"]["recon_enabled"] = 0
            insts.append(dict(kind="dec", src=src, threads=draw(st.sampled_from([1, 4])), is16=draw(st.integers(0, 1)), delay_ms=draw(st.sampled_from([0, 50, 200]))))
        # phased = sessions are constructed one after the other, all are initialised before any sends a picture and all are drained before any is
        # torn down (the instances overlap only while encoding: the scenario that is clean on the pinned tree); free-running = generated start offsets
        phased = draw(st.integers(0, 2)) > 0
        if phased:
            # long enough that most of the stream lies before the last mini-GOP (differences confined to the tail are a listed finding keyed separately)
            for x in insts:
                if x["kind"] == "enc" and x["case"]["cfg"]["enc_mode"] >= 5:
                    x["case"]["cfg"]["hierarchical_levels"] = draw(st.sampled_from([2, 3]))
                    x["case"]["frames"] = draw(st.integers(18, 28))
        if phased and draw(st.booleans()):
            # same preset / bit depth / ISA level, different QP and content: nothing process-global differs between the instances
            a, b = insts[0]["case"]["cfg"], insts[1]["case"]["cfg"]
            for k in ("enc_mode", "encoder_bit_depth", "use_cpu_flags", "enable_tpl_la", "hierarchical_levels", "logical_processors"):
                if k in a:
                    b[k] = a[k]
                else:
                    b.pop(k, None)
            b["qp"] = draw(st.sampled_from([x for x in (20, 35, 50) if x != a["qp"]]))
        return dict(insts=insts, asan=draw(st.booleans()), phased=phased)
    return s()


def _dec_digest(r):
    p = r.prefix + ".svt.yuv16"
    if not os.path.exists(p):
        return None
    return hashlib.sha256(open(p, "rb").read()).hexdigest()


def run_case(case, tier):
    variant = "asan" if (tier == "thorough" and case.get("asan")) else "rel"
    wd = svt.mkwork("c17")
    results = []
    try:
        # prepare decoder input streams and the per-instance worker cases
        wcases = []
        for i, ins in enumerate(case["insts"]):
            if ins["kind"] == "enc":
                wcases.append(dict(ins["case"], start_delay_us=ins["delay_ms"] * 1000))
            else:
                r = svt.run_encode(ins["src"], "rel", timeout=200)
                results.append(r)
                if not (r.completed() and r.accepted()):
                    return dict(violations=[], nontrivial=False, dkey=None, classes=["dec_source_failed"], sample=None)
                tu = os.path.join(wd, "s%d.tu" % i)
                svt.write_tu([b for _, b in r.packets()], tu)
                wcases.append(dict(dec=(tu, ins["threads"], ins["is16"]), start_delay_us=ins["delay_ms"] * 1000))
        env = None
        solo = []
        for wc in wcases:
            r = svt.run_encode(dict(wc, start_delay_us=0), variant, timeout=300, env=env)
            results.append(r)
            solo.append(r)
        for i, r in enumerate(solo):
            ok = (r.exit == 0 and r.json_ok) if case["insts"][i]["kind"] == "dec" else (run_status(r) == "ok")
            if not ok:
                return dict(violations=[], nontrivial=False, dkey=None, classes=["solo_failed"], sample=None,
                            inconclusive=None if (case["insts"][i]["kind"] == "enc" and run_status(r) == "rejected") else "solo run of instance %d failed: %s %s" % (i, run_status(r), (r.crash or "")[:200]))
        encs_ = [x["case"]["cfg"] for x in case["insts"] if x["kind"] == "enc"]
        gd = []
        if len({c["enc_mode"] <= 4 for c in encs_}) > 1:
            gd.append("sbsize")
        if len({c.get("encoder_bit_depth", 8) for c in encs_}) > 1:
            gd.append("bitdepth")
        if len({c.get("use_cpu_flags") for c in encs_}) > 1:
            gd.append("cpuflags")
        if any(x["kind"] == "dec" for x in case["insts"]):
            gd.append("dec")
        gdims = "+".join(gd) or "same-globals"
        if case.get("phased"):
            env = dict(env or {}, SVTDRV_PHASED="1")
            gdims = "phased|" + gdims
        conc = svt.run_encode(wcases[0], variant, timeout=400, env=env, extra_cases=wcases[1:])
        results += conc
        viol = []
        done = 0
        c0 = conc[0]
        if c0.hang and c0.hang.get("hang") == "deadlock":
            viol.append(dict(key="C17|deadlock|" + gdims, what="concurrent run hit the deadlock signature: %s" % c0.hang))
        elif c0.crash or c0.exit not in (0,):
            site = c0.san[0]["kind"] + "@" + str(c0.san[0]["frame"]) if c0.san else "signal"
            viol.append(dict(key="C17|crash|" + gdims + ("|" + site if site != "signal" else ""), what="process with %d concurrent instances died: %s" % (len(wcases), (c0.crash or "")[:300])))
        else:
            for i, (s, c) in enumerate(zip(solo, conc)):
                kind = case["insts"][i]["kind"]
                if kind == "dec":
                    a, b = _dec_digest(s), _dec_digest(c)
                    if not c.json_ok or b is None:
                        viol.append(dict(key="C17|instance-failed|dec", what="decoder instance %d did not complete in the concurrent run" % i))
                    elif a != b or (s.dec or {}).get("nerr") != (c.dec or {}).get("nerr"):
                        viol.append(dict(key="C17|output-differs|dec-%s-with-" % ("mt" if case["insts"][i]["threads"] > 1 else "st") + "+".join(sorted(x["kind"] for j, x in enumerate(case["insts"]) if j != i)),
                                         what="decoder instance %d (threads %d): decoded pictures differ from its solo run" % (i, case["insts"][i]["threads"])))
                    else:
                        done += 1
                else:
                    if run_status(c) != "ok":
                        viol.append(dict(key="C17|instance-failed|enc|" + gdims, what="encoder instance %d: %s in the concurrent run, ok alone" % (i, run_status(c))))
                        continue
                    d = first_difference(s, c)
                    if d:
                        others = [x for j, x in enumerate(case["insts"]) if j != i]
                        dim = []
                        me = case["insts"][i]["case"]["cfg"]
                        for o in others:
                            oc = o["case"]["cfg"] if o["kind"] == "enc" else None
                            if oc is None:
                                dim.append("dec")
                                continue
                            if (oc["enc_mode"] <= 4) != (me["enc_mode"] <= 4):
                                dim.append("sbsize")
                            if oc.get("encoder_bit_depth", 8) != me.get("encoder_bit_depth", 8):
                                dim.append("bitdepth")
                            if oc.get("use_cpu_flags") != me.get("use_cpu_flags"):
                                dim.append("cpuflags")
                        viol.append(dict(key="C17|output-differs|enc|" + gdims + ("|eos-tail" if diff_region(d, s, me.get("hierarchical_levels", 4)) == "eos-tail" else ""), what="encoder instance %d: %s" % (i, d)))
                    else:
                        done += 1
        encs = [x["case"]["cfg"] for x in case["insts"] if x["kind"] == "enc"]
        differ = len({(c["enc_mode"] <= 4, c.get("encoder_bit_depth", 8), c.get("use_cpu_flags"), c["source_width"], c["source_height"], c["logical_processors"]) for c in encs}) > 1 or len(encs) < len(case["insts"])
        classes = ["+".join(x["kind"] for x in case["insts"]), variant, "phased" if case.get("phased") else "free_running"]
        sample = dict(instances=[(x["case"]["cfg"] if x["kind"] == "enc" else dict(dec_threads=x["threads"], is16=x["is16"])) for x in case["insts"]],
                      delays_ms=[x["delay_ms"] for x in case["insts"]], completed=done)
        return dict(violations=viol, nontrivial=done == len(case["insts"]) and differ, dkey=svt.case_hash(case), classes=classes, sample=sample)
    finally:
        for r in results:
            r.cleanup()
        shutil.rmtree(wd, ignore_errors=True)
