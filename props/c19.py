"""C19 — intra refresh follows the configured period; shown key frames are random-access points."""
from hypothesis import strategies as st
from props.common import svt, gens, enc_failure_info, summarize_cfg, ref_decode_all
import av1parse as ap, streaminfo

ID = "C19"
LEVEL = "exploration"
TAG_KEYS = True   # violation keys get the configuration feature tag appended (engine.feature_tag)
RULE = ("Hypothesis draws intra_period_length in {-1,0..40} x intra_refresh_type {1,2} x hierarchical levels 0-5 x overlays x N in P+1..4(P+1)+3 (pictures are "
        "submitted with pic_type INVALID: no forced key frames). Oracle (a) from parsed headers: the display positions whose frame is intra coded (KEY or "
        "INTRA_ONLY; display position = index of the packet that shows the frame) equal {k(P+1)} within [0,N) ({0} for P=-1); for refresh type 2 each is a shown "
        "KEY_FRAME. (b) for every packet that carries a shown key frame, libaom and dav1d decode the packet suffix starting there without error and the pictures "
        "equal those of the full decode at the same display positions. non-trivial = P+1 not a multiple of the mini-GOP size or >=2 cut points tested; "
        "distinct = (config, N) hash.")
ASSUMPTIONS = ["AV1 decoders cannot start at an INTRA_ONLY frame, so for refresh type 1 (CRA) only placement is demanded"]


def variants(tier):
    return ["rel"]


def budget(tier):
    if tier == "thorough":
        return dict(shards=16, examples=500, seconds=900, shrink_seconds=200, min_nontrivial=50)
    return dict(shards=16, examples=60, seconds=60, shrink_seconds=45, min_nontrivial=10)


def strategy(tier):
    @st.composite
    def s(draw):
        c = dict(source_width=64, source_height=64, enc_mode=draw(st.sampled_from([8, 8, 8, 7, 6, 5])),
                 logical_processors=draw(st.sampled_from([1, 2, 4])), recon_enabled=0)
        if draw(st.integers(0, 3)) == 0:
            c["source_width"], c["source_height"] = draw(gens.sizes(128))
        hl = draw(st.integers(0, 5))
        c["hierarchical_levels"] = hl
        P = draw(st.one_of(st.sampled_from([-1, 0, 1, 2, 3, 4, 7, 8, 15, 16, 31, 32]), st.integers(0, 40)))
        c["intra_period_length"] = P
        c["intra_refresh_type"] = draw(st.sampled_from([1, 2, 2]))
        if draw(st.integers(0, 3)) == 0:
            c["enable_overlays"] = 1
        if draw(st.integers(0, 4)) == 0:
            c["look_ahead_distance"] = draw(st.sampled_from([0, 5, 16, 33]))
        if draw(st.integers(0, 5)) == 0:
            c["rate_control_mode"] = 1
        per = P + 1 if P >= 0 else 8
        n = draw(st.integers(per, min(4 * per + 3, 90 if tier == "quick" else 170)))
        n = max(1, n)
        cnt = draw(gens.content(kinds=(2, 3, 5, 7)))
        return gens.case_from(c, n, 0, cnt)
    return s()


def run_case(case, tier):
    r = svt.run_encode(case, "rel", timeout=240)
    try:
        inc = enc_failure_info(r)
        if inc:
            return dict(violations=[], nontrivial=False, dkey=None, classes=["encode_failed"], sample=summarize_cfg(case), inconclusive=inc)
        if not r.accepted():
            return dict(violations=[], nontrivial=False, dkey=None, classes=["rejected_config"], sample=None)
        pk = r.packets()
        packets = [b for _, b in pk]
        n = case["frames"]
        c = case["cfg"]
        P = c["intra_period_length"]
        si = streaminfo.analyze(packets)
        if si.error or si.unsupported:
            return dict(violations=[], nontrivial=False, dkey=None, classes=["parse_failed"], sample=summarize_cfg(case),
                        inconclusive="parser: %s %s" % (si.error, si.unsupported))
        if len(pk) != n:
            return dict(violations=[], nontrivial=False, dkey=None, classes=["packet_count_mismatch"], sample=summarize_cfg(case),
                        inconclusive="packet count %d != N %d (C03's subject)" % (len(pk), n))
        viol = []
        # display position of each coded frame: the packet whose displayed frame is (or shows) it
        intra_pos = {}
        shown_key_packets = []
        for k, tu in enumerate(si.tus):
            d = tu["displayed"]
            if d is None:
                continue
            h = d["shown_hdr"] if d["show_existing_frame"] else d
            if h is not None and h["frame_type"] in (ap.KEY_FRAME, ap.INTRA_ONLY_FRAME):
                intra_pos[k] = h["frame_type"]
            if not d["show_existing_frame"] and d["frame_type"] == ap.KEY_FRAME and d["show_frame"]:
                shown_key_packets.append(k)
        # hidden intra frames never shown would be a placement problem too
        coded_intra = sum(1 for h in si.frames if h["frame_type"] in (ap.KEY_FRAME, ap.INTRA_ONLY_FRAME))
        want = {0} if P < 0 else set(range(0, n, P + 1))
        got = set(intra_pos)
        if got != want:
            viol.append(dict(key="C19|placement|" + ("missing" if want - got else "extra"), what="intra frames displayed at %s, expected %s (P=%d, type %d, hl %d, N=%d)" % (
                sorted(got), sorted(want), P, c["intra_refresh_type"], c["hierarchical_levels"], n)))
        elif coded_intra != len(want):
            viol.append(dict(key="C19|placement|hidden-intra", what="%d intra frames coded but %d displayed positions" % (coded_intra, len(want))))
        if c["intra_refresh_type"] == 2 and not viol:
            for k in sorted(want):
                d = si.tus[k]["displayed"]
                if d["show_existing_frame"] or d["frame_type"] != ap.KEY_FRAME or d["refresh_frame_flags"] != 0xFF:
                    viol.append(dict(key="C19|idr-not-shown-key|" + ("P0" if c["intra_period_length"] == 0 else "P>0"), what="position %d: IDR refresh expects a shown KEY_FRAME refreshing all slots, got type %d show_existing %d refresh %#x" % (
                        k, d["frame_type"], d["show_existing_frame"], d.get("refresh_frame_flags", 0))))
                    break
        cuts = 0
        if not viol and shown_key_packets:
            full, _ = ref_decode_all(packets, r.workdir, "full")
            if all(x.ok and not x.nerr and len(x.planes) == n for x in full.values()):
                cand = [k for k in shown_key_packets if k > 0]
                # test up to 4 cut points (first, last, two in the middle)
                sel = sorted(set(cand[:1] + cand[-1:] + cand[len(cand) // 2:len(cand) // 2 + 1] + cand[len(cand) // 3:len(cand) // 3 + 1]))
                for k in sel:
                    suf, _ = ref_decode_all(packets, r.workdir, "cut%d" % k, start=k)
                    for name, x in suf.items():
                        if not x.ok or x.nerr:
                            viol.append(dict(key="C19|suffix-decode-error|" + name, what="%s cannot decode the stream suffix starting at key-frame packet %d: %s" % (name, k, x.info.get("first_err", x.nerr))))
                            break
                        if len(x.planes) != n - k:
                            viol.append(dict(key="C19|suffix-count|" + name, what="suffix from packet %d gives %d pictures, expected %d" % (k, len(x.planes), n - k)))
                            break
                        for j, pl in enumerate(x.planes):
                            if pl != full[name].planes[k + j]:
                                viol.append(dict(key="C19|suffix-mismatch", what="%s: picture at display position %d differs when decoding starts at key-frame packet %d" % (name, k + j, k)))
                                break
                        if viol:
                            break
                    cuts += 1
                    if viol:
                        break
            else:
                return dict(violations=[], nontrivial=False, dkey=None, classes=["full_decode_failed"], sample=summarize_cfg(case),
                            inconclusive="full decode failed (C01's subject)")
        mg = 1 << c["hierarchical_levels"]
        nt = (P >= 0 and (P + 1) % mg != 0) or cuts >= 2
        classes = ["type%d" % c["intra_refresh_type"], "hl%d" % c["hierarchical_levels"], "cuts%d" % min(cuts, 3)]
        if P >= 0 and (P + 1) % mg:
            classes.append("period_not_multiple_of_minigop")
        sample = summarize_cfg(case)
        sample["observed"] = dict(intra_positions=sorted(got)[:20], cut_points_tested=cuts)
        return dict(violations=viol, nontrivial=bool(nt), dkey=svt.case_hash(case), classes=classes, sample=sample)
    finally:
        r.cleanup()
