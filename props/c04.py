"""C04 — encoding is deterministic under every thread interleaving, and terminates."""
from hypothesis import strategies as st
from props.common import svt, gens, summarize_cfg, first_difference, run_status, diff_region

ID = "C04"
LEVEL = "exploration"
TAG_KEYS = True   # violation keys get the configuration feature tag appended (engine.feature_tag)
RULE = ("Hypothesis draws a small (configuration, content, N; lp 2..16, tiles, TPL, RC modes) and 2-3 schedules: H1 perturbation strings seed:permille:max_us "
        "(1-30% of the mutex/semaphore/cond-var wrapper calls yield or sleep 0..2 ms, per-thread decision streams) optionally combined with a CPU squeeze to 1-3 cores "
        "(sched_setaffinity via taskset). Oracle: packets (bytes+metadata) and recon of every perturbed run equal the unperturbed run of the same case, and every run "
        "terminates (deadlock signature = no API progress and <2% CPU for 20 s). non-trivial = >=2 perturbed runs completed with >=200 perturbation events each, lp>=2, "
        "stream has inter frames; distinct = (case, schedules) hash.")
ASSUMPTIONS = ["sampled schedules (perturbation, not enumeration); a race needing a specific preemption inside a non-instrumented region can be missed",
               "the deadlock signature, not a bare timeout, decides non-termination"]
CONFIRM_NEED = 2


def variants(tier):
    return ["rel"]


def budget(tier):
    if tier == "thorough":
        return dict(shards=8, examples=400, seconds=1500, shrink_seconds=300, min_nontrivial=40)
    return dict(shards=12, examples=30, seconds=100, shrink_seconds=60, min_nontrivial=3)


def strategy(tier):
    @st.composite
    def s(draw):
        c, n, tp = draw(gens.cfg(max_dim=208, min_dim=64, frames=(4, 24 if tier == "thorough" else 14), allow_twopass=False, allow_rc=False, exclude=("AQ1", "GRAIN", "SRES", "2PASS", "16BP"), lps=(2, 3, 4, 8, 16),
                                 presets=(8, 8, 7, 6, 5), tools_p=1, allow_superres=False, allow_grain=False))
        cnt = draw(gens.content(kinds=(2, 3, 5, 7)))
        if draw(st.integers(0, 4)) == 0:
            # pictures large enough for the per-picture stages to be split into several segments (temporal filter, ME, EncDec, CDEF/restoration)
            c["source_width"], c["source_height"] = draw(st.sampled_from([(640, 360), (704, 288), (352, 416), (608, 352), (1280, 192)]))
            c["enc_mode"] = draw(st.sampled_from([8, 7, 6, 6]))
            c["logical_processors"] = draw(st.sampled_from([4, 8, 16]))
            c.pop("tile_rows", None)
            n = min(n, 9)
        scheds = []
        for _ in range(draw(st.integers(2, 3))):
            # (permille, max_us) pairs with a bounded expected delay per sync point (<= ~30 us) so that a perturbed run stays within
            # a few times the unperturbed run time: many tiny yields ... few long sleeps
            pm, mu = draw(st.sampled_from([(300, 0), (300, 50), (100, 0), (100, 300), (30, 300), (30, 1000), (10, 2000), (3, 5000)]))
            sd = dict(seed=draw(st.integers(0, 10**6)), permille=pm, max_us=mu, cpus=draw(st.sampled_from([0, 0, 0, 1, 2, 3])))
            scheds.append(sd)
        case = gens.case_from(c, n, tp, cnt)
        case["scheds"] = scheds
        return case
    return s()


def run_with(base, sd):
    import os, subprocess
    env = {}
    if sd:
        env["SVT_VERIF_SCHED"] = "%d:%d:%d" % (sd["seed"], sd["permille"], sd["max_us"])
        if sd.get("cpus"):
            env["SVTDRV_TASKSET"] = ",".join(str(i) for i in range(sd["cpus"]))
    return svt.run_encode(base, "rel", timeout=240, env=env)


def run_case(case, tier):
    base = {k: v for k, v in case.items() if k != "scheds"}
    ref = run_with(base, None)
    results = [ref]
    try:
        viol = []
        st0 = run_status(ref)
        statuses = {"unperturbed": st0}
        if st0.startswith("hang:deadlock"):
            viol.append(dict(key="C04|deadlock|" + str(ref.hang.get("where")), what="unperturbed run: deadlock signature %s" % ref.hang))
        good = 0
        for i, sd in enumerate(case["scheds"]):
            r = run_with(base, sd)
            results.append(r)
            s = run_status(r)
            name = "sched%d" % i
            statuses[name] = s
            if s.startswith("hang:deadlock"):
                viol.append(dict(key="C04|deadlock|" + str(r.hang.get("where")), what="schedule %s: deadlock signature %s" % (sd, r.hang)))
                continue
            if s == "ok" and st0 == "ok":
                ev = r.s.get("sched_events", 0)
                if ev >= 200:
                    good += 1
                d = first_difference(ref, r)
                if d:
                    rcm = base["cfg"].get("rate_control_mode", 0)
                    viol.append(dict(key="C04|nondeterministic|" + ("cqp" if not rcm else "rc%d" % rcm) + ("|eos-tail" if diff_region(d, ref, base["cfg"].get("hierarchical_levels", 4)) == "eos-tail" else ""), what="schedule %s (events %d) vs unperturbed: %s" % (sd, ev, d)))
        inc = None
        if st0 not in ("ok", "rejected") and not viol:
            inc = "reference run failed: %s" % st0
        inter = any(e["pic_type"] in (0, 1, 4) for e, _ in ref.packets()) if st0 == "ok" else False
        sample = summarize_cfg(base)
        sample["schedules"] = case["scheds"]
        sample["observed"] = dict(statuses, sched_events=[r.s.get("sched_events") for r in results[1:] if r.json_ok])
        classes = ["good%d" % good, "lp%d" % base["cfg"]["logical_processors"]] + [s.split(":")[0] for s in statuses.values() if s != "ok"]
        if any(sd.get("cpus") for sd in case["scheds"]):
            classes.append("cpu_squeeze")
        return dict(violations=viol, nontrivial=good >= 2 and inter, dkey=svt.case_hash(case), classes=classes, sample=sample, inconclusive=inc)
    finally:
        for r in results:
            r.cleanup()
