"""C14 — API calls in any order return error codes instead of crashing or blocking."""
from hypothesis import strategies as st
from props.common import svt
import api

ID = "C14"
LEVEL = "exploration"
RULE = ("Hypothesis draws call programs over the public encoder and decoder API: a legal skeleton (init_handle, set_parameter valid/invalid, init, stream_header(+release), "
        "<= 8 send_picture, non-blocking get_packet/get_recon at any point after init, EOS, documented blocking get_packet, release_out_buffer, get_stream_info, deinit, "
        "deinit_handle; decoder likewise with a valid stream or garbage) into which NULL-argument variants of every call (each pointer argument independently NULL) are "
        "spliced at random positions, plus the reject->accept histories. Executed in one process by apidrv. Oracle: the process survives every call (no signal, no ASan "
        "report), every NULL-argument call returns a code != EB_ErrorNone (void functions: just return), a valid set_parameter after a rejected one returns EB_ErrorNone, "
        "and no call blocks with the process idle (per-call deadlock signature, 8 s; the documented blocking get_packet after EOS gets 48 s). non-trivial = program "
        "contains >=1 NULL-argument call after a successful init_handle, or a reject->accept pair; distinct = program hash.")
ASSUMPTIONS = ["non-NULL calls follow the documented order; calling e.g. send_picture before init is outside the documented protocol and not generated",
               "decoder packets are passed in exact-size heap buffers"]
E_NONE = 0
VALID_CFG = "source_width=64 source_height=64 enc_mode=8 logical_processors=2 recon_enabled=%d"
INVALID = ["qp=64", "source_width=63", "enc_mode=9", "tile_columns=5", "hierarchical_levels=6", "rate_control_mode=3", "intra_refresh_type=0", "profile=3"]


def variants(tier):
    return ["asan" if tier == "thorough" else "rel"]


def budget(tier):
    if tier == "thorough":
        return dict(shards=16, examples=600, seconds=900, shrink_seconds=200, min_nontrivial=60)
    return dict(shards=16, examples=60, seconds=60, shrink_seconds=45, min_nontrivial=10)


NULLS_ENC = ["enc_init_handle N V", "enc_init_handle V N", "enc_init_handle N N", "enc_set_param N V", "enc_set_param V N", "enc_set_param N N", "enc_init N",
             "enc_stream_header N V", "enc_stream_header V N", "enc_stream_header_release N", "enc_send N V", "enc_send V N", "enc_send N N",
             "enc_get_packet N V 0", "enc_get_packet V N 0", "enc_get_packet N N 0", "enc_release N", "enc_release Z", "enc_get_recon N V", "enc_get_recon V N",
             "enc_stream_info N 1 V", "enc_stream_info V 1 N", "enc_stream_info V 7 V", "enc_eos_nal N V", "enc_eos_nal V N", "enc_deinit N", "enc_deinit_handle N"]
NULLS_DEC = ["dec_init_handle N V", "dec_init_handle V N", "dec_set_param N V", "dec_set_param V N", "dec_init N", "dec_frame N V", "dec_frame V N 10",
             "dec_get_picture N V V V", "dec_get_picture V N V V", "dec_deinit N", "dec_deinit_handle N"]
# NULL calls that need the corresponding handle to exist (the other argument is "valid")
NEED_H = {"enc_set_param V N", "enc_stream_header V N", "enc_send V N", "enc_get_packet V N 0", "enc_get_recon V N", "enc_stream_info V 1 N", "enc_stream_info V 7 V", "enc_eos_nal V N",
          "dec_set_param V N", "dec_frame V N 10", "dec_frame V N 0", "dec_get_picture V N V V", "dec_get_picture V V N V", "dec_get_picture V V V N"}
NEED_INIT = {"enc_stream_header V N", "enc_send V N", "enc_get_packet V N 0", "enc_get_recon V N", "enc_stream_info V 1 N", "enc_stream_info V 7 V", "enc_eos_nal V N",
             "dec_frame V N 10", "dec_frame V N 0", "dec_get_picture V N V V", "dec_get_picture V V N V", "dec_get_picture V V V N"}


@st.composite
def enc_program(draw):
    recon = draw(st.integers(0, 1))
    prog = ["enc_init_handle V V"]
    # set_parameter history
    hist = draw(st.sampled_from(["valid", "reject_accept", "reject_accept", "valid_valid", "reject_reject_accept"]))
    cfgline = "enc_set_param V V " + VALID_CFG % recon
    steps = {"valid": ["v"], "reject_accept": ["r", "v"], "valid_valid": ["v", "v"], "reject_reject_accept": ["r", "r", "v"]}[hist]
    for s in steps:
        if s == "v":
            prog += ["enc_cfg_reset", cfgline]
        else:
            prog += ["enc_cfg_reset", "enc_set_param V V source_width=64 source_height=64 " + draw(st.sampled_from(INVALID))]
    stop = draw(st.sampled_from(["after_param", "after_init", "full", "full", "full"]))
    if stop != "after_param":
        prog.append("enc_init V")
        if draw(st.booleans()):
            prog += ["enc_stream_header V V", "enc_stream_header_release V"]
        if stop == "full":
            n = draw(st.integers(0, 8))
            for k in range(n):
                prog.append("enc_send V V")
                for _ in range(draw(st.integers(0, 2))):
                    prog += ["enc_get_packet V V 0", "enc_release V"]
                if recon and draw(st.booleans()):
                    prog.append("enc_get_recon V V")
                if draw(st.integers(0, 5)) == 0:
                    prog += ["enc_stream_header V V", "enc_stream_header_release V"]
            if n and draw(st.integers(0, 3)) > 0:
                prog.append("enc_send V E")
                for k in range(n):
                    if recon:
                        prog.append("enc_get_recon V V")
                    prog += ["enc_get_packet V V 1", "enc_release V"]
                if draw(st.booleans()):
                    prog.append("enc_stream_info V 1 V")
        prog.append("enc_deinit V")
    prog.append("enc_deinit_handle V")
    return prog


@st.composite
def dec_program(draw):
    prog = ["dec_init_handle V V", "dec_set_param V V threads=%d" % draw(st.sampled_from([1, 1, 2, 4]))]
    stop = draw(st.sampled_from(["after_param", "full", "full"]))
    if stop == "full":
        prog.append("dec_init V")
        kind = draw(st.sampled_from(["valid", "valid", "garbage", "mixed"]))
        # always decode at least one valid TU first (by-construction exclusion of the known teardown-without-decode crash; counted)
        prog += ["dec_frame V V", "dec_get_picture V V V V"]
        for k in range(draw(st.integers(0, 5))):
            g = kind == "garbage" or (kind == "mixed" and draw(st.booleans()))
            prog.append("dec_frame V G %d" % draw(st.sampled_from([1, 2, 17, 64, 300])) if g else "dec_frame V V")
            if draw(st.booleans()):
                prog.append("dec_get_picture V V V V")
        prog.append("dec_deinit V")
    prog.append("dec_deinit_handle V")
    return prog


def splice(draw, prog, nulls):
    out = []
    have_h = False
    inited = False
    for ln in prog:
        out.append(ln)
        if ln.endswith("init_handle V V"):
            have_h = True
        if ln in ("enc_init V", "dec_init V"):
            inited = True
        if ln.endswith("deinit V"):
            inited = False
        if ln.endswith("deinit_handle V"):
            have_h = False
            continue
        for _ in range(draw(st.integers(0, 2)) if draw(st.integers(0, 2)) == 0 else 0):
            c = draw(st.sampled_from(nulls))
            if c == "dec_init_handle V N" and have_h:
                continue  # creating a second decoder handle while one is live is C17's subject (process-global decoder state)
            if c in NEED_INIT and not inited:
                continue
            if c in NEED_H and not have_h:
                continue
            out.append(c)
    return out


def strategy(tier):
    @st.composite
    def s(draw):
        which = draw(st.sampled_from(["enc", "enc", "dec", "both"]))
        prog = []
        if which in ("enc", "both"):
            prog += splice(draw, draw(enc_program()), NULLS_ENC)
        if which in ("dec", "both"):
            prog += ["stream @STREAM@"] + splice(draw, draw(dec_program()), NULLS_DEC)
        # leading NULL calls with no session at all
        pre = [draw(st.sampled_from([c for c in NULLS_ENC + NULLS_DEC if c not in NEED_H])) for _ in range(draw(st.integers(0, 2)))]
        return dict(prog=pre + prog)
    return s()


_stream = {}


def prepare(tier):
    """a small valid stream for the decoder programs (encoded by the current tree)"""
    import os
    case = dict(cfg=dict(source_width=64, source_height=64, enc_mode=8, logical_processors=2), frames=8, content=[5, 3, 50, 2, 0])
    r = svt.run_encode(case, "rel", timeout=120)
    p = os.path.join(svt.WORK_ROOT, "c14-stream-%d.tu" % os.getpid())
    if r.completed() and r.accepted():
        svt.write_tu([b for _, b in r.packets()], p)
        _stream["path"] = p
    r.cleanup()


def is_null_call(ln):
    t = ln.split()
    return ln in NULLS_ENC or ln in NULLS_DEC


def run_case(case, tier):
    variant = "asan" if tier == "thorough" else "rel"
    if "path" not in _stream:
        prepare(tier)
    prog = [ln.replace("@STREAM@", _stream.get("path", "/nonexistent")) for ln in case["prog"]]
    res = api.run_script(prog, variant, timeout=150)
    recs = res["recs"]
    viol = []
    done = any("done" in r for r in recs)
    executed = [r for r in recs if "i" in r]
    lines = [ln for ln in prog if ln.strip() and not ln.startswith("#")]
    blocked = next((r for r in recs if "blocked" in r), None)
    for rep in res["san"]:
        viol.append(dict(key="C14|%s|%s" % (rep["kind"], rep["frame"]), what=rep["line"] + " stack=" + ",".join(rep.get("stack", [])[:5])))
        break
    if blocked is not None:
        k = blocked["blocked"]
        ln = lines[k] if k < len(lines) else "?"
        viol.append(dict(key="C14|blocks|" + " ".join(ln.split()[:4])[:40], what="call %d `%s` blocked with the process idle for %.0f s (history: %s)" % (k, ln[:60], blocked.get("idle_s", 0), [l[:40] for l in lines[max(0, k - 4):k]])))
    elif any("slow" in r for r in recs):
        k = next(r["slow"] for r in recs if "slow" in r)
        ln = lines[k] if k < len(lines) else "?"
        viol.append(dict(key="C14|livelock|" + " ".join(ln.split()[:3])[:40], what="call %d `%s` kept the CPU busy without returning for > 80 s" % (k, ln[:60])))
    elif not done and not res["san"]:
        k = len(executed)
        ln = lines[k] if k < len(lines) else "?"
        sig = res["exit"]
        viol.append(dict(key="C14|crash|" + " ".join(ln.split()[:4])[:40], what="process died (exit %s) inside call %d `%s` (history: %s)" % (sig, k, ln[:60], [l[:40] for l in lines[max(0, k - 4):k]])))
    # return codes
    prev_reject = False
    for r in executed:
        ln = lines[r["i"]] if r["i"] < len(lines) else ""
        if is_null_call(ln) and "rc" in r and r["rc"] == E_NONE and not ln.startswith("enc_stream_info V 7"):
            viol.append(dict(key="C14|null-accepted|" + ln[:40], what="`%s` returned EB_ErrorNone" % ln))
        if ln.startswith("enc_stream_info V 7") and r.get("rc") == E_NONE:
            viol.append(dict(key="C14|bad-id-accepted", what="get_stream_info with an invalid id returned EB_ErrorNone"))
        if ln.startswith("enc_set_param V V"):
            invalid = any(x in ln for x in INVALID)
            if invalid and r.get("rc") == E_NONE:
                pass  # C12's subject
            if not invalid and prev_reject and r.get("rc") != E_NONE:
                viol.append(dict(key="C14|accept-after-reject-fails", what="valid set_parameter after a rejected one returned %#x" % r.get("rc")))
            prev_reject = invalid and r.get("rc") != E_NONE
    nulls = sum(1 for ln in lines if is_null_call(ln))
    ra = any("reject" in "" for _ in [0])
    has_ra = False
    last_inv = False
    for ln in lines:
        if ln.startswith("enc_set_param V V"):
            inv = any(x in ln for x in INVALID)
            if last_inv and not inv:
                has_ra = True
            last_inv = inv
    seen, out = set(), []
    for v in viol:
        if v["key"] not in seen:
            seen.add(v["key"])
            out.append(v)
    classes = ["nulls%d" % min(nulls, 3)] + (["reject_accept"] if has_ra else []) + (["enc"] if any(l.startswith("enc_init_handle V V") for l in lines) else []) + \
              (["dec"] if any(l.startswith("dec_init_handle V V") for l in lines) else [])
    return dict(violations=out, nontrivial=bool(nulls or has_ra), dkey=svt.case_hash(case), classes=classes,
                sample=dict(program=[l[:60] for l in lines][:40], executed=len(executed), exit=res["exit"]))
