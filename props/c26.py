"""C26 — reported per-frame SSE values are exact (32-bit) w.r.t. the picture decoded from the packet."""
import numpy as np
from hypothesis import strategies as st
from props.common import svt, gens, enc_failure_info, summarize_cfg, ref_decode_all

ID = "C26"
LEVEL = "exploration"
TAG_KEYS = True   # violation keys get the configuration feature tag appended (engine.feature_tag)
RULE = ("Hypothesis draws 8-bit (configuration with stat_report=1, content, N): sizes incl. non-multiples of 8, presets, tf_level -1/0/1, hierarchical levels, overlays, "
        "16-bit pipeline; film-grain denoise 0 and superres off (outside the property's quantifier). Oracle: each packet is decoded (libaom) to its displayed picture; "
        "per plane the sum of squared differences between the submitted picture's visible samples and that picture, reduced mod 2^32, must equal luma_sse/cb_sse/cr_sse "
        "of the packet. non-trivial = stream has a packet whose SSE > 0, >= 3 frames, and both reference and non-reference packets; distinct = (config, content, N) hash.")
ASSUMPTIONS = ["libaom's decode of the stream is the picture 'decoded from that packet' (C01 ties it to dav1d and the recon)"]


def variants(tier):
    return ["rel"]


def budget(tier):
    if tier == "thorough":
        return dict(shards=16, examples=400, seconds=900, shrink_seconds=200, min_nontrivial=50)
    return dict(shards=16, examples=40, seconds=60, shrink_seconds=45, min_nontrivial=8)


def strategy(tier):
    @st.composite
    def s(draw):
        c, n, tp = draw(gens.cfg(max_dim=176, frames=(1, 16), allow_twopass=False, lps=(1, 2, 4), presets=(8, 8, 7, 6, 5, 4), tools_p=1,
                                 allow_superres=False, allow_grain=False, allow_10bit=False))
        c["stat_report"] = 1
        c["recon_enabled"] = 0
        if draw(st.booleans()):
            c["tf_level"] = draw(st.sampled_from([-1, 0, 1]))
        cnt = draw(gens.content(kinds=(2, 3, 5, 7, 6, 1)))
        case = gens.case_from(c, n, tp, cnt)
        case["dump_input"] = 1
        return case
    return s()


def run_case(case, tier):
    r = svt.run_encode(case, "rel", timeout=240)
    try:
        inc = enc_failure_info(r)
        if inc:
            return dict(violations=[], nontrivial=False, dkey=None, classes=["encode_failed"], sample=summarize_cfg(case), inconclusive=inc)
        if not r.accepted():
            return dict(violations=[], nontrivial=False, dkey=None, classes=["rejected_config"], sample=None)
        pk = r.packets()
        n = case["frames"]
        w, h = case["cfg"]["source_width"], case["cfg"]["source_height"]
        if len(pk) != n:
            return dict(violations=[], nontrivial=False, dkey=None, classes=["packet_count_mismatch"], sample=summarize_cfg(case), inconclusive="packet count (C03's subject)")
        decs, _ = ref_decode_all([b for _, b in pk], r.workdir, decs=("aom",))
        a = decs["aom"]
        if not a.ok or a.nerr or len(a.planes) != n:
            return dict(violations=[], nontrivial=False, dkey=None, classes=["decode_failed"], sample=summarize_cfg(case), inconclusive="decode failed (C01's subject)")
        inp = np.fromfile(r.prefix + ".in", dtype="<u2")
        fsz = w * h * 3 // 2
        viol = []
        anypos = False
        for k, (e, _) in enumerate(pk):
            src = inp[k * fsz:(k + 1) * fsz].astype(np.int64)
            dec = np.frombuffer(a.planes[k], dtype="<u2").astype(np.int64)
            if dec.size != fsz:
                return dict(violations=[], nontrivial=False, dkey=None, classes=["size_mismatch"], sample=summarize_cfg(case), inconclusive="decoded size differs")
            d2 = (src - dec) ** 2
            want = [int(d2[:w * h].sum()) & 0xFFFFFFFF, int(d2[w * h:w * h + w * h // 4].sum()) & 0xFFFFFFFF, int(d2[w * h + w * h // 4:].sum()) & 0xFFFFFFFF]
            got = e["sse"]
            if want[0] or want[1] or want[2]:
                anypos = True
            if got != want:
                plane = "luma" if got[0] != want[0] else ("cb" if got[1] != want[1] else "cr")
                kind = "nonref" if e["pic_type"] == 4 else "ref"
                sw = got[1] == want[2] and got[2] == want[1] and got[0] == want[0]
                tag = "cb-cr-swapped" if sw else plane
                if case["cfg"].get("is_16bit_pipeline"):
                    tag += "|16bit-pipeline"
                viol.append(dict(key="C26|sse-mismatch|%s|%s" % (kind, tag), what="packet %d (pic_type %d): reported sse %s, computed %s" % (k, e["pic_type"], got, want)))
                break
        types = {e["pic_type"] for e, _ in pk}
        nt = anypos and n >= 3 and 4 in types and len(types) >= 2
        classes = ["preset%d" % case["cfg"]["enc_mode"], "tf%s" % case["cfg"].get("tf_level", "d")] + (["non8"] if w % 8 or h % 8 else [])
        sample = summarize_cfg(case)
        sample["observed"] = dict(sse=[e["sse"] for e, _ in pk][:6], pic_types=sorted(types))
        return dict(violations=viol, nontrivial=bool(nt), dkey=svt.case_hash(case), classes=classes, sample=sample)
    finally:
        r.cleanup()
