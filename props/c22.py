"""C22 — long streams across order-hint and queue wrap-around; order-hint distance helpers (exhaustive)."""
import json, os, subprocess, time
from hypothesis import strategies as st
from props.common import svt, gens, enc_failure_info, summarize_cfg, engine, build
from props import c01, c03

ID = "C22"
LEVEL = "exploration"
TAG_KEYS = True   # violation keys get the configuration feature tag appended (engine.feature_tag)
RULE = ("(a) exhaustive: for bits in 1..8 and all a,b in [0,2^bits) the five order-hint distance helpers (get_relative_dist_enc, the three file-local encoder copies via "
        "H5 accessors, the decoder copy) must equal ((a-b+m) mod 2m)-m, m=2^(bits-1), and 0 when order hints are disabled (static harness on the real objects). "
        "(b) Hypothesis draws 64x64 preset-8 streams with N in {130..5100} (beyond 2^7 order hints, the 2048-deep reorder queues, the 5000-deep reference queues) x "
        "hierarchical levels x intra period {-1,31,255,2047,2048} x overlays; the C01 oracle (libaom+dav1d decode == recon) and the C03 ledger are applied to the long "
        "stream. non-trivial = N > 128 (order-hint wrap) for streams, |a-b| >= m triples for helpers; distinct = (config, N) hash / distinct triples.")
ASSUMPTIONS = ["long streams use the cheapest configuration (64x64, preset 8) so that thousands of frames fit the budget"]


def variants(tier):
    return ["rel", "stp"]


def budget(tier):
    if tier == "thorough":
        return dict(shards=14, examples=40, seconds=1500, shrink_seconds=60, min_nontrivial=8)
    return dict(shards=12, examples=12, seconds=150, shrink_seconds=30, min_nontrivial=4)


def strategy(tier):
    @st.composite
    def s(draw):
        if tier == "thorough":
            n = draw(st.sampled_from([130, 300, 700, 2100, 2300, 5100]))
        else:
            n = draw(st.sampled_from([135, 140, 200, 260, 300, 520]))
        # presets <= 5 use several references per list (the order-hint distance helpers then really choose between candidates that
        # straddle the wrap); high QP makes skip-mode / compound decisions matter. Slow presets only with N <= 300.
        pm = draw(st.sampled_from([8, 8, 8, 5, 5, 4])) if n <= 300 else 8
        c = dict(source_width=64, source_height=64, enc_mode=pm, qp=draw(st.sampled_from([20, 50, 58, 63])), recon_enabled=1, logical_processors=draw(st.sampled_from([2, 4])),
                 hierarchical_levels=draw(st.sampled_from([0, 2, 3, 4, 5])), intra_period_length=draw(st.sampled_from([-1, 31, 255, 2047, 2048, -2])))
        # enable_overlays is not drawn: overlays have listed crash / stall findings (C11, C27) that would end every long stream early
        cnt = [draw(st.sampled_from([3, 5, 1])), draw(st.integers(0, 9999)), 50, 1, 0]
        return gens.case_from(c, n, 0, cnt)
    return s()


_helper = {}


def prepare(tier):
    """build and run the exhaustive helper harness once; result cached for finalize()"""
    import harness
    exe = harness.build("reldist", "stp", ["reldist.c"])
    t0 = time.time()
    p = subprocess.run([exe], stdout=subprocess.PIPE, stderr=subprocess.PIPE, timeout=600)
    out = p.stdout.decode()
    try:
        _helper["res"] = json.loads(out.strip().splitlines()[-1])
    except Exception:
        _helper["res"] = dict(error="harness failed exit=%s %s" % (p.returncode, p.stderr.decode()[-300:]))
    _helper["wall"] = time.time() - t0


def regression_cases():
    return [{"helper": 1}]


def run_case(case, tier):
    if case.get("helper"):
        res = _helper.get("res") or {}
        viol = []
        if res.get("error"):
            return dict(violations=[], nontrivial=False, dkey="helper", classes=["helper_error"], sample=None, inconclusive=res["error"])
        for f in res.get("failures", []):
            viol.append(dict(key="C22|helper|" + f["fn"], what="%s(bits=%d, a=%d, b=%d) = %d, expected %d" % (f["fn"], f["bits"], f["a"], f["b"], f["got"], f["want"])))
        return dict(violations=viol, nontrivial=True, dkey="helper-exhaustive", classes=["helper_exhaustive"],
                    sample=dict(helper_harness=dict(triples=res.get("triples"), wrap_triples=res.get("wrap_triples"), functions=res.get("functions"))))
    r = svt.run_encode(case, "rel", timeout=900)
    try:
        inc = enc_failure_info(r)
        if inc:
            # a long stream that crashes or stalls the encoder is itself a violation of "encoded exactly as well as short ones"
            kind = "encode-hang" if r.hang else "encode-crash"
            if r.hang and r.hang.get("hang") != "deadlock":
                return dict(violations=[], nontrivial=False, dkey=None, classes=["encode_slow"], sample=summarize_cfg(case), inconclusive=inc)
            return dict(violations=[dict(key="C22|%s|N%s" % (kind, ">2048" if case["frames"] > 2048 else ">128"), what="N=%d: %s" % (case["frames"], inc[:300]))], nontrivial=True,
                        dkey=svt.case_hash(case), classes=["encode_failed"], sample=summarize_cfg(case))
        if not r.accepted():
            return dict(violations=[], nontrivial=False, dkey=None, classes=["rejected_config"], sample=None)
        viol = c03.check_ledger(r, case, decode=False)
        v2, info = c01.check_stream(r, case, r.workdir)
        viol = [dict(v, key=v["key"].replace("C03|", "C22|ledger-").replace("C01|", "C22|stream-")) for v in viol + v2]
        n = case["frames"]
        classes = ["N>128"] + (["N>2048"] if n > 2048 else []) + (["N>5000"] if n > 5000 else [])
        sample = summarize_cfg(case)
        sample["observed"] = info
        return dict(violations=viol, nontrivial=n > 128, dkey=svt.case_hash(case), classes=classes, sample=sample)
    finally:
        r.cleanup()


def finalize(outdir, tier):
    res = _helper.get("res") or {}
    return dict(helper_triples=res.get("triples"), helper_wrap_triples=res.get("wrap_triples"), helper_functions=res.get("functions"),
                helper_exhaustive=True, helper_wall_s=round(_helper.get("wall", 0), 2))
