"""C08 — the SVT decoder's output equals libaom's and dav1d's (differential against two independent decoders)."""
import os, subprocess, json
from hypothesis import strategies as st
from props.common import svt, gens, enc_failure_info, summarize_cfg
import av1parse as ap, streaminfo

ID = "C08"
LEVEL = "exploration"
RULE = ("Hypothesis draws a bitstream source and a decoder configuration. Source (a): the SVT encoder under a generated accepted configuration (tiles, superres, film grain, 8/10-bit, "
        "presets, screen content, RC). Source (b): libaom 3.6.0's ENCODER driven through dlopen with generated settings (cpu-used 2-9, lag 0..35, Q/VBR/CQ, kf distance, tile rows/cols, "
        "screen-content tuning = palette + intrabc, superres modes, film-grain test vectors, 8/10-bit, error-resilient, aq/deltaq, OBMC/warped/global motion defaults) - tools the SVT encoder never "
        "emits. Decoder configuration: is_16bit_pipeline in {0,1}, framing low-overhead or Annex-B (the same OBUs re-framed; each frame unit passed to svt_av1_dec_frame with is_annexb=1), "
        "skip_film_grain=0, 1 thread. Oracle: number, order, dimensions, bit depth and every sample of the SVT decoder's output pictures equal libaom's decoder output, which must itself equal "
        "dav1d's (a stream on which the two references disagree or fail is inconclusive here). non-trivial = measured tool usage (frame headers via the spec parser + block counters from hook H4) "
        "shows >= 2 of {compound, OBMC, warped, global motion, palette, intrabc, CfL, filter-intra, inter-intra, wedge/diff-weighted, LR, CDEF, superres, grain, >1 tile, 10-bit}; "
        "distinct = sha256(stream) x decoder configuration.")
ASSUMPTIONS = ["libaom 3.6.0 and dav1d 1.0.0 decoders are conforming (they must agree with each other on every stream used)",
               "supported profile = main profile 4:2:0 8/10-bit without scalability or reference scaling (resize_mode 0)",
               "libaom encoder control ids are verified by effect (parsed headers), not trusted"]
CONFIRM_NEED = 2


def variants(tier):
    return ["rel", "asan"] if tier == "thorough" else ["rel"]


def budget(tier):
    if tier == "thorough":
        return dict(shards=16, examples=400, seconds=1200, shrink_seconds=240, min_nontrivial=60)
    return dict(shards=16, examples=40, seconds=70, shrink_seconds=60, min_nontrivial=10)


@st.composite
def aom_args(draw, thorough):
    a = {}
    a["w"] = draw(st.sampled_from([64, 66, 72, 96, 100, 128, 130, 176, 192, 208]))
    a["h"] = draw(st.sampled_from([64, 66, 72, 80, 96, 98, 128, 144]))
    a["bd"] = draw(st.sampled_from([8, 8, 8, 10]))
    a["frames"] = draw(st.integers(2, 14 if thorough else 9))
    a["cpu"] = draw(st.sampled_from([9, 8, 7, 6, 6, 5, 4, 3] + ([2] if thorough else [])))
    if a["cpu"] <= 4:
        a["w"], a["h"], a["frames"] = min(a["w"], 100), min(a["h"], 98), min(a["frames"], 6)
    a["lag"] = draw(st.sampled_from([0, 0, 5, 16, 19, 35]))
    eu = draw(st.sampled_from([3, 3, 2, 0, 1]))
    a["end_usage"] = eu
    if eu in (2, 3):
        a["cq"] = draw(st.sampled_from([0, 5, 15, 25, 35, 45, 55, 63]))
    if eu in (0, 1, 2):
        a["bitrate"] = draw(st.sampled_from([30, 100, 400, 2000]))
    if eu == 1:
        a["lag"] = 0
    if draw(st.booleans()):
        a["minq"] = draw(st.sampled_from([0, 0, 10, 30]))
        a["maxq"] = draw(st.sampled_from([63, 63, 50, 35]))
    if draw(st.integers(0, 2)) == 0:
        a["kfmax"] = draw(st.sampled_from([0, 1, 3, 5, 8]))
        a["kfmin"] = 0
    if draw(st.integers(0, 2)) == 0:
        a["tile_cols"] = draw(st.integers(0, 2))
        a["tile_rows"] = draw(st.integers(0, 2))
    tc = draw(st.sampled_from([0, 0, 0, 1, 1]))
    if tc:
        a["tune_content"] = 1
        a["ck"] = draw(st.sampled_from([4, 4, 7]))
    else:
        a["ck"] = draw(st.sampled_from([0, 1, 2, 3, 5, 5, 6, 7]))
    if draw(st.integers(0, 5)) == 0:
        a["grain"] = draw(st.integers(1, 15))
    if draw(st.integers(0, 6)) == 0:
        a["err_res"] = 1
    if draw(st.integers(0, 5)) == 0:
        sm = draw(st.sampled_from([1, 2, 3, 4]))
        a["superres_mode"] = sm
        a["superres_denom"] = draw(st.integers(9, 16))
        a["superres_kf_denom"] = draw(st.integers(8, 16))
        if sm == 3:
            a["superres_qthresh"] = draw(st.sampled_from([1, 20, 40, 63]))
            a["superres_kf_qthresh"] = draw(st.sampled_from([1, 20, 40, 63]))
    if draw(st.integers(0, 5)) == 0:
        a["aq"] = draw(st.integers(0, 3))
    if draw(st.integers(0, 5)) == 0:
        a["deltaq"] = draw(st.integers(0, 1))
    if draw(st.integers(0, 7)) == 0:
        a["sb"] = draw(st.sampled_from([1, 2]))
    if draw(st.integers(0, 9)) == 0:
        a["usage"] = 1
        a["lag"] = 0
    for k, p in (("obmc", 8), ("palette", 8), ("intrabc", 10), ("cdef", 8), ("restoration", 8), ("gm", 8), ("warped", 8), ("interintra", 8), ("masked", 8), ("cfl", 10),
                 ("filter_intra", 10), ("autoaltref", 6), ("lossless", 14), ("tx64", 10), ("deltalf", 10), ("refmvs", 10)):
        if draw(st.integers(0, p)) == 0:
            a[k] = draw(st.integers(0, 1))
    if a.get("lossless"):
        a.pop("superres_mode", None)
    a["kseed"] = draw(st.integers(0, 2**30))
    a["kamp"] = draw(st.sampled_from([0, 20, 50, 100]))
    a["kmotion"] = draw(st.integers(0, 6))
    a["kcut"] = draw(st.sampled_from([0, 0, 3]))
    return a


def strategy(tier):
    thorough = tier == "thorough"
    @st.composite
    def s(draw):
        dec = dict(is16=draw(st.integers(0, 1)), annexb=draw(st.sampled_from([0, 0, 1])))
        if draw(st.integers(0, 9)) < 6:
            return dict(src="aom", aom=draw(aom_args(thorough)), dec=dec)
        c, n, tp = draw(gens.cfg(max_dim=208 if thorough else 176, frames=(2, 12), allow_twopass=False, slow_p=10 if thorough else 4, lps=(2, 4), recon=0, exclude=("AQ1", "TPL0", "MINQ0", "2PASS")))
        if draw(st.integers(0, 7)) == 0:
            # streams longer than the 7-bit order-hint period: reference distances are computed across the wrap
            c["source_width"], c["source_height"], c["enc_mode"] = draw(st.sampled_from([(64, 64), (96, 64), (128, 128)])), 8, 8
            c["source_width"], c["source_height"] = c["source_width"]
            for k in ("superres_mode", "superres_denom", "superres_kf_denom", "film_grain_denoise_strength", "rate_control_mode", "target_bit_rate", "min_qp_allowed", "max_qp_allowed", "enable_overlays"):
                c.pop(k, None)
            c["intra_period_length"] = draw(st.sampled_from([-1, -1, 63, 200]))
            n = draw(st.integers(125, 170))
        return dict(src="svt", enc=gens.case_from(c, n, tp, draw(gens.content())), dec=dec)
    return s()


def make_stream(case, wd):
    """returns (packets | None, info, inconclusive reason | None)"""
    if case["src"] == "aom":
        out = os.path.join(wd, "aom.tu")
        cmd = [svt.refbins()["aomenc_gen"], out] + ["%s=%d" % (k, v) for k, v in sorted(case["aom"].items())]
        try:
            p = subprocess.run(cmd, stdout=subprocess.PIPE, stderr=subprocess.PIPE, timeout=600)
        except subprocess.TimeoutExpired:
            return None, {}, "aomenc_gen timeout"
        try:
            j = json.loads(p.stdout.decode().strip().splitlines()[-1])
        except Exception:
            return None, {}, "aomenc_gen failed: exit %s %s" % (p.returncode, p.stderr.decode()[-200:])
        if j.get("error") or not j.get("done") or j.get("nerr") or not j.get("tus"):
            return None, j, None   # configuration rejected by libaom: not a case
        data = open(out, "rb").read()
        pk, off = [], 0
        while off + 4 <= len(data):
            n = int.from_bytes(data[off:off + 4], "little")
            pk.append(data[off + 4:off + 4 + n])
            off += 4 + n
        return pk, j, None
    r = svt.run_encode(case["enc"], "rel", timeout=240, work=wd)
    inc = enc_failure_info(r)
    if inc:
        return None, {}, inc
    if not r.accepted():
        return None, {}, None
    return [b for _, b in r.packets()], {}, None


def annexb_units(packets):
    """low-overhead TUs -> list of frame-unit bodies ((obu_length, obu without size field)*); None if a frame is split over tile-group OBUs"""
    def leb(v):
        out = bytearray()
        while True:
            b = v & 0x7F
            v >>= 7
            out.append(b | (0x80 if v else 0))
            if not v:
                return bytes(out)
    units = []
    for data in packets:
        pos, n, cur = 0, len(data), b""
        while pos < n:
            b0 = data[pos]
            ext, has = (b0 >> 2) & 1, (b0 >> 1) & 1
            hl = 1 + ext
            if has:
                sz, l = ap.leb128(data, pos + hl)
            else:
                sz, l = n - pos - hl, 0
            t = (b0 >> 3) & 15
            if t == ap.OBU_TILE_GROUP:
                return None
            ob = bytes([b0 & ~2]) + (data[pos + 1:pos + 2] if ext else b"") + data[pos + hl + l:pos + hl + l + sz]
            cur += leb(len(ob)) + ob
            pos += hl + l + sz
            if t == ap.OBU_FRAME:
                units.append(cur)
                cur = b""
        if cur:
            units.append(cur)
    return units


def usage(si, tools):
    """set of tool labels observed in the stream (headers) and in the SVT decoder's block parse (H4)"""
    u = set()
    seq = si.seq or {}
    for h in si.frames:
        if h.get("TileCols", 1) * h.get("TileRows", 1) > 1:
            u.add("tiles")
        if h.get("use_superres"):
            u.add("superres")
        if h.get("apply_grain"):
            u.add("grain")
        if any(t != 0 for t in (h.get("FrameRestorationType") or [0])):
            u.add("lr")
        if h.get("cdef_coded") and (h.get("cdef_bits", 0) > 0 or any(any(x) for x in (h.get("cdef_y_strengths") or [])) or any(any(x) for x in (h.get("cdef_uv_strengths") or []))):
            u.add("cdef")
        gm = h.get("gm_type") or []
        if any(t for t in gm):
            u.add("global_motion")
        if h.get("allow_intrabc"):
            u.add("intrabc_hdr")
        if h.get("segmentation_enabled"):
            u.add("segmentation")
        if h.get("delta_q_present"):
            u.add("deltaq")
        if h.get("frame_type") == 3:
            u.add("switch_frame")
        if h.get("error_resilient_mode") and h.get("frame_type") != 0:
            u.add("error_resilient")
        if h.get("skip_mode_present"):
            u.add("skip_mode")
        if h.get("using_qmatrix"):
            u.add("qmatrix")
        if h.get("allow_warped_motion"):
            u.add("warped_hdr")
        if h.get("reference_select"):
            u.add("ref_select")
    if seq.get("BitDepth", 8) > 8:
        u.add("10bit")
    if seq.get("use_128x128_superblock"):
        u.add("sb128")
    names = {1: "palette", 2: "palette", 3: "intrabc", 4: "obmc", 5: "warped", 6: "filter_intra", 7: "cfl", 8: "inter_intra", 9: "wedge_diffwtd", 10: "compound", 12: "dist_wtd"}
    for i, nme in names.items():
        if tools and i < len(tools) and tools[i] > 0:
            u.add(nme)
    return u


COUNTED = {"compound", "obmc", "warped", "global_motion", "palette", "intrabc", "cfl", "filter_intra", "inter_intra", "wedge_diffwtd", "lr", "cdef", "superres", "grain", "tiles", "10bit"}


def run_case(case, tier):
    wd = svt.mkwork("c08")
    import shutil
    try:
        packets, info, inc = make_stream(case, wd)
        if inc:
            return dict(violations=[], nontrivial=False, dkey=None, classes=["source_failed"], sample=None, inconclusive=inc)
        if packets is None:
            return dict(violations=[], nontrivial=False, dkey=None, classes=["source_rejected_" + case["src"]], sample=None)
        tu = os.path.join(wd, "s.tu")
        svt.write_tu(packets, tu)
        a = svt.decode(tu, "aom", os.path.join(wd, "s"))
        d = svt.decode(tu, "dav1d", os.path.join(wd, "s"))
        if not a.ok or not d.ok or a.nerr or d.nerr or len(a.planes) != len(d.planes) or any(x != y for x, y in zip(a.planes, d.planes)) or not a.planes:
            return dict(violations=[], nontrivial=False, dkey=None, classes=["references_disagree_or_fail_" + case["src"]], sample=None,
                        inconclusive=None if case["src"] == "svt" else "reference decoders fail/disagree on a libaom-encoded stream: aom nerr=%s n=%d dav1d nerr=%s n=%d args=%s" %
                        (a.nerr, len(a.planes), d.nerr, len(d.planes), case.get("aom")))
        dec = case["dec"]
        variant = "asan" if (tier == "thorough" and case.get("asan")) else "rel"
        stream_path = tu
        classes = ["src_" + case["src"], "is16_%d" % dec["is16"]]
        if dec["annexb"]:
            units = annexb_units(packets)
            if units is None:
                classes.append("annexb_skipped_multi_tg")
                dec = dict(dec, annexb=0)
            else:
                stream_path = os.path.join(wd, "s.annexb")
                svt.write_tu(units, stream_path)
                classes.append("annexb")
        s = svt.decode(stream_path, "svt", os.path.join(wd, "s"), variant=variant, threads=1, is16=dec["is16"], annexb=dec["annexb"], slack=0, timeout=300)
        viol = []
        si = streaminfo.analyze(packets)
        tools = s.info.get("tools")
        u = usage(si, tools)
        if s.exit == -999:
            viol.append(dict(key="C08|hang", what="SVT decoder did not finish within 300 s"))
        elif not s.ok:
            k = s.san[0]["kind"] + "@" + str(s.san[0]["frame"]) if s.san else "exit %s" % s.exit
            viol.append(dict(key="C08|crash|" + (s.san[0]["frame"] if s.san else "signal"), what="SVT decoder crashed on a valid stream: %s %s" % (k, s.err[-300:].replace("\n", " | "))))
        else:
            pics = [f for f in s.frames if "w" in f]
            errs = [f for f in s.frames if f.get("nopic")]
            if s.nerr or errs:
                viol.append(dict(key="C08|decode-error", what="SVT decoder reported %d errors on a stream both references decode (first at record %s rc %s)" %
                                 (s.nerr, (errs or [{}])[0].get("tu"), (errs or [{}])[0].get("rc"))))
            elif len(pics) != len(a.planes):
                viol.append(dict(key="C08|picture-count", what="SVT decoder output %d pictures, references %d" % (len(pics), len(a.planes))))
            else:
                for k, (f, fa) in enumerate(zip(pics, a.frames)):
                    if (f["w"], f["h"]) != (fa["w"], fa["h"]) or f["bd"] != fa["bd"]:
                        viol.append(dict(key="C08|geometry", what="picture %d: SVT %dx%d bd %d vs libaom %dx%d bd %d" % (k, f["w"], f["h"], f["bd"], fa["w"], fa["h"], fa["bd"])))
                        break
                    if s.planes[k] != a.planes[k]:
                        import numpy as np
                        x = np.frombuffer(s.planes[k], dtype="<u2")
                        y = np.frombuffer(a.planes[k], dtype="<u2")
                        if x.size == y.size:
                            diff = np.nonzero(x != y)[0]
                            what = "picture %d: %d samples differ, first at sample offset %d (SVT %d, references %d); tools=%s" % (k, diff.size, diff[0], x[diff[0]], y[diff[0]], sorted(u))
                        else:
                            what = "picture %d: size %d vs %d" % (k, x.size, y.size)
                        viol.append(dict(key="C08|sample-mismatch|" + ("grain" if "grain" in u else "superres" if "superres" in u else "recon"), what=what))
                        break
        if s.san and not viol:
            for rep in s.san:
                viol.append(dict(key="C08|sanitizer|%s|%s" % (rep["kind"], rep["frame"]), what=rep["line"]))
                break
        for t in sorted(u):
            classes.append("tool_" + t)
        sample = dict(src=case["src"], dec=dec, args=case.get("aom") or summarize_cfg(case["enc"]), pictures=len(a.planes), tools=sorted(u),
                      aom_controls=info.get("controls") if case["src"] == "aom" else None)
        import hashlib
        dkey = hashlib.sha256(b"".join(packets)).hexdigest()[:16] + "/%d%d" % (dec["is16"], dec["annexb"])
        return dict(violations=viol, nontrivial=len(u & COUNTED) >= 2, dkey=dkey, classes=classes, sample=sample)
    finally:
        shutil.rmtree(wd, ignore_errors=True)
