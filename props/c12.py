"""C12 — parameter validation accepts exactly the documented parameter domain."""
import json, os
from hypothesis import strategies as st
from props.common import svt, engine
import api

ID = "C12"
LEVEL = "exploration"
RULE = ("Oracle = oracles/c12_domain.json, built only from documentation (EbSvtAv1Enc.h field comments, Docs/svt-av1_encoder_user_guide.md tables, stated cross-constraints), "
        "never from the validation code or its error strings. Hypothesis draws batches of configurations = library defaults + 64x64 + one probed field (every boundary, one "
        "past each boundary, type extremes, random interior) or a pair of coupled fields (min/max QP, RC mode x intra period, frame-rate numerator/denominator); a value is "
        "documented-valid iff every source that states a range includes it and all documented hard constraints hold, documented-invalid iff every source excludes it or a hard "
        "constraint is broken, otherwise contested (no assertion, counted). Expected: invalid => EB_ErrorBadParameter, valid => EB_ErrorNone. Each disagreement is re-verified "
        "on a fresh handle. non-trivial = probe sits on or one past a documented boundary or breaks exactly one constraint; distinct = (field(s), value(s)).")
ASSUMPTIONS = ["documentation sources: API header comments + user guide; the library's own error strings are deliberately not a source",
               "probes hold every other field at the library default with source size 64x64"]
DOM = json.load(open(os.path.join(engine.VERIF, "oracles", "c12_domain.json")))
TYPES = {"int8": (-128, 127), "uint8": (0, 255), "bool": (0, 255), "EbBool": (0, 255), "int32": (-2**31, 2**31 - 1), "uint32": (0, 2**32 - 1), "int": (-2**31, 2**31 - 1),
         "uint64": (0, 2**63 - 1), "int64": (-2**63, 2**63 - 1), "uint16": (0, 65535), "int16": (-32768, 32767)}
SKIP = {"profile", "superres_mode", "encoder_color_format", "source_width", "source_height", "rc_twopass_stats_in", "pred_struct", "use_cpu_flags", "logical_processors", "channel_id", "active_channel_count",
        "frame_rate", "frame_rate_numerator", "frame_rate_denominator", "vbv_bufsize", "target_bit_rate", "enable_manual_pred_struct", "manual_pred_struct_entry_num",
        "rc_firstpass_stats_out", "speed_control_flag", "injector_frame_rate"}
ARRAY_FIELDS = {"qindex_offsets": 6, "chroma_qindex_offsets": 6}


def trange(f):
    t = (DOM["fields"][f].get("type") or "int32").replace("_t", "").strip()
    for k in TYPES:
        if t.lower().startswith(k.lower()):
            return TYPES[k]
    return TYPES["int32"]


def classify(f, v):
    """'valid' | 'invalid' | 'contested' | 'undocumented' for a single field value"""
    e = DOM["fields"].get(f)
    if not e or not e.get("valid"):
        return "undocumented"
    val = e["valid"]
    inv = e.get("invalid_outside")
    def inside(r, x):
        if r.get("values") is not None:
            return x in r["values"]
        lo, hi = r.get("min"), r.get("max")
        return (lo is None or x >= lo) and (hi is None or x <= hi)
    if inside(val, v):
        return "valid"
    if inv is None:
        return "contested"
    lo, hi = inv.get("min"), inv.get("max")
    if (lo is not None and v < lo) or (hi is not None and v > hi):
        return "invalid"
    return "contested"


PROBE_FIELDS = sorted(f for f, e in DOM["fields"].items() if e.get("valid") and f not in SKIP)
HARD = [c for c in DOM["constraints"] if c.get("kind") == "hard" and c["id"] in ("C_QP_ORDER", "C_RC_INTRA_PERIOD")]


def variants(tier):
    return ["rel"]


def budget(tier):
    if tier == "thorough":
        return dict(shards=16, examples=400, seconds=600, shrink_seconds=120, min_nontrivial=300)
    return dict(shards=16, examples=40, seconds=45, shrink_seconds=30, min_nontrivial=60)


@st.composite
def probe(draw):
    if draw(st.integers(0, 5)) == 0:
        kind = draw(st.sampled_from(["qp_order", "rc_intra"]))
        if kind == "qp_order":
            a, b = draw(st.integers(0, 62)), draw(st.integers(0, 63))
            return dict(set={"min_qp_allowed": a, "max_qp_allowed": b, "rate_control_mode": draw(st.sampled_from([0, 1, 1, 2, 2]))}, pair=kind)
        rc = draw(st.sampled_from([0, 1, 2]))
        ip = draw(st.sampled_from([-2, -1, 0, 1, 254, 255, 256, 257, 1000, 2**31 - 2]))
        return dict(set={"rate_control_mode": rc, "intra_period_length": ip}, pair=kind)
    f = draw(st.sampled_from(PROBE_FIELDS))
    e = DOM["fields"][f]
    lo_t, hi_t = trange(f)
    cands = set()
    for r in (e["valid"], e.get("invalid_outside") or {}):
        for k in ("min", "max"):
            if r.get(k) is not None:
                cands.update([r[k] - 1, r[k], r[k] + 1])
        for x in (r.get("values") or []):
            cands.update([x - 1, x, x + 1])
    cands.update([lo_t, hi_t, 0, 1, -1])
    cands = sorted(c for c in cands if lo_t <= c <= hi_t)
    if draw(st.integers(0, 4)) == 0:
        v = draw(st.integers(max(lo_t, -1000), min(hi_t, 1000)))
    else:
        v = draw(st.sampled_from(cands))
    return dict(set={f: v}, field=f)


def strategy(tier):
    return st.lists(probe(), min_size=25, max_size=25).map(lambda ps: dict(probes=ps))


def expected(p):
    s = p["set"]
    cls = [classify(f, v) for f, v in s.items()]
    if "invalid" in cls:
        return "invalid"
    if "contested" in cls or "undocumented" in cls:
        # a broken hard constraint still makes it invalid
        pass
    env = dict(min_qp_allowed=1, max_qp_allowed=63, rate_control_mode=0, intra_period_length=-2)
    env.update(s)
    for c in HARD:
        try:
            if not eval(c["formal"], {}, env):
                if c["id"] == "C_QP_ORDER" and env.get("rate_control_mode", 0) == 0:
                    return "contested"   # min/max QP are documented as "only applicable when rate control mode is 1"
                return "invalid"
        except Exception:
            pass
    if "contested" in cls or "undocumented" in cls:
        return "contested"
    return "valid"


def overrides(s):
    out = []
    for f, v in s.items():
        if f in ARRAY_FIELDS:
            out.append("%s[0]=%d" % (f, v))
        else:
            out.append("%s=%d" % (f, v))
    return " ".join(out)


def on_boundary(p):
    for f, v in p["set"].items():
        e = DOM["fields"].get(f) or {}
        for r in (e.get("valid") or {}, e.get("invalid_outside") or {}):
            for k in ("min", "max"):
                if r.get(k) is not None and abs(v - r[k]) <= 1:
                    return True
            if v in (r.get("values") or []):
                return True
    return bool(p.get("pair"))


def run_case(case, tier):
    probes = case["probes"]
    prog = ["enc_init_handle V V"]
    for p in probes:
        prog += ["enc_cfg_reset", "enc_set_param V V source_width=64 source_height=64 " + overrides(p["set"])]
    prog.append("enc_deinit_handle V")
    res = api.run_script(prog, "rel", timeout=120)
    rcs = [r for r in res["recs"] if r.get("op") == "enc_set_param"]
    viol = []
    classes = {}
    keys = set()
    if len(rcs) != len(probes):
        k = len(rcs)
        bad = probes[k] if k < len(probes) else None
        if bad is not None:
            viol.append(dict(key="C12|set_parameter-dies|" + ",".join(sorted(bad["set"])), what="set_parameter crashed or blocked (exit %s) on %s" % (res["exit"], bad["set"])))
        probes = probes[:len(rcs)]
    for p, r in zip(probes, rcs):
        exp = expected(p)
        classes[exp] = classes.get(exp, 0) + 1
        acc = r["rc"] == 0
        rej = r["rc"] == 0x80001005
        dis = None
        if exp == "valid" and not acc:
            dis = "rejects-valid"
        elif exp == "invalid" and not rej:
            dis = "accepts-invalid" if acc else "wrong-error-code"
        if dis:
            # re-verify on a fresh handle
            r2 = api.run_script(["enc_batch_param source_width=64 source_height=64 " + overrides(p["set"])], "rel", timeout=60)
            rr = [x for x in r2["recs"] if x.get("op") == "enc_batch_param"]
            if rr and ((rr[0]["rc"] == 0) == acc):
                name = p.get("field") or p.get("pair")
                v = list(p["set"].values())[0] if p.get("field") else None
                side = ""
                if p.get("field"):
                    e = DOM["fields"][p["field"]]
                    ref = e.get("invalid_outside") if dis != "rejects-valid" else e["valid"]
                    if ref and ref.get("min") is not None and v < ref["min"]:
                        side = "below"
                    elif ref and ref.get("max") is not None and v > ref["max"]:
                        side = "above"
                    else:
                        side = "value=%d" % v if dis == "rejects-valid" else "inside"
                viol.append(dict(key="C12|%s|%s|%s" % (dis, name, side), what="set_parameter(%s) returned %#x; documentation says %s (%s)" % (
                    p["set"], r["rc"], exp, json.dumps((DOM["fields"].get(p.get("field") or "") or {}).get("valid")))))
        if on_boundary(p):
            keys.add(json.dumps(p["set"], sort_keys=True))
    seen, out = set(), []
    for v in viol:
        if v["key"] not in seen:
            seen.add(v["key"])
            out.append(v)
    return dict(violations=out, nontrivial=len(keys) >= 5, dkey=svt.case_hash(sorted(keys)), classes=["%s" % k for k, n in classes.items() for _ in range(1)],
                sample=dict(probes=[p["set"] for p in probes[:6]], expected=[expected(p) for p in probes[:6]], rc=[hex(r["rc"]) for r in rcs[:6]]),
                nt_count=len(keys))
