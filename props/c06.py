"""C06 — output independent of the ISA level (use_cpu_flags)."""
from hypothesis import strategies as st
from props.common import svt, gens, summarize_cfg, differential

ID = "C06"
LEVEL = "exploration"
TAG_KEYS = True   # violation keys get the configuration feature tag appended (engine.feature_tag)
RULE = ("Hypothesis draws (configuration, content incl. extremes and 10-bit, N) and 2-3 cumulative ISA masks from {<=SSE2, <=SSSE3, <=SSE4_1, <=AVX2, ALL(AVX-512)}; "
        "every level is encoded in its own process (the dispatch table is process-global) with logical_processors=1 and packets+recon must equal the C-only run "
        "(use_cpu_flags=0). non-trivial = >=3 levels (incl. C) completed and the stream has inter frames; distinct = (config, content, N, masks) hash.")
ASSUMPTIONS = ["the build has AVX-512 kernels compiled in (ENABLE_AVX512=ON) and the host supports them"]
MASKS = {"c": 0, "sse2": (1 << 3) - 1, "ssse3": (1 << 5) - 1, "sse4_1": (1 << 6) - 1, "avx2": (1 << 9) - 1, "all": 65535}


def variants(tier):
    return ["rel"]


def budget(tier):
    if tier == "thorough":
        return dict(shards=16, examples=200, seconds=1200, shrink_seconds=300, min_nontrivial=40)
    return dict(shards=16, examples=20, seconds=75, shrink_seconds=60, min_nontrivial=6)


def strategy(tier):
    @st.composite
    def s(draw):
        c, n, tp = draw(gens.cfg(max_dim=144 if tier == "thorough" else 112, frames=(2, 8), allow_twopass=False, lps=(1,),
                                 presets=(8, 8, 7, 6, 5, 4, 3), slow_p=10 if tier == "thorough" else 0, allow_rc=False, exclude=("AQ1", "GRAIN", "SRES", "2PASS", "16BP")))
        cnt = draw(gens.content(kinds=(2, 3, 5, 6, 7, 4)))
        lv = draw(st.lists(st.sampled_from(["sse2", "ssse3", "sse4_1", "avx2", "all", "all", "avx2"]), min_size=2, max_size=3, unique=True))
        case = gens.case_from(c, n, tp, cnt)
        case["levels"] = lv
        return case
    return s()


def run_case(case, tier):
    base = {k: v for k, v in case.items() if k != "levels"}
    vs = [("c", dict(base, cfg=dict(base["cfg"], use_cpu_flags=0)))]
    for l in case["levels"]:
        vs.append((l, dict(base, cfg=dict(base["cfg"], use_cpu_flags=MASKS[l]))))
    viol, statuses, results = differential(base, vs, "isa", pid=ID, timeout=400)
    # refine key with the level that differs
    for v in viol:
        if "output-differs" in v["key"]:
            v["key"] = "C06|output-differs|" + v["what"].split(" vs ")[1].split(":")[0]
    try:
        ok = [n for n, s in statuses.items() if s == "ok"]
        r0 = results[0][1]
        inter = any(e["pic_type"] in (0, 1, 4) for e, _ in r0.packets()) if statuses["c"] == "ok" else False
        inc = None
        if statuses["c"] not in ("ok", "rejected"):
            inc = "reference (C-only) run failed: %s" % statuses["c"]
        classes = ["n_ok%d" % len(ok)] + list(case["levels"]) + ["preset%d" % base["cfg"]["enc_mode"]] + (["10bit"] if base["cfg"].get("encoder_bit_depth") == 10 else [])
        sample = summarize_cfg(base)
        sample["levels"] = case["levels"]
        sample["observed"] = statuses
        return dict(violations=viol, nontrivial=len(ok) >= 3 and inter, dkey=svt.case_hash(case), classes=classes, sample=sample, inconclusive=inc)
    finally:
        for _, r in results:
            r.cleanup()
