"""C18 — frame quantizers stay within the configured QP bounds (parsed base_q_idx of every frame header)."""
from hypothesis import strategies as st
from props.common import svt, gens, enc_failure_info, summarize_cfg
import av1parse as ap, streaminfo

ID = "C18"
LEVEL = "exploration"
TAG_KEYS = True   # violation keys get the configuration feature tag appended (engine.feature_tag)
RULE = ("Hypothesis draws RC mode 0/1/2 x min/max QP pairs (incl. min==max, 0, 62/63) x fixed qindex offsets per layer / key frame x qp-file x 1/2-pass x "
        "recode loop x easy/hard content x GOP shapes; every coded frame header (shown or hidden) is parsed and base_q_idx compared with the bounds: RC 1/2: "
        "Q[min_qp] <= base_q_idx <= Q[max_qp]; CQP with scaling: Q[1] <= base_q_idx <= Q[63] (the library documents min/max as RC-only and substitutes 1/63); "
        "fixed qindex offsets: intra frames clip(Q[qp]+key_offset), inter frames clip(Q[qp]+offset[l]) for some layer l (membership); qp-file: base_q_idx = "
        "Q[clip(qp_k)] of the displayed picture. Q = quantizer_to_qindex (own copy). non-trivial = (RC != 0 with min>1 or max<63) or fixed offsets or qp-file or "
        "min==max, and >=2 frames; distinct = (config, content, N) hash.")
ASSUMPTIONS = ["quantizer_to_qindex table (own copy of the 64-entry AV1 reference-encoder table) maps API QP 0..63 to qindex",
               "for fixed offsets the temporal layer of a frame is not derived; membership in the set over all layers is required"]
Q = ap.QUANTIZER_TO_QINDEX


def variants(tier):
    return ["rel"]


def budget(tier):
    if tier == "thorough":
        return dict(shards=16, examples=500, seconds=900, shrink_seconds=200, min_nontrivial=50)
    return dict(shards=16, examples=60, seconds=60, shrink_seconds=45, min_nontrivial=10)


def strategy(tier):
    @st.composite
    def s(draw):
        w, h = draw(gens.sizes(160))
        c = dict(source_width=w, source_height=h, enc_mode=draw(st.sampled_from([8, 8, 7, 6, 5, 4])), logical_processors=draw(st.sampled_from([1, 2, 4])),
                 recon_enabled=0, hierarchical_levels=draw(st.sampled_from([0, 1, 2, 3, 4, 5])),
                 intra_period_length=draw(st.sampled_from([-2, -1, 7, 15, 16, 31])))
        n = draw(st.integers(2, 40 if tier == "thorough" else 20))
        mode = draw(st.sampled_from(["rc1", "rc1", "rc2", "cqp", "fixed", "qpfile"]))
        case = {}
        c["qp"] = draw(st.integers(0, 63))
        tp = 0
        if mode in ("rc1", "rc2"):
            c["rate_control_mode"] = 1 if mode == "rc1" else 2
            c["target_bit_rate"] = draw(st.sampled_from([1000, 20000, 100000, 500000, 2000000, 20000000, 100000000]))
            mn = draw(st.sampled_from([0, 1, 5, 10, 20, 30, 40, 50, 62]))
            mx = draw(st.sampled_from([63, 62, 50, 40, 30, 20, 10, 5, 1, 0]))
            if draw(st.integers(0, 4)) == 0:
                mx = mn
            if mn > mx:
                mn, mx = mx, mn
            mn = min(mn, 62)
            mx = max(mx, mn)
            c["min_qp_allowed"], c["max_qp_allowed"] = mn, mx
            if mode == "rc2":
                if c["intra_period_length"] >= 0:
                    c["look_ahead_distance"] = c["intra_period_length"]
            elif draw(st.booleans()):
                c["look_ahead_distance"] = draw(st.sampled_from([0, 5, 16, 33]))
                tp = draw(st.sampled_from([0, 0, 1]))
            c["recode_loop"] = draw(st.integers(0, 3))
            if draw(st.integers(0, 3)) == 0:
                for k in ("vbr_bias_pct", "under_shoot_pct", "over_shoot_pct"):
                    c[k] = draw(st.integers(0, 100))
        elif mode == "fixed":
            c["use_fixed_qindex_offsets"] = 1
            c["qindex_offsets"] = [draw(st.integers(-256, 255)) for _ in range(6)]
            c["key_frame_qindex_offset"] = draw(st.integers(-256, 255))
            if draw(st.booleans()):
                c["chroma_qindex_offsets"] = [draw(st.integers(-64, 63)) for _ in range(6)]
                c["key_frame_chroma_qindex_offset"] = draw(st.integers(-64, 63))
        elif mode == "qpfile":
            c["use_qp_file"] = 1
            case["qplist"] = [draw(st.integers(0, 63)) for _ in range(n)]
        else:
            if draw(st.booleans()):
                c["min_qp_allowed"], c["max_qp_allowed"] = 10, 40   # documented as ignored in CQP
        cnt = draw(gens.content(kinds=(0, 2, 2, 3, 5, 6)))
        case.update(gens.case_from(c, n, tp, cnt))
        if mode in ("rc1", "rc2") and draw(st.integers(0, 2)) == 0:
            # live pacing: the application submits the next picture only when the encoder has gone quiet ('I') or sleeps ~10-20 ms between submissions,
            # so the bits actually spent on earlier pictures reach rate control before later pictures are rate-controlled (a flooded encoder never
            # exercises that feedback in a short clip)
            case["pat"] = [draw(st.sampled_from(["prI", "prI", "SSpr", "SSSSpr"]))]
            if c["intra_period_length"] < 0:
                c["intra_period_length"] = draw(st.sampled_from([7, 15]))
            ip = c["intra_period_length"]
            if mode == "rc1":
                c["look_ahead_distance"] = draw(st.sampled_from([3, 5, ip]))
                case["twopass"] = 0
            # look_ahead_distance > intra period with a paced source divides by zero in rate control (listed C11 finding): excluded by construction
            if c.get("look_ahead_distance", 0) > ip:
                c["look_ahead_distance"] = ip
            if draw(st.booleans()):
                # a narrow window around a mid-range QP and a tight budget: the bounds are what limits the quantizer
                mn = draw(st.sampled_from([20, 30, 40]))
                c["min_qp_allowed"], c["max_qp_allowed"] = mn, mn + draw(st.integers(0, 2))
                c["target_bit_rate"] = draw(st.sampled_from([100000, 300000, 500000]))
                case["content"] = draw(gens.content(kinds=(3, 3, 2, 5)))
            case["frames"] = max(case["frames"], 3 * (ip + 1))
        return case
    return s()


def clipq(v):
    return max(0, min(255, v))


def run_case(case, tier):
    r = svt.run_encode(case, "rel", timeout=240)
    try:
        inc = enc_failure_info(r)
        if inc:
            return dict(violations=[], nontrivial=False, dkey=None, classes=["encode_failed"], sample=summarize_cfg(case), inconclusive=inc)
        if not r.accepted():
            return dict(violations=[], nontrivial=False, dkey=None, classes=["rejected_config"], sample=None)
        pk = r.packets()
        si = streaminfo.analyze([b for _, b in pk])
        if si.error or si.unsupported:
            return dict(violations=[], nontrivial=False, dkey=None, classes=["parse_failed"], sample=summarize_cfg(case),
                        inconclusive="parser: %s %s" % (si.error, si.unsupported))
        c = case["cfg"]
        rc = c.get("rate_control_mode", 0)
        viol = []
        qs = [(h["pkt"], h["frame_type"], h["base_q_idx"]) for h in si.frames]
        on_bound = 0
        mode = "cqp"
        if rc in (1, 2):
            mode = "rc%d" % rc
            lo, hi = Q[c.get("min_qp_allowed", 1)], Q[c.get("max_qp_allowed", 63)]
            for p, ft, q in qs:
                if q in (lo, hi):
                    on_bound += 1
                if not lo <= q <= hi:
                    viol.append(dict(key="C18|rc-bounds|" + ("below" if q < lo else "above"), what="frame in packet %d (type %d) base_q_idx %d outside [%d,%d] = Q[min_qp %d], Q[max_qp %d]; all=%s" % (
                        p, ft, q, lo, hi, c.get("min_qp_allowed", 1), c.get("max_qp_allowed", 63), qs[:24])))
                    break
        elif c.get("use_fixed_qindex_offsets"):
            mode = "fixed"
            base = Q[c["qp"]]
            lo, hi = Q[1], Q[63]   # "clipped to those bounds": CQP substitutes min/max 1/63
            def cl(v):
                return max(lo, min(hi, v))
            key_q = {cl(base + c["key_frame_qindex_offset"]), clipq(base + c["key_frame_qindex_offset"])}
            inter_q = set()
            for o in c["qindex_offsets"]:
                inter_q.add(cl(base + o))
                inter_q.add(clipq(base + o))
            for p, ft, q in qs:
                ok = q in key_q if ft in (ap.KEY_FRAME, ap.INTRA_ONLY_FRAME) else q in inter_q
                if ft in (ap.KEY_FRAME, ap.INTRA_ONLY_FRAME) and not ok and q in inter_q:
                    ok = True   # intra-only (CRA) frames inside a mini-GOP use their layer offset
                if not ok:
                    viol.append(dict(key="C18|fixed-offset|" + ("intra" if ft in (0, 2) else "inter"), what="frame in packet %d (type %d) base_q_idx %d not in Q[qp %d]=%d + offsets (key %s, layers %s); all=%s" % (
                        p, ft, q, c["qp"], base, sorted(key_q), sorted(inter_q), qs[:24])))
                    break
        elif c.get("use_qp_file"):
            mode = "qpfile"
            # hidden frames are submitted pictures too: match by order hint = display index (mod 2^7)
            ql = case["qplist"]
            allowed = {Q[max(0, min(63, v))] for v in ql}
            for h in si.frames:
                q = h["base_q_idx"]
                cands = {Q[ql[k]] for k in range(len(ql)) if (k & 127) == h["order_hint"]} if si.seq["OrderHintBits"] == 7 else allowed
                cands |= {max(Q[1], min(Q[63], v)) for v in cands}   # "clipped to those bounds" (CQP substitutes min/max QP 1/63)
                if q not in cands:
                    viol.append(dict(key="C18|qpfile", what="frame order_hint %d in packet %d base_q_idx %d, qp file gives %s; all=%s" % (h["order_hint"], h["pkt"], q, sorted(cands), qs[:24])))
                    break
        else:
            lo, hi = Q[1], Q[63]
            for p, ft, q in qs:
                if not lo <= q <= hi:
                    viol.append(dict(key="C18|cqp-bounds", what="CQP frame in packet %d base_q_idx %d outside [Q[1],Q[63]]=[%d,%d]" % (p, q, lo, hi)))
                    break
        nt = len(qs) >= 2 and ((rc and (c.get("min_qp_allowed", 1) > 1 or c.get("max_qp_allowed", 63) < 63)) or mode in ("fixed", "qpfile"))
        classes = [mode] + (["on_bound"] if on_bound else []) + (["twopass"] if case.get("twopass") else [])
        if rc and c.get("min_qp_allowed") == c.get("max_qp_allowed"):
            classes.append("min_eq_max")
        sample = summarize_cfg(case)
        sample["observed"] = dict(base_q_idx=[q for _, _, q in qs][:24])
        return dict(violations=viol, nontrivial=bool(nt), dkey=svt.case_hash(case), classes=classes, sample=sample)
    finally:
        r.cleanup()
