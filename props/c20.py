"""C20 — disabled coding tools never appear in the bitstream; the requested tile layout is signalled."""
import os
from hypothesis import strategies as st
from props.common import svt, gens, enc_failure_info, summarize_cfg
import av1parse as ap, streaminfo

ID = "C20"
LEVEL = "exploration"
TAG_KEYS = True
RULE = ("Hypothesis draws a configuration, content chosen to make tools attractive (screen-like for palette/intrabc, zoom/rotation for warped/global motion, textured inter content for OBMC/inter-intra, "
        "gradients for filter-intra/CfL) and a set of 1-3 tool switches forced OFF among {loop filter, CDEF, loop restoration, palette, intrabc, global motion, warped motion, OBMC, filter intra, "
        "CfL, inter-intra, superres}; the same case is also encoded with those switches forced ON (non-vacuity: the ON run must be able to show the tool). Independently a tile request "
        "tile_rows 0..6 x tile_columns 0..4 is drawn. Oracle for the OFF run: frame/sequence headers from the spec parser (loop filter levels 0, enable_cdef 0 or all strengths 0, all planes "
        "RESTORE_NONE, allow_intrabc 0, all gm types IDENTITY, warped flags 0, enable_filter_intra 0, enable_interintra_compound 0, use_superres 0) and block-level usage counters from hook H4 in "
        "the SVT decoder's parse of the stream (palette, intrabc, OBMC, warped-causal, filter-intra, CfL, inter-intra counts must be 0). Tiles: uniform_tile_spacing_flag=1 and "
        "TileColsLog2 = clamp(tile_columns, minLog2TileCols, maxLog2TileCols), rows likewise, limits computed by the parser from frame and SB size with the spec formulas. "
        "non-trivial = at least one switched-off tool is visibly used by the ON run of the same case, or requested tile log2 > 0; distinct = case hash.")
ASSUMPTIONS = ["block-level usage comes from the instrumented SVT decoder parse (hook H4), whose correctness on these streams is tied to libaom/dav1d by C08",
               "tile request is limited only by the frame size: the expected log2 is the request clamped to the spec's min/max for that frame"]

# switch name -> (cfg field, off value, on value, header predicate name | None, H4 counter indices)
SW = {
    "dlf": ("disable_dlf_flag", 1, 0, "dlf", ()),
    "cdef": ("cdef_level", 0, 1, "cdef", ()),
    "restoration": ("enable_restoration_filtering", 0, 1, "lr", ()),
    "palette": ("palette_level", 0, 1, None, (1, 2)),
    "intrabc": ("intrabc_mode", 0, 1, "intrabc", (3,)),
    "global_motion": ("enable_global_motion", 0, 1, "gm", ()),
    "warped": ("enable_warped_motion", 0, 1, "warped", (5,)),
    "obmc": ("obmc_level", 0, 1, None, (4,)),
    "filter_intra": ("filter_intra_level", 0, 1, "filter_intra", (6,)),
    "cfl": ("disable_cfl_flag", 1, 0, None, (7,)),
    "inter_intra": ("inter_intra_compound", 0, 1, "inter_intra", (8,)),
    "superres": ("superres_mode", 0, 1, "superres", ()),
}
CONTENT_FOR = {"palette": 4, "intrabc": 4, "global_motion": 5, "warped": 5, "obmc": 5, "inter_intra": 5, "filter_intra": 1, "cfl": 3, "dlf": 3, "cdef": 3, "restoration": 3, "superres": 3}


def variants(tier):
    return ["rel"]


def budget(tier):
    if tier == "thorough":
        return dict(shards=16, examples=400, seconds=1200, shrink_seconds=240, min_nontrivial=60)
    return dict(shards=16, examples=40, seconds=75, shrink_seconds=60, min_nontrivial=10)


def strategy(tier):
    thorough = tier == "thorough"
    @st.composite
    def s(draw):
        off = draw(st.lists(st.sampled_from(sorted(SW)), min_size=1, max_size=3, unique=True))
        c = dict(source_width=draw(st.sampled_from([64, 96, 128, 176, 208, 256, 320])), source_height=draw(st.sampled_from([64, 96, 128, 144, 192])),
                 enc_mode=draw(st.sampled_from([8, 8, 7, 6, 5, 5, 4] + ([3, 2] if thorough else []))), logical_processors=draw(st.sampled_from([1, 2, 4])), recon_enabled=0,
                 qp=draw(st.sampled_from([10, 25, 35, 45, 55])), hierarchical_levels=draw(st.sampled_from([2, 3, 4])))
        if c["enc_mode"] <= 4:
            c["source_width"], c["source_height"] = min(c["source_width"], 176), min(c["source_height"], 128)
        scm = draw(st.sampled_from([0, 1, 2])) if not ({"palette", "intrabc"} & set(off)) else 1
        c["screen_content_mode"] = scm
        if draw(st.integers(0, 3)) == 0:
            c["encoder_bit_depth"] = 10
        if draw(st.integers(0, 1)):
            c["tile_rows"] = draw(st.integers(0, 6))
            c["tile_columns"] = draw(st.integers(0, 4))
        if "superres" in off and draw(st.booleans()):
            pass
        kind = CONTENT_FOR[off[0]] if draw(st.integers(0, 3)) else draw(st.sampled_from([3, 4, 5, 7]))
        n = draw(st.integers(3, 12 if thorough else 8))
        cnt = [kind, draw(st.integers(0, 2**30)), draw(st.sampled_from([20, 50, 100])), draw(st.integers(1, 5)), 0]
        return dict(cfg=c, frames=n, content=cnt, off=off)
    return s()


def observe(r, wd, tag):
    """(header usage dict, H4 tool counts, stream info) for a completed run"""
    packets = [b for _, b in r.packets()]
    si = streaminfo.analyze(packets)
    if si.error or si.unsupported:
        return None, None, si
    seq = si.seq or {}
    u = dict(dlf=0, cdef=0, lr=0, intrabc=0, gm=0, warped=0, filter_intra=int(bool(seq.get("enable_filter_intra"))), inter_intra=int(bool(seq.get("enable_interintra_compound"))), superres=0)
    for h in si.frames:
        lf = h.get("loop_filter_level") or [0, 0]
        if lf[0] or lf[1]:
            u["dlf"] += 1
        if h.get("cdef_coded") and (h.get("cdef_bits", 0) > 0 or any(any(x) for x in (h.get("cdef_y_strengths") or [])) or any(any(x) for x in (h.get("cdef_uv_strengths") or []))):
            u["cdef"] += 1
        if any(t != 0 for t in (h.get("FrameRestorationType") or [0])):
            u["lr"] += 1
        if h.get("allow_intrabc"):
            u["intrabc"] += 1
        if any(t for t in (h.get("gm_type") or [])):
            u["gm"] += 1
        if h.get("allow_warped_motion"):
            u["warped"] += 1
        if h.get("use_superres"):
            u["superres"] += 1
    tu = os.path.join(wd, tag + ".tu")
    svt.write_tu(packets, tu)
    d = svt.decode(tu, "svt", os.path.join(wd, tag), variant="rel")
    tools = d.info.get("tools") if d.ok else None
    return u, tools, si


def run_case(case, tier):
    base = dict(cfg=dict(case["cfg"]), frames=case["frames"], content=case["content"])
    off_cfg, on_cfg = dict(base["cfg"]), dict(base["cfg"])
    for name in case["off"]:
        f, offv, onv, _, _ = SW[name]
        off_cfg[f], on_cfg[f] = offv, onv
        if name == "superres":
            on_cfg["superres_denom"], on_cfg["superres_kf_denom"] = 12, 11
        if name == "intrabc":
            on_cfg["screen_content_mode"] = off_cfg["screen_content_mode"] = 1
    r_off = svt.run_encode(dict(base, cfg=off_cfg), "rel", timeout=300)
    r_on = None
    try:
        inc = enc_failure_info(r_off)
        if inc:
            return dict(violations=[], nontrivial=False, dkey=None, classes=["encode_failed"], sample=summarize_cfg(case), inconclusive=inc)
        if not r_off.accepted():
            return dict(violations=[], nontrivial=False, dkey=None, classes=["rejected_config"], sample=None)
        u, tools, si = observe(r_off, r_off.workdir, "off")
        if u is None:
            return dict(violations=[], nontrivial=False, dkey=None, classes=["parse_failed"], sample=summarize_cfg(case), inconclusive="parser: %s %s (C02's subject)" % (si.error, si.unsupported))
        if tools is None:
            return dict(violations=[], nontrivial=False, dkey=None, classes=["svt_decode_failed"], sample=summarize_cfg(case), inconclusive="SVT decoder could not parse the stream (C08's subject)")
        viol = []
        for name in case["off"]:
            f, offv, onv, hdr, idx = SW[name]
            if hdr and u.get(hdr, 0):
                viol.append(dict(key="C20|tool-used|%s|header" % name, what="%s=%d but %d frame/sequence headers signal %s" % (f, offv, u[hdr], hdr)))
            n = sum(tools[i] for i in idx if i < len(tools))
            if n:
                viol.append(dict(key="C20|tool-used|%s|blocks" % name, what="%s=%d but %d coded blocks use %s (of %d blocks)" % (f, offv, n, name, tools[0])))
        # tiles
        c = case["cfg"]
        treq = (c.get("tile_columns", 0), c.get("tile_rows", 0))
        for h in si.frames:
            if "TileColsLog2" not in h:
                continue
            want_c = min(max(treq[0], h["minLog2TileCols"]), h["maxLog2TileCols"])
            want_r = min(max(treq[1], h["minLog2TileRows"]), h["maxLog2TileRows"])
            if not h.get("uniform_tile_spacing_flag"):
                viol.append(dict(key="C20|tiles|non-uniform", what="frame in packet %d signals non-uniform tile spacing" % h["pkt"]))
                break
            if (h["TileColsLog2"], h["TileRowsLog2"]) != (want_c, want_r):
                viol.append(dict(key="C20|tiles|layout", what="requested tile log2 (cols %d, rows %d) on %dx%d SBs: stream signals (cols %d, rows %d), expected (cols %d, rows %d) [limits cols %d..%d rows %d..%d]" % (
                    treq[0], treq[1], h["sbCols"], h["sbRows"], h["TileColsLog2"], h["TileRowsLog2"], want_c, want_r, h["minLog2TileCols"], h["maxLog2TileCols"], h["minLog2TileRows"], h["maxLog2TileRows"])))
                break
        # non-vacuity: ON run
        r_on = svt.run_encode(dict(base, cfg=on_cfg), "rel", timeout=300)
        seen_on = []
        if r_on.completed() and r_on.accepted():
            u2, t2, _ = observe(r_on, r_on.workdir, "on")
            if u2 is not None and t2 is not None:
                for name in case["off"]:
                    f, offv, onv, hdr, idx = SW[name]
                    if (hdr and u2.get(hdr, 0)) or sum(t2[i] for i in idx if i < len(t2)):
                        seen_on.append(name)
        classes = ["off_" + n for n in case["off"]] + ["on_shows_" + n for n in seen_on] + ["preset%d" % c["enc_mode"]]
        if treq != (0, 0):
            classes.append("tiles_requested")
        sample = summarize_cfg(base)
        sample.update(off=case["off"], on_run_shows=seen_on, off_run_headers=u, off_run_blocks=tools[:14] if tools else None,
                      tiles=dict(requested=treq, signalled=[(h.get("TileColsLog2"), h.get("TileRowsLog2")) for h in si.frames[:1]]))
        return dict(violations=viol, nontrivial=bool(seen_on) or treq != (0, 0), dkey=svt.case_hash(case), classes=classes, sample=sample)
    finally:
        r_off.cleanup()
        if r_on is not None:
            r_on.cleanup()
