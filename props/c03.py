"""C03 — N pictures in => N packets out, in submission order, with pts / private pointer / EOS."""
from hypothesis import strategies as st
from props.common import svt, gens, enc_failure_info, summarize_cfg, ref_decode_all

ID = "C03"
LEVEL = "exploration"
TAG_KEYS = True   # violation keys get the configuration feature tag appended (engine.feature_tag)
RULE = ("Hypothesis draws histories: N in 0..70 concentrated around multiples of the mini-GOP size and of the intra period (+-2), GOP shape "
        "(hierarchical levels 0-5, intra period, IDR/CRA, overlays, look-ahead, TPL), strictly increasing pts sequences with arbitrary int64 "
        "start and realistic per-frame gaps, unique p_app_private tokens, recon on/off; the application drains after every send. Oracle: exactly N "
        "packets, k-th packet has pts_k, dts==pts, token_k, EOS flag on the last packet only, nothing after it; with recon exactly N recon pictures with "
        "pts set {0..N-1} and one EOS; libaom decodes exactly N pictures. non-trivial = N not a multiple of the mini-GOP size or of P+1, or overlays on, "
        "or N<=2; distinct = (config, N, pts) hash.")
ASSUMPTIONS = ["pts values are strictly increasing (every caller's implicit precondition: the packetizer orders hidden frames by pts)"]


def variants(tier):
    return ["rel"]


def budget(tier):
    if tier == "thorough":
        return dict(shards=16, examples=600, seconds=900, shrink_seconds=200, min_nontrivial=60)
    return dict(shards=16, examples=70, seconds=60, shrink_seconds=45, min_nontrivial=10)


def strategy(tier):
    @st.composite
    def s(draw):
        c = dict(source_width=64, source_height=64, enc_mode=8, logical_processors=draw(st.sampled_from([1, 2, 4])))
        if draw(st.integers(0, 3)) == 0:
            c["source_width"], c["source_height"] = draw(gens.sizes(128))
        if draw(st.integers(0, 5)) == 0:
            c["enc_mode"] = draw(st.sampled_from([7, 6, 5, 4]))
        hl = draw(st.sampled_from([0, 1, 2, 3, 4, 5]))
        c["hierarchical_levels"] = hl
        mg = 1 << hl
        ip = draw(st.sampled_from([-2, -1, -1, 0, 1, 2, 3, 4, 5, 7, 8, 9, 15, 16, 17, 31, 32]))
        c["intra_period_length"] = ip
        c["intra_refresh_type"] = draw(st.sampled_from([1, 2]))
        c["recon_enabled"] = draw(st.sampled_from([0, 1]))
        if draw(st.integers(0, 3)) == 0:
            c["enable_overlays"] = 1
        if draw(st.integers(0, 3)) == 0:
            c["look_ahead_distance"] = draw(st.sampled_from([0, 1, 2, 5, 16, 33, 60]))
        if draw(st.integers(0, 3)) == 0:
            c["enable_tpl_la"] = draw(st.sampled_from([0, 1])) if c["enc_mode"] >= 5 else 1   # TPL off at presets <= 4: listed C01/C03 finding, excluded by construction
        if draw(st.integers(0, 5)) == 0:
            c["tf_level"] = draw(st.sampled_from([0, 1, 2, 3]))
        if draw(st.integers(0, 5)) == 0:
            c["rate_control_mode"] = 1
            c["target_bit_rate"] = 500000
        # N near boundaries
        kind = draw(st.integers(0, 5))
        if kind == 0:
            n = draw(st.integers(0, 3))
        elif kind in (1, 2):
            n = max(0, draw(st.integers(1, 8)) * mg + draw(st.integers(-2, 2)))
        elif kind == 3 and ip >= 0:
            n = max(0, draw(st.integers(1, 4)) * (ip + 1) + draw(st.integers(-2, 2)))
        else:
            n = draw(st.integers(0, 70))
        n = min(n, 70 if tier == "quick" else 130)
        # starts chosen so that the sequence crosses a sign / word boundary INSIDE a mini-GOP (hidden frames are ordered by comparing pts)
        start = draw(st.sampled_from([0, 0, 1, -1, -2, -3, -5, -7, -12, -33033, -90000 * 3, (1 << 31) - 5, (1 << 32) - 3, -(1 << 31) - 2, -(1 << 32) - 6,
                                      1 << 33, -(1 << 40), (1 << 62), (1 << 63) - 200 * 90000, -(1 << 63) + 7, 90000]))
        step = draw(st.sampled_from([1, 1, 1, 2, 1001, 3000, 90000]))
        case = dict(cfg=c, frames=n, content=[draw(st.sampled_from([0, 2, 3, 5])), draw(st.integers(0, 9999)), 50, 2, 0])
        if draw(st.integers(0, 4)) == 0 and n > 0:
            # irregular but strictly increasing
            gaps = draw(st.lists(st.sampled_from([1, 1, 2, 3, 1001, 3000]), min_size=n, max_size=n))
            pts, cur = [], start
            for g in gaps:
                pts.append(cur)
                cur += g
            case["ptslist"] = pts
        else:
            case["pts"] = [start, step]
        return case
    return s()


def expected_pts(case):
    n = case["frames"]
    if "ptslist" in case:
        return list(case["ptslist"][:n])
    a, b = case.get("pts", [0, 1])
    return [a + b * k for k in range(n)]


def check_ledger(r, case, decode=True):
    viol = []
    n = case["frames"]
    pk = r.packets()
    ev = r.s.get("events", [])
    want = expected_pts(case)
    if any(e.get("t") == "extra_after_eos" for e in ev):
        viol.append(dict(key="C03|packet-after-eos", what="a packet was delivered after the EOS packet"))
    if len(pk) != n:
        viol.append(dict(key="C03|packet-count", what="%d packets for %d submitted pictures" % (len(pk), n)))
        return viol
    for k, (e, b) in enumerate(pk):
        if e["pts"] != want[k]:
            viol.append(dict(key="C03|pts", what="packet %d has pts %d, submitted %d (got %s)" % (k, e["pts"], want[k], [x["pts"] for x, _ in pk][:12])))
            break
    for k, (e, b) in enumerate(pk):
        if e["dts"] != e["pts"]:
            viol.append(dict(key="C03|dts", what="packet %d dts %d != pts %d" % (k, e["dts"], e["pts"])))
            break
    for k, (e, b) in enumerate(pk):
        if e["priv"] != 0x1000 + k:
            viol.append(dict(key="C03|p_app_private", what="packet %d carries p_app_private %#x, submitted picture had %#x" % (k, e["priv"], 0x1000 + k)))
            break
    for k, (e, b) in enumerate(pk):
        last = k == n - 1
        if bool(e["flags"] & 1) != last:
            viol.append(dict(key="C03|eos-flag", what="packet %d of %d has EOS flag %d" % (k, n, e["flags"] & 1)))
            break
    if case["cfg"].get("recon_enabled"):
        rec = r.recons()
        pts = sorted(e["pts"] for e, _ in rec)
        if pts != list(range(n)):
            viol.append(dict(key="C03|recon-set", what="recon pts %s for N=%d" % (pts[:20], n)))
        neos = sum(1 for e, _ in rec if e["flags"] & 1)
        if n and neos != 1:
            viol.append(dict(key="C03|recon-eos", what="%d recon pictures carry EOS" % neos))
    if decode and n and not viol:
        decs, _ = ref_decode_all([b for _, b in pk], r.workdir, decs=("aom",))
        a = decs["aom"]
        if not a.ok or a.nerr or len(a.planes) != n:
            viol.append(dict(key="C03|decode-count", what="libaom decoded %d pictures (errors %s) for N=%d" % (len(a.planes), a.nerr, n)))
    return viol


def run_case(case, tier):
    r = svt.run_encode(case, "rel", timeout=200)
    try:
        inc = enc_failure_info(r)
        if inc:
            return dict(violations=[], nontrivial=False, dkey=None, classes=["encode_failed"], sample=summarize_cfg(case), inconclusive=inc)
        if not r.accepted():
            return dict(violations=[], nontrivial=False, dkey=None, classes=["rejected_config"], sample=None)
        viol = check_ledger(r, case)
        c = case["cfg"]
        n = case["frames"]
        mg = 1 << c["hierarchical_levels"]
        ip = c["intra_period_length"]
        nt = (n % mg != 0) or (ip >= 0 and n % (ip + 1) != 0) or bool(c.get("enable_overlays")) or n <= 2
        classes = ["hl%d" % c["hierarchical_levels"], "N0" if n == 0 else ("N<=2" if n <= 2 else "N>2")]
        if c.get("enable_overlays"):
            classes.append("overlays")
        if c.get("recon_enabled"):
            classes.append("recon")
        if "ptslist" in case:
            classes.append("irregular_pts")
        sample = summarize_cfg(case)
        sample["observed"] = dict(npk=len(r.packets()), flags=[e["flags"] for e, _ in r.packets()][:16])
        return dict(violations=viol, nontrivial=bool(nt), dkey=svt.case_hash(case), classes=classes, sample=sample)
    finally:
        r.cleanup()
