"""C13 — the default configuration returned by svt_av1_enc_init_handle is complete and well defined."""
from hypothesis import strategies as st
from props.common import svt, gens, summarize_cfg, differential, run_status

ID = "C13"
LEVEL = "exploration"
TAG_KEYS = True   # violation keys get the configuration feature tag appended (engine.feature_tag)
RULE = ("Hypothesis draws a sparse set of explicit settings (always source size), content, N and 2-3 prior-memory patterns for the caller's EbSvtAv1EncConfiguration "
        "from {0xFF, 0xA5, random bytes(seed), bytes left over from another valid configuration}; the struct is pre-filled, svt_av1_enc_init_handle is called, only "
        "the explicit settings are written, then set_parameter/init/encode. Oracle: every pattern is accepted iff the zero-filled reference is, and packets+recon are "
        "byte-identical to it; the worker also dumps the struct returned by init_handle and names every field whose value depends on the prior memory. "
        "non-trivial = >=2 non-zero patterns completed and the stream has >=2 frames; distinct = (settings, content, N, patterns) hash.")
ASSUMPTIONS = ["each pattern runs in its own process so that a wild pointer in an undefaulted field shows up as that run's crash"]


def variants(tier):
    return ["asan" if tier == "thorough" else "rel"]


def budget(tier):
    if tier == "thorough":
        return dict(shards=16, examples=200, seconds=900, shrink_seconds=200, min_nontrivial=40)
    return dict(shards=16, examples=25, seconds=60, shrink_seconds=45, min_nontrivial=6)


def strategy(tier):
    @st.composite
    def s(draw):
        c, n, tp = draw(gens.cfg(max_dim=144, frames=(2, 8), allow_twopass=False, lps=(1, 2), presets=(8, 8, 7, 6), tools_p=2, allow_rc=False, exclude=("AQ1", "GRAIN", "SRES", "2PASS", "16BP")))   # rate control is nondeterministic on its own (listed C04 finding)
        # sparse: keep only a random subset of the generated overrides (size always explicit)
        keep = {"source_width", "source_height", "logical_processors", "enc_mode"}
        for k in list(c):
            if k not in keep and draw(st.booleans()):
                del c[k]
        if c.get("rate_control_mode") == 2 and "look_ahead_distance" not in c:
            c.pop("rate_control_mode")
        if "intrabc_mode" in c and c.get("screen_content_mode") != 1:
            c.pop("intrabc_mode")
        c["recon_enabled"] = 1
        cnt = draw(gens.content(kinds=(2, 3, 5, 7)))
        pats = draw(st.lists(st.sampled_from([(1, 0), (2, 0), (4, 1), (3, 1), (3, 2), (3, 3), (4, 2)]), min_size=2, max_size=3, unique=True))
        case = gens.case_from(c, n, tp, cnt)
        case["patterns"] = [list(p) for p in pats]
        case["dump_cfg"] = 1
        return case
    return s()


def run_case(case, tier):
    variant = "asan" if tier == "thorough" else "rel"
    base = {k: v for k, v in case.items() if k != "patterns"}
    vs = [("zero", dict(base, prefill=[0, 0]))]
    for p in case["patterns"]:
        vs.append(("pat%d_%d" % tuple(p), dict(base, prefill=p)))
    viol, statuses, results = differential(base, vs, "prior-memory", pid=ID, variant=variant)
    try:
        r0 = results[0][1]
        d0 = r0.s.get("cfg_default") if r0.json_ok else None
        # name the fields whose default depends on prior memory
        for name, r in results[1:]:
            d = r.s.get("cfg_default") if r.json_ok and r.sessions else None
            if d0 and d:
                diff = sorted(k for k in d0 if d0[k] != d.get(k))
                if diff:
                    viol.append(dict(key="C13|undefaulted|" + ",".join(diff)[:120], what="%s: fields returned by init_handle depend on the caller's prior memory: %s" % (name, diff)))
            s = statuses[name]
            if statuses["zero"] == "ok" and s not in ("ok",):
                viol.append(dict(key="C13|pattern-fails|" + s.split(":")[0], what="zero-filled config runs fine but %s gives %s (%s)" % (name, s, (r.crash or r.hang or "")[:200] if not isinstance(r.hang, dict) else r.hang)))
        # de-duplicate
        seen, out = set(), []
        for v in viol:
            if v["key"] not in seen:
                seen.add(v["key"])
                out.append(v)
        ok = [n for n, s in statuses.items() if s == "ok"]
        inc = None
        if statuses["zero"] not in ("ok", "rejected"):
            inc = "reference run failed: %s" % statuses["zero"]
        sample = summarize_cfg(base)
        sample["patterns"] = case["patterns"]
        sample["observed"] = statuses
        classes = ["n_ok%d" % len(ok)] + ["pat%d" % p[0] for p in case["patterns"]]
        return dict(violations=out, nontrivial=len(ok) >= 3 and len(r0.packets() if statuses["zero"] == "ok" else []) >= 2, dkey=svt.case_hash(case),
                    classes=classes, sample=sample, inconclusive=inc if not out else None)
    finally:
        for _, r in results:
            r.cleanup()
