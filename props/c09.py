"""C09 — multi-threaded decoding gives the single-thread result, memory-safely, and tears down."""
import os, shutil, hashlib
from hypothesis import strategies as st
from props.common import svt, gens
from props import c08
import streaminfo

ID = "C09"
LEVEL = "exploration"
RULE = ("Hypothesis draws a valid stream (same two sources as C08: SVT encoder, or libaom's encoder through dlopen; biased to >= 2 tiles and >= 4 superblock rows, all post-filters) and 2-3 decoder "
        "settings threads in 2..16 x is_16bit_pipeline x a schedule stressor (CPU affinity squeeze to 2-4 cores, at most 4 threads per core via taskset so that 16 decoder threads preempt each other inside their spin-wait regions; "
        "H1 perturbation string for the mutex/semaphore wrappers the decoder does use). Half of the cases run on the ASan build (every packet in an exact-size heap buffer, so any over-read is visible), "
        "LeakSanitizer at exit. Oracle: every multi-threaded run returns exactly the pictures of the 1-thread decode of the same stream (which C08 ties to "
        "libaom/dav1d; here the libaom decode is also compared), no decoder error, no ASan/LSan report, deinit + deinit_handle return, the process exits; a differing multi-threaded run is repeated 4 times: the same wrong pictures every time = 'deterministic', otherwise 'intermittent'; the key also carries the thread-count bucket (2-4 / 5+): the listed hand-over race of the pinned tree shows up intermittently, or - with 5+ threads under ASan timing - with one predominant wrong result; a run exceeding 30 s (normal: 0.1-3 s) is a hang candidate and must "
        "reproduce in 2 of 3 replays. non-trivial = the stream has >= 2 tiles or >= 4 SB rows and >= 1 multi-threaded setting (threads >= 2) completed with pictures equal to the single-thread decode (the listed barrier deadlock ends many runs of the pinned tree); distinct = sha256(stream) x settings.")
ASSUMPTIONS = ["the data-race clause is NOT decided: the decoder synchronises through volatile spin flags that ThreadSanitizer does not model (thousands of reports on the unchanged tree, no signal); "
               "what is decided: equality with the single-thread result under preemption stress, memory safety (ASan), leaks (LSan), termination and teardown",
               "sampled schedules (affinity squeeze + wrapper perturbation), not enumeration"]
CONFIRM_NEED = 2


def variants(tier):
    return ["rel", "asan"]


def budget(tier):
    if tier == "thorough":
        return dict(shards=6, examples=300, seconds=1500, shrink_seconds=240, min_nontrivial=30)
    # few shards: every decoder run spins up to 16 threads; 16 shards at once starve each other into the time limit
    return dict(shards=5, examples=40, seconds=170, shrink_seconds=60, min_nontrivial=4)


def strategy(tier):
    thorough = tier == "thorough"
    @st.composite
    def s(draw):
        if draw(st.integers(0, 9)) < 5:
            a = draw(c08.aom_args(thorough))
            a["w"] = draw(st.sampled_from([128, 192, 208, 256, 320]))
            a["h"] = draw(st.sampled_from([128, 192, 256, 288]))
            a["cpu"] = draw(st.sampled_from([9, 8, 7, 6]))
            a["frames"] = draw(st.integers(2, 8))
            a["tile_cols"] = draw(st.integers(0, 2))
            a["tile_rows"] = draw(st.integers(0, 2))
            if draw(st.booleans()):
                a["aq"] = draw(st.integers(1, 3))          # segmentation with per-segment quantisers: per-thread derived tables must follow it
                a["end_usage"], a["cq"] = 3, draw(st.sampled_from([20, 35, 50]))
            src = dict(src="aom", aom=a)
        else:
            c, n, tp = draw(gens.cfg(max_dim=320, min_dim=130, frames=(2, 10), allow_twopass=False, slow_p=0, lps=(4,), recon=0, presets=(8, 8, 7, 6, 5), exclude=("AQ1", "TPL0", "MINQ0", "2PASS")))
            c["tile_rows"] = draw(st.integers(0, 2))
            c["tile_columns"] = draw(st.integers(0, 2))
            if draw(st.integers(0, 3)) == 0:
                # segmentation-based AQ (only without tiles: with tiles libaom rejects the stream, a listed C01 finding)
                c["enable_adaptive_quantization"] = 1
                c["tile_rows"] = c["tile_columns"] = 0
                c.pop("rate_control_mode", None)
            src = dict(src="svt", enc=gens.case_from(c, n, tp, draw(gens.content())))
        runs = []
        for _ in range(draw(st.integers(2, 3))):
            th = draw(st.sampled_from([2, 3, 4, 6, 8, 12, 16]))
            # affinity squeeze: the decoder's workers spin-wait, so N threads on far fewer cores make progress only at scheduler-quantum speed;
            # keep threads/cores <= 4 so that a correct decoder finishes well inside the time limit (a slow run is not a hang)
            cpus = draw(st.sampled_from([0, 0, 2, 3, 4]))
            if cpus and th > 4 * cpus:
                th = 4 * cpus
            runs.append(dict(threads=th, is16=draw(st.integers(0, 1)), cpus=cpus,
                             sched=draw(st.sampled_from([None, None, "%d:300:50" % draw(st.integers(0, 9999)), "%d:30:1000" % draw(st.integers(0, 9999))]))))
        src["runs"] = runs
        src["asan"] = draw(st.booleans())
        return src
    return s()


def _decode(tu, wd, tag, variant, threads, is16, cpus=0, sched=None, timeout=30):
    env = {}
    if sched:
        env["SVT_VERIF_SCHED"] = sched
    pre = os.path.join(wd, tag)
    import subprocess, json
    b = svt.bins(variant)["svtdec"]
    cmd = [b, tu, pre, str(threads), str(is16), "0", "0", "0", "0"]
    if cpus:
        cmd = ["taskset", "-c", ",".join(str(i) for i in range(cpus))] + cmd
    e = svt.san_env(variant, env)
    r = svt.DecResult()
    try:
        p = subprocess.run(cmd, env=e, stdout=subprocess.PIPE, stderr=subprocess.PIPE, timeout=timeout)
        r.exit, err = p.returncode, p.stderr.decode("latin1", "replace")
    except subprocess.TimeoutExpired:
        r.exit, err = -999, ""
    r.err = err[-4000:]
    r.san = svt.parse_sanitizer(err)
    try:
        j = json.load(open(pre + ".svt.json"))
    except Exception:
        return r
    r.info, r.frames, r.nerr = j, j.get("frames", []), j.get("nerr", -1)
    yp = pre + ".svt.yuv16"
    r.planes = svt._split_yuv16(open(yp, "rb").read() if os.path.exists(yp) else b"", r.frames)
    r.ok = bool(j.get("done")) and r.exit == 0
    r.torn_down = j.get("rc_deinit") == 0 and j.get("rc_deinit_handle") == 0
    return r


def run_case(case, tier):
    wd = svt.mkwork("c09")
    try:
        packets, info, inc = c08.make_stream(case, wd)
        if inc:
            return dict(violations=[], nontrivial=False, dkey=None, classes=["source_failed"], sample=None, inconclusive=inc)
        if packets is None:
            return dict(violations=[], nontrivial=False, dkey=None, classes=["source_rejected_" + case["src"]], sample=None)
        tu = os.path.join(wd, "s.tu")
        svt.write_tu(packets, tu)
        a = svt.decode(tu, "aom", os.path.join(wd, "s"))
        if not a.ok or a.nerr or not a.planes:
            return dict(violations=[], nontrivial=False, dkey=None, classes=["reference_failed_" + case["src"]], sample=None)
        variant = "asan" if case.get("asan") else "rel"
        viol, classes = [], ["src_" + case["src"], variant]
        si = streaminfo.analyze(packets)
        tiles = max([h.get("TileCols", 1) * h.get("TileRows", 1) for h in si.frames] or [1])
        sbs = 128 if (si.seq or {}).get("use_128x128_superblock") else 64
        sbrows = max([(h.get("FrameHeight", 0) + sbs - 1) // sbs for h in si.frames] or [1])
        done = 0
        hangs = 0
        base = {}
        for is16 in sorted({r["is16"] for r in case["runs"]}):
            b = _decode(tu, wd, "t1_%d" % is16, variant, 1, is16)
            base[is16] = b
            if not b.ok or b.nerr or len(b.planes) != len(a.planes) or any(x != y for x, y in zip(b.planes, a.planes)):
                # single-thread problem: C08's subject; only memory errors are reported here
                for rep in b.san:
                    viol.append(dict(key="C09|sanitizer-1thread|%s|%s" % (rep["kind"], rep["frame"]), what=rep["line"]))
                    break
                classes.append("single_thread_baseline_bad")
        for i, rn in enumerate(case["runs"]):
            b = base[rn["is16"]]
            if "single_thread_baseline_bad" in classes:
                break
            r = _decode(tu, wd, "mt%d" % i, variant, rn["threads"], rn["is16"], rn["cpus"], rn["sched"])
            tag = "threads=%d is16=%d cpus=%s sched=%s" % (rn["threads"], rn["is16"], rn["cpus"], rn["sched"])
            if r.exit == -999:
                if not any(v["key"] == "C09|hang" for v in viol):
                    viol.append(dict(key="C09|hang", what="multi-threaded decode did not finish within 30 s (%s)" % tag))
                hangs += 1
                if hangs >= 2:
                    break       # each hang costs the full time limit
                continue
            if r.san:
                rep = r.san[0]
                viol.append(dict(key="C09|sanitizer|%s|%s" % (rep["kind"], rep["frame"]), what="%s: %s" % (tag, rep["line"])))
                if not r.ok or not str(rep["kind"]).startswith("ubsan"):
                    continue        # a recoverable UBSan report (run completed) does not stop the output comparison
            if not r.ok:
                viol.append(dict(key="C09|crash", what="multi-threaded decode crashed / did not complete (%s): exit %s %s" % (tag, r.exit, r.err[-300:].replace("\n", " | "))))
                continue
            if not r.torn_down:
                viol.append(dict(key="C09|teardown", what="deinit/deinit_handle returned %s/%s (%s)" % (r.info.get("rc_deinit"), r.info.get("rc_deinit_handle"), tag)))
            if r.nerr:
                viol.append(dict(key="C09|decode-error", what="multi-threaded decode reported %d errors where 1 thread reports none (%s)" % (r.nerr, tag)))
            elif len(r.planes) != len(b.planes):
                viol.append(dict(key="C09|picture-count", what="%d pictures vs %d with 1 thread (%s)" % (len(r.planes), len(b.planes), tag)))
            else:
                for k, (x, y) in enumerate(zip(r.planes, b.planes)):
                    if x != y:
                        # the pinned tree has a listed, timing-dependent hand-over race between decoder threads: its wrong pictures vary from run to run.
                        # A difference that comes back bit-identically in 4 of 4 immediate repeats is not that race: keyed separately ('deterministic').
                        dg = hashlib.sha256(b"".join(r.planes)).hexdigest()
                        same = 0
                        for rep in range(4):
                            r2 = _decode(tu, wd, "mt%d_r%d" % (i, rep), variant, rn["threads"], rn["is16"], rn["cpus"], rn["sched"])
                            if r2.ok and hashlib.sha256(b"".join(r2.planes)).hexdigest() == dg:
                                same += 1
                        kind = "deterministic" if same == 4 else "intermittent"
                        viol.append(dict(key="C09|output-differs|%s|tiles%s|th%s" % (kind, "1" if tiles == 1 else "2-4" if tiles <= 4 else "5+", "2-4" if rn["threads"] <= 4 else "5+"),
                                         what="picture %d differs from the 1-thread decode (%s; tiles=%d sbrows=%d; identical wrong output in %d of 4 repeats)" % (k, tag, tiles, sbrows, same)))
                        break
                else:
                    done += 1
        nt = done >= 1 and (tiles >= 2 or sbrows >= 4)
        classes += ["tiles%d" % min(tiles, 16), "sbrows%d" % min(sbrows, 8)] + ["threads%d" % r["threads"] for r in case["runs"]]
        if any(r["cpus"] for r in case["runs"]):
            classes.append("cpu_squeeze")
        if variant == "asan":
            classes.append("exact_size_buffers_asan")
        sample = dict(src=case["src"], args=case.get("aom") or case["enc"]["cfg"], runs=case["runs"], variant=variant, tiles=tiles, sb_rows=sbrows, pictures=len(a.planes))
        dkey = hashlib.sha256(b"".join(packets)).hexdigest()[:16] + "/" + svt.case_hash(case["runs"])
        return dict(violations=viol, nontrivial=nt, dkey=dkey, classes=classes, sample=sample)
    finally:
        shutil.rmtree(wd, ignore_errors=True)
