"""C27 — output and progress independent of how the application paces its calls."""
from hypothesis import strategies as st
from props.common import svt, gens, summarize_cfg, first_difference, run_status, diff_region

ID = "C27"
LEVEL = "exploration"
TAG_KEYS = True   # violation keys get the configuration feature tag appended (engine.feature_tag)
RULE = ("Hypothesis draws (configuration, content, N in 1..120, recon on/off, lp) and 2-3 call patterns: per submitted picture a token over {poll all packets, poll one "
        "packet, poll all recon, sleep 0.1/1/5 ms, nothing}: drain after every send (the must-complete pattern, always the reference), every k sends, only at the end, random. "
        "speed_control_flag=1 is excluded (documented as timing-adaptive). Oracle: the reference pattern completes (deadlock signature => violation); any other "
        "pattern either completes or ends blocked in send_picture on an exhausted pool (legal back-pressure: no verdict); all completing patterns give byte-identical "
        "packets and recon. non-trivial = >=2 completing patterns that differ in drain cadence and N >= 8; distinct = (config, content, N, patterns) hash.")
ASSUMPTIONS = ["back-pressure (send_picture blocked while the application does not drain) is legal and recorded as 'did not complete'"]
CONFIRM_NEED = 2


def variants(tier):
    return ["rel"]


def budget(tier):
    if tier == "thorough":
        return dict(shards=16, examples=250, seconds=1200, shrink_seconds=300, min_nontrivial=40)
    return dict(shards=16, examples=20, seconds=75, shrink_seconds=60, min_nontrivial=6)


def strategy(tier):
    @st.composite
    def s(draw):
        c, n, tp = draw(gens.cfg(max_dim=128, frames=(1, 120 if tier == "thorough" else 60), allow_twopass=False, lps=(1, 2, 4, 8), presets=(8, 8, 8, 7, 6), tools_p=1,
                                 allow_rc=False, allow_superres=False, exclude=("AQ1", "GRAIN", "OVL", "SRES", "2PASS", "16BP")))
        c["recon_enabled"] = draw(st.sampled_from([0, 1]))
        c.pop("speed_control_flag", None)
        cnt = draw(gens.content(kinds=(0, 2, 3, 5)))
        pats = []
        for _ in range(draw(st.integers(2, 3))):
            kind = draw(st.sampled_from(["every_k", "end", "random", "sleepy"]))
            rec = "r" if c["recon_enabled"] and draw(st.booleans()) else ""
            if kind == "every_k":
                k = draw(st.integers(2, 9))
                pat = [("p" + rec) if (i + 1) % k == 0 else "n" for i in range(n)]
            elif kind == "end":
                pat = ["n"]
            elif kind == "sleepy":
                pat = [draw(st.sampled_from(["sp" + rec, "Sp", "up" + rec, "s", "p" + rec])) for i in range(min(n, 12))]
            else:
                pat = [draw(st.sampled_from(["p" + rec, "1", "n", "n", "r" if c["recon_enabled"] else "n", "u", "1" + rec])) for i in range(min(n, 40))]
            pats.append(pat)
        case = gens.case_from(c, n, tp, cnt)
        case["pats"] = pats
        return case
    return s()


def run_case(case, tier):
    base = {k: v for k, v in case.items() if k != "pats"}
    ref = svt.run_encode(dict(base, pat=["pr"]), "rel", timeout=300)
    results = [("drain_every_send", ref)]
    viol = []
    try:
        st0 = run_status(ref)
        if st0.startswith("hang:deadlock"):
            viol.append(dict(key="C27|must-complete-pattern-deadlocks|" + str(ref.hang.get("where")), what="drain-after-every-send pattern hit the deadlock signature: %s" % ref.hang))
        statuses = {"drain_every_send": st0}
        completing = 1 if st0 == "ok" else 0
        for i, pat in enumerate(case["pats"]):
            r = svt.run_encode(dict(base, pat=pat), "rel", timeout=300, env={"SVTDRV_DEADLOCK_S": "8"})
            name = "pat%d" % i
            results.append((name, r))
            s = run_status(r)
            statuses[name] = s
            if s.startswith("hang:deadlock") and r.hang.get("where", "").startswith("send_picture"):
                statuses[name] = "backpressure"
                continue
            if s == "ok" and st0 == "ok":
                completing += 1
                d = first_difference(ref, r)
                if d:
                    viol.append(dict(key="C27|output-differs" + ("|eos-tail" if diff_region(d, ref, base["cfg"].get("hierarchical_levels", 4)) == "eos-tail" else ""), what="pattern %s vs drain-every-send: %s" % (pat[:12], d)))
            elif s.startswith("hang:deadlock") and st0 == "ok":
                viol.append(dict(key="C27|pattern-deadlocks|" + str(r.hang.get("where")), what="pattern %s: deadlock signature outside send_picture: %s" % (pat[:12], r.hang)))
        inc = None
        if st0 not in ("ok", "rejected") and not viol:
            inc = "reference run failed: %s" % st0
        sample = summarize_cfg(base)
        sample["patterns"] = [p[:10] for p in case["pats"]]
        sample["observed"] = statuses
        classes = ["completing%d" % completing] + [s.split(":")[0] for s in statuses.values() if s != "ok"] + ["recon%d" % base["cfg"]["recon_enabled"]]
        return dict(violations=viol, nontrivial=completing >= 2 and case["frames"] >= 8, dkey=svt.case_hash(case), classes=classes, sample=sample, inconclusive=inc)
    finally:
        for _, r in results:
            r.cleanup()
